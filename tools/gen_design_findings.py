#!/usr/bin/env python3
"""Regenerate section 12 of DESIGN.md (findings ledger) from known_findings.json."""
import json, os
V = os.path.dirname(os.path.dirname(os.path.abspath(__file__)))
d = json.load(open(os.path.join(V, 'known_findings.json')))['findings']
B, E = "<!-- SEC12-BEGIN -->", "<!-- SEC12-END -->"
out = [B, "", "## 12. Findings ledger (generated from known_findings.json by tools/gen_design_findings.py)", "",
       "Open findings (genuine defects recorded, not repaired - printed as KNOWN-FINDING, matched by mismatch class):", ""]
for f in d:
    if f['status'] == 'open':
        out.append("* **%s** (%s), classes `%s`: %s" % (f['id'], f['property'], f['match_cls'], f['what']))
out += ["", "Repaired by `fix:` commits in /repo (%d); a fixed entry suppresses nothing - the class is a VIOLATION again if it returns:" % sum(1 for f in d if f['status'] == 'fixed'), ""]
for f in d:
    if f['status'] == 'fixed':
        out.append("* %s `%s` %s" % (f['property'], f.get('commit', '?'), f['what'].split(' ', 3)[-1] if f['what'].startswith('fixed:') else f['what']))
out += ["", E]
p = os.path.join(V, 'DESIGN.md')
s = open(p).read()
if B in s:
    s = s[:s.index(B)] + "\n".join(out) + s[s.index(E) + len(E):]
else:
    s = s.rstrip("\n") + "\n\n" + "\n".join(out) + "\n"
open(p, 'w').write(s)
print("section 12 written: %d open, %d fixed" % (sum(1 for f in d if f['status'] == 'open'), sum(1 for f in d if f['status'] == 'fixed')))
