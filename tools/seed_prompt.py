import json,sys
props={}
for l in open('/verif/properties.jsonl'):
    p=json.loads(l); props[p['id']]=p
t=open('/verif/seeded/PROMPT_TEMPLATE.txt').read()
pid,n,variant=sys.argv[1],sys.argv[2],sys.argv[3]
p=props[pid]
s=t.replace('__PID__',pid).replace('__N__',n).replace('__TITLE__',p['title']).replace('__STATEMENT__',p['statement']).replace('__QUANT__',p['quantifier']['text']).replace('__FILES__',', '.join(p['anchors']['files'])).replace('__VARIANT__',variant)
open('/tmp/seed_out/prompt_%s_%s.txt'%(pid,n),'w').write(s)
print('ok',pid,n)
