"""C19 registry entry: sparse Rips filtration vs brute-force Rips filtration (subcomplex, validity, log-bottleneck guarantee)."""


def register(CHECKS, H):
    CHECKS["C19"] = C19()


def C19():
    src = "checks/c19_sparse_rips.cpp"
    deps = ["checks/c19_oracle.hpp"]
    D = "c19_double"   # Sparse_rips_complex<double> + Simplex_tree<> (default options)
    F = "c19_float"    # Sparse_rips_complex<float> + Simplex_tree with float filtration values
    G_ONLY = ["--veps", "-", "--beps", "-"]   # only the guarantee configurations (epsilon < 1, no bounds)
    return {
        "units": [
            {"name": D, "src": src, "flags": [], "deps": deps},
            {"name": F, "src": src, "flags": ["-DVF_FLOAT"], "deps": deps},
        ],
        "level": "model_checking",
        "engine": "E2 bounded-exhaustive input enumeration",
        "technique": ("exhaustive enumeration of every finite metric space of a small scope (all labelled integer distance "
                      "matrices over a value set, all point sets on an integer segment, all subsets of a non-uniform planar grid) "
                      "x every first landmark of the farthest-point ordering x every epsilon / mini / maxi / dim_max configuration, "
                      "executed on the real Sparse_rips_complex + Simplex_tree (both constructors) and compared with a brute-force "
                      "Rips filtration, textbook Z_p column-reduction persistence and a bipartite-matching bottleneck decision"),
        "level_text": ("for every enumerated input the complex produced by create_complex is read back simplex by simplex and checked "
                       "to be closed under faces, monotone and within dim_max (every configuration, including epsilon >= 1 and "
                       "finite mini/maxi), to be a filtered subcomplex of the brute-force Rips filtration with no value below the "
                       "Rips value (epsilon < 1), and - for epsilon < 1 without bounds - its persistence diagram (reference "
                       "column reduction on the output complex) is decided to be within log-bottleneck distance "
                       "log(1/(1-epsilon)) of the Rips diagram in every dimension below dim_max by a perfect-matching test "
                       "that includes diagonal projections; the farthest-point order and radii are checked to be a greedy "
                       "permutation. The constructor's random first landmark is enumerated (all n choices) by substituting a "
                       "deterministic std::random_device. Small scope: at most 5 points (6 in the thorough tier), so H_2 and "
                       "above are only seen empty or identical; nothing is claimed for larger inputs"),
        "level_note": ("trusted: the oracle header c19_oracle.hpp (Rips by subsets, diagrams through ref::persistence, Kuhn "
                       "matching), ref_complex.hpp, g++/ASan/UBSan; tolerance 1e-9 (double) / 2e-6 (float) on values and on the "
                       "log-scale threshold"),
        "rule": ("E2: one case = (metric space, first landmark, epsilon, mini, maxi, dim_max) -> constructor + create_complex on a "
                 "fresh Simplex_tree; states = distinct cases; transitions = oracle comparisons executed (validity, Rips "
                 "subcomplex, one bottleneck decision per homology dimension, greedy-permutation check per build); "
                 "distinct_nontrivial = cases whose output has at least one edge and differs from the Rips complex of the same "
                 "dim_max (a simplex missing or with a larger value)"),
        "bounds": {
            "quick": ("double: all labelled integer metrics on 2..4 points with distances in {1,2,5,9,10}; the 788 isometry classes "
                      "of metrics on 5 points with distances in {1,2,9,10}; all point sets {0=x0<x1<..} of 2..5 points in the "
                      "integer segment [0,16]; all 3-,4- and 5-subsets of the planar grid {0,1,3,9}^2 (Euclidean, points+distance "
                      "constructor). Every first landmark; epsilon in {0.05,0.1,0.25,0.5,0.75,0.9,0.99} without bounds (guarantee), "
                      "{1,1.5,3} without bounds and {0.5,1.5} x mini in {none,1.5,2.5} x maxi in {none,2.5,6.5} (validity); "
                      "every dim_max in 1..n-1; persistence over Z_2; float instantiation on the 3- and 4-subsets of the grid"),
            "thorough": ("quick scope plus: all 53 248 labelled metrics on 5 points over {1,2,9,10} and all 7 580 over {1,2,4,8}; "
                         "labelled metrics on 2..4 points over {1,2,3,6,10,11}; isometry classes on 5 points over {1,2,3,4} and "
                         "on 6 points over {1,2}; segment [0,20] with up to 5 points and [0,16] with 6 points; grid {0,1,3,9}^2 with 5 points (all "
                         "configurations) and 6 points (guarantee configurations); grids {0,1,2,3}^2 and {0,1,4,12}^2 with 5 "
                         "points; float instantiation on the segment and grid families; Z_3 persistence on the 5-point grid"),
        },
        "assumptions": [
            "documented preconditions only: distinct points, a true metric (triangle inequality; Euclidean distances are the "
            "correctly rounded sqrt of exact integers), epsilon > 0, complex empty before create_complex, dim_max >= 1",
            "the first landmark is the only random choice of the class: std::random_device is replaced (macro around the include of "
            "choose_n_farthest_points.h) by a deterministic source and all n first landmarks are enumerated; ties of the "
            "farthest-point order are resolved by the library (not enumerated)",
            "the guarantee is compared in dimensions < dim_max only (the top dimension of a truncated complex is not the homology "
            "of the untruncated one); births at 0 are at log-distance 0 of each other and infinitely far from anything else",
            "persistence of the output complex is computed by the reference reduction (GUDHI's persistence engine is C02's subject)",
            "small scope: n <= 5 points (6 in thorough), spread (largest distance / smallest insertion radius) up to ~17; units of "
            "length 1, 2^-60, 2^60 (double), 2^-30 (float) in quick, 2^-200 / 2^200 in thorough - exact rescalings of the same inputs",
        ],
        "runs": {
            "quick": [
                {"unit": D, "args": ["--fam", "int", "--n", "2,3,4", "--vals", "1,2,5,9,10"], "shards": 3, "cores": 1},
                {"unit": D, "args": ["--fam", "int", "--n", "5", "--vals", "1,2,9,10", "--canon", "1"], "shards": 2, "cores": 1},
                {"unit": D, "args": ["--fam", "line", "--n", "2,3,4,5", "--N", "16"], "shards": 3, "cores": 1},
                {"unit": D, "args": ["--fam", "grid", "--n", "3,4", "--coords", "0,1,3,9"], "shards": 2, "cores": 1},
                {"unit": D, "args": ["--fam", "grid", "--n", "5", "--coords", "0,1,3,9"], "shards": 6, "cores": 1},
                {"unit": F, "args": ["--fam", "grid", "--n", "3,4", "--coords", "0,1,3,9"], "cores": 1},
                # the same inputs in other units of length (exact power-of-two factors): nothing may depend on the scale
                {"unit": D, "args": ["--fam", "int", "--n", "2,3,4", "--vals", "1,2,5,9,10", "--scale2", "-60"], "shards": 3, "cores": 1},
                {"unit": D, "args": ["--fam", "grid", "--n", "3,4", "--coords", "0,1,3,9", "--scale2", "60"], "shards": 2, "cores": 1},
                {"unit": F, "args": ["--fam", "grid", "--n", "3,4", "--coords", "0,1,3,9", "--scale2", "-30"], "cores": 1},
            ],
            "thorough": [
                {"unit": D, "args": ["--fam", "int", "--n", "2,3,4", "--vals", "1,2,5,9,10", "--scale2", "-60"], "shards": 2, "cores": 1, "timeout": 1500},
                {"unit": D, "args": ["--fam", "int", "--n", "5", "--vals", "1,2,9,10", "--canon", "1", "--scale2", "-200"], "shards": 2, "cores": 1, "timeout": 1500},
                {"unit": D, "args": ["--fam", "grid", "--n", "3,4,5", "--coords", "0,1,3,9", "--scale2", "200"], "shards": 4, "cores": 1, "timeout": 2400},
                {"unit": F, "args": ["--fam", "grid", "--n", "3,4", "--coords", "0,1,3,9", "--scale2", "-30"], "shards": 2, "cores": 1, "timeout": 1500},
                {"unit": D, "args": ["--fam", "int", "--n", "2,3,4", "--vals", "1,2,5,9,10"], "shards": 2, "cores": 1, "timeout": 1500},
                {"unit": D, "args": ["--fam", "int", "--n", "5", "--vals", "1,2,9,10"] + G_ONLY, "shards": 8, "cores": 1, "timeout": 2400},
                {"unit": D, "args": ["--fam", "int", "--n", "5", "--vals", "1,2,4,8"], "shards": 4, "cores": 1, "timeout": 2400},
                {"unit": D, "args": ["--fam", "int", "--n", "2,3,4", "--vals", "1,2,3,6,10,11"], "shards": 2, "cores": 1, "timeout": 1500},
                {"unit": D, "args": ["--fam", "int", "--n", "5", "--vals", "1,2,3,4", "--canon", "1"], "shards": 2, "cores": 1, "timeout": 1500},
                {"unit": D, "args": ["--fam", "int", "--n", "6", "--vals", "1,2", "--canon", "1"], "cores": 1, "timeout": 1500},
                {"unit": D, "args": ["--fam", "int", "--n", "5", "--vals", "1,2,9,10", "--canon", "1"], "shards": 2, "cores": 1, "timeout": 1500},
                {"unit": D, "args": ["--fam", "line", "--n", "2,3,4,5", "--N", "20"], "shards": 4, "cores": 1, "timeout": 1500},
                {"unit": D, "args": ["--fam", "line", "--n", "6", "--N", "16"], "shards": 6, "cores": 1, "timeout": 2400},
                {"unit": D, "args": ["--fam", "grid", "--n", "3,4,5", "--coords", "0,1,3,9"], "shards": 4, "cores": 1, "timeout": 2400},
                {"unit": D, "args": ["--fam", "grid", "--n", "6", "--coords", "0,1,3,9"] + G_ONLY, "shards": 6, "cores": 1, "timeout": 2400},
                {"unit": D, "args": ["--fam", "grid", "--n", "5", "--coords", "0,1,2,3"] + G_ONLY, "shards": 2, "cores": 1, "timeout": 1500},
                {"unit": D, "args": ["--fam", "grid", "--n", "5", "--coords", "0,1,4,12"] + G_ONLY, "shards": 2, "cores": 1, "timeout": 1500},
                {"unit": D, "args": ["--fam", "grid", "--n", "5", "--coords", "0,1,3,9", "--prime", "3"] + G_ONLY, "shards": 2, "cores": 1,
                 "timeout": 1500},
                {"unit": F, "args": ["--fam", "line", "--n", "2,3,4,5", "--N", "12"], "shards": 2, "cores": 1, "timeout": 1500},
                {"unit": F, "args": ["--fam", "grid", "--n", "3,4", "--coords", "0,1,3,9"], "shards": 2, "cores": 1, "timeout": 1500},
                {"unit": F, "args": ["--fam", "grid", "--n", "5", "--coords", "0,1,3,9"] + G_ONLY, "shards": 2, "cores": 1, "timeout": 1500},
            ],
        },
    }
