"""C13 registry entry: cubical complexes (Bitmap_cubical_complex over the plain and the periodic base class)."""


def register(CHECKS, H):
    CHECKS["C13"] = C13()


def C13():
    units = [
        {"name": "c13_base", "src": "checks/c13_cubical.cpp", "flags": ["-DC13_CLS=0"], "deps": ["checks/c13_ref_cubical.hpp"]},
        {"name": "c13_per", "src": "checks/c13_cubical.cpp", "flags": ["-DC13_CLS=1"], "deps": ["checks/c13_ref_cubical.hpp"]},
    ]
    return {
        "units": units,
        "level": "model_checking",
        "engine": "E2 bounded-exhaustive input enumeration",
        "technique": ("exhaustive enumeration of grid shapes x periodic masks x input conventions (every cell of every grid) and of "
                      "value assignments (all weak orders / all words over small alphabets incl. +inf) on the real "
                      "Bitmap_cubical_complex, compared with a reference cubical complex built from products of intervals and a "
                      "textbook Z_p column reduction"),
        "level_text": "filled below",
        "level_note": ("trusted: the 200-line RefCubical oracle (its faces / vertices / containing top cells are produced twice, by "
                       "endpoint substitution and by brute-force containment, and must agree), ref::persistence, the documented "
                       "numbering of cells (position = sum coordinate_i * prod_{j<i} P_j) and Fortran input order, g++/ASan/UBSan"),
        "rule": ("one case = (base class, input convention, dimensions, periodic mask, input values) built through the public "
                 "constructor; structure cases compare every cell's dimension / boundary / coboundary / incidence numbers and "
                 "d.d=0; every case compares every cell's value, the whole filtration order and (up to the size cap) the "
                 "persistence intervals over Z_2, Z_3 and the essential-class counts; distinct_nontrivial = cases whose complex "
                 "has >= 5 cells and that are a structure case or have >= 2 distinct input values"),
        "bounds": {
            "quick": ("structure: all shapes {1..7} (1-d), {1..4}^2, {1..4}^3, {1..3}^4, every periodic mask over sides >= 3, both "
                      "input conventions, 3 value patterns each (persistence when <= 260 cells); values: every weak order of <= 6 "
                      "inputs (d<=2), <= 5 (d=3), <= 4 (d=4) on every shape with that many inputs, {0,1,+inf} words, {0,1}^9 on "
                      "3x3 / 1x3x3 / 9, {0,1,2}^8 on 2x4 / 4x2 / 2x2x2, both conventions, both classes, every mask"),
            "thorough": ("structure: {1..9}, {1..5}^2, {1..5}^3, {1..4}^4, {1,2}^5 with 7 value patterns (persistence when <= 1300 "
                         "cells, Z_2 Z_3 Z_5); values: weak orders of <= 7 inputs (d<=2), <= 6 (d=3), <= 5 (d=4) on every shape "
                         "with that many inputs, {0,1,+inf} words up to 8 inputs (d<=3; 6 in 4-d), {0,1}^n on 3x4 4x3 2x6 2x2x3 "
                         "3x2x2 2x3x2 3x1x3 3x3x1 12 2x2x2x1 3x1x1x3 1x1x3x3 1x3x4, {0,1,2}^n on 3x3 2x4 4x2 2x5 5x2 9 2x2x2 "
                         "1x3x3 1x2x2x2 2x1x2x2; both conventions, both classes, every mask"),
        },
        "assumptions": [
            "documented preconditions only: as many values as the product of the dimensions; +inf is the only non-finite value "
            "(documented for missing cubes); no NaN; periodic sides have length >= 3 (quantifier of the property)",
            "small scope: side lengths <= 5 (<= 9 in 1-d), dimension <= 5, value assignments exhaustive only up to the stated "
            "number of inputs; filtration type double",
            "persistence is compared as the multiset of (dimension, birth value, death value); pairs with birth = death = +inf "
            "are excluded on both sides (their length is not a number)",
        ],
        "runs": {
            "quick": [
                {"unit": "c13_base", "args": ["--part", "S"], "shards": 2, "cores": 1},
                {"unit": "c13_per", "args": ["--part", "S"], "shards": 4, "cores": 1},
                {"unit": "c13_base", "args": ["--part", "V"], "shards": 2, "cores": 1},
                {"unit": "c13_per", "args": ["--part", "V"], "shards": 4, "cores": 1},
            ],
            "thorough": [
                {"unit": "c13_base", "args": ["--part", "S"], "shards": 2, "cores": 1, "timeout": 2400},
                {"unit": "c13_per", "args": ["--part", "S"], "shards": 4, "cores": 1, "timeout": 2400},
                {"unit": "c13_base", "args": ["--part", "V"], "shards": 4, "cores": 1, "timeout": 2400},
                {"unit": "c13_per", "args": ["--part", "V"], "shards": 8, "cores": 1, "timeout": 2400},
            ],
        },
    }
