"""C05 registry entry (+ the generator of checks/pm_configs.hpp: `python3 tools/reg/c05.py --gen`).

C05: every persistence-matrix flavour computes the same, correct barcode and keeps its defining identities.
"""
N_UNITS_C05 = 16
N_UNITS_C08 = 8
DEPS = ["checks/pm_common.hpp", "checks/pm_configs.hpp", "checks/pm_verify.hpp"]


def register(CHECKS, H):
    CHECKS["C05"] = C05()


def C05():
    units = [{"name": "c05_cfg%d" % k, "src": "checks/c05_matrix_barcode.cpp", "flags": ["-DVF_CFG=%d" % k], "deps": DEPS}
             for k in range(N_UNITS_C05)]
    quick = [{"unit": u["name"], "args": ["--plan", QUICK_PLAN, "--modes", "00,11,20,41"], "cores": 1,
              "timeout": 900} for u in units]
    thorough = [{"unit": u["name"], "args": ["--plan", THOROUGH_PLAN, "--modes", "00,11,20,31,41,21"],
                 "cores": 1, "shards": 1, "timeout": 2400} for u in units]
    return {
        "units": units,
        "level": "model_checking",
        "engine": "E1 history explorer",
        "technique": ("explicit enumeration of every history over {insert_boundary(cell), remove_last} on small cell universes, "
                      "executed on the real Matrix<Options> for 129 option sets (covering design over flavour x column type x "
                      "indexation x row access x containers x vine/rep/pairing), compared after the last operation with an "
                      "independent dense reduction over Z_p and with the R/U and chain-basis identities"),
        "level_text": ("every history with at most 7 (thorough: 8-9) insertions and 2 (thorough: up to 4) remove_last (small plan "
                       "items also call it on the empty matrix), over the 15 simplices of a tetrahedron, a square with one 4-gon, a 2x1 cubical strip, a "
                       "triangle and a CW complex with degree-2/-3/4 attaching maps, reduced to distinct API call sequences; fields "
                       "Z_2 (native) and Z_p operators with p = 2, 3, 5; default identifiers, explicit identifiers 2*position (reused), "
                       "3*count+2 (fresh), position (thorough) and a scheme in which a removed identifier comes back at another "
                       "position; two constructors; 129 option sets in which every pair "
                       "of option values occurs within each flavour and every option value occurs with every (flavour, column "
                       "type). A bounded-depth statement: longer histories and larger complexes are not covered"),
        "level_note": ("trusted: ref::persistence and ref::rank_mod_p (dense Z_p elimination), the 40-line reference model of a "
                       "history (ordered cell list + identifiers), the reading of columns through get_content, g++/ASan/UBSan. A "
                       "block of cases whose process dies 6 times is abandoned and the run is then reported as not exhaustive"),
        "rule": ("one case = (option set, universe, field, identifier scheme, constructor, history); the history is executed on a "
                 "fresh matrix and after the last operation: number of columns, maximal dimension, every column's dimension, "
                 "pivot, zero test and pivot->column map, the barcode as a multiset of (dim, birth, death) positions, rows "
                 "against columns; R-only: columns equal the boundaries before the barcode is asked, afterwards R is reduced "
                 "with the canonical lowest entries and column-equivalent to the boundary matrix, and remove_last is then "
                 "applied until the matrix is empty with the same comparisons after each; RU: R reduced, second factor "
                 "triangular with unit/non-zero diagonal and free of entries on removed rows, B = R*U (Z_2, stored transposed) "
                 "resp. B*V = R (Z_p); chain: one column per cell led by that cell, homogeneous dimension, pairing equal to the "
                 "oracle's, unpaired and birth columns are cycles, the boundary of a death column equals its partner; "
                 "distinct_nontrivial = cases with a remove_last or at least 3 insertions"),
        "bounds": {"quick": "plan " + QUICK_PLAN + " (universe:max insertions:max remove_last:primes[:e = remove_last also on the empty matrix]), identifier/constructor modes 00,11,20,41",
                   "thorough": "plan " + THOROUGH_PLAN + ", modes 00,11,20,31,41,21"},
        "assumptions": [
            "documented preconditions only: boundaries are inserted in filtration order with faces present, sorted by identifier, "
            "non-zero coefficients in 1..p-1; explicit identifiers strictly increase along the current filtration; the R-only "
            "boundary matrix is not modified by insertions after get_current_barcode (only remove_last, which its pairing "
            "code handles explicitly); remove_last is only called when the options provide it",
            "default identifiers after a removal are not generated: the documentation gives two readings (position vs. number "
            "of insertions so far) and the flavours implement different ones; interleavings are covered with explicit identifiers",
            "remove_last on an empty matrix is generated (four of the six matrix classes document it as a no-op); its "
            "mismatch classes carry the suffix :history_with_remove_last_on_empty_matrix",
            "small scope: at most 9 cells present, at most 13 operations",
        ],
        "runs": {"quick": quick, "thorough": thorough},
    }


QUICK_PLAN = "tet:7:2:2,tet:6:2:3,square:6:1:2+3,cw:6:1:2+3+5,tet:4:3:2+3:e"
THOROUGH_PLAN = "tet:8:1:2,tet:7:2:2+3+5,tri:7:4:2+3,square:9:1:2,square:8:1:3,strip:7:1:2+3,cw:7:2:2+3+5,tet:5:4:2+3:e,cw:5:3:3:e"

# ---------------------------------------------------------------------------------------------------------------------
# generator of checks/pm_configs.hpp (deterministic greedy covering design)
# ---------------------------------------------------------------------------------------------------------------------
import itertools, sys
CTS = ["INTRUSIVE_SET","INTRUSIVE_LIST","LIST","SET","HEAP","VECTOR","NAIVE_VECTOR","SMALL_VECTOR","UNORDERED_SET"]
IDX = ["CONTAINER","POSITION","IDENTIFIER"]
MODES = {0:[(0,0,1)], 1:[(1,0,0),(1,0,1),(0,1,0),(0,1,1),(1,1,0),(1,1,1)], 2:[(0,0,1),(0,1,0),(0,1,1),(1,0,1),(1,1,1)]}
def valid(c):
    if c["CT"]=="HEAP" and c["RA"]!=0: return False
    if c["RA"]==0 and c["RR"]: return False
    v,r,p = c["MODE"]
    if v and not c["Z2"]: return False
    if c["FL"]!=0 and c["S"]: return False
    return True
def candidates(flavours, need_rep=False):
    out=[]
    for fl in flavours:
        for ct in CTS:
            for z2 in (1,0):
                for idx in IDX:
                    for ra in (0,1,2):
                        for rr in (0,1):
                            for mp in (0,1):
                                for mode in MODES[fl]:
                                    if need_rep and not mode[1]: continue
                                    for d in (0,1):
                                        for rc in (1,0):
                                            for s in (0,1):
                                                c=dict(FL=fl,CT=ct,Z2=z2,IDX=idx,RA=ra,RR=rr,MAP=mp,MODE=mode,D=d,RC=rc,S=s)
                                                if valid(c): out.append(c)
    return out
PARAMS=["Z2","IDX","RA","RR","MAP","MODE","D","RC","S"]
def reqs(c, pairwise=True):
    r=set()
    for a in PARAMS:
        r.add(("fc",c["FL"],c["CT"],a,c[a]))
    if pairwise:
        for a,b in itertools.combinations(PARAMS,2):
            r.add(("pp",c["FL"],a,c[a],b,c[b]))
    return r
def greedy(cands, pairwise, limit):
    allreq=set()
    cr=[]
    for c in cands:
        q=reqs(c,pairwise); cr.append(q); allreq|=q
    chosen=[]; unc=set(allreq)
    # weight: prefer removable columns (more histories)
    while unc and len(chosen)<limit:
        best=-1;bi=-1
        for i,q in enumerate(cr):
            n=len(q&unc)
            if n>best: best=n;bi=i
        if best<=0: break
        chosen.append(cands[bi]); unc-=cr[bi]
    return chosen, len(unc), len(allreq)

def cpp(c):
    b=lambda x: "true" if x else "false"
    v,r,p=c["MODE"]
    return "PMO(%s, %s, %d, %s, %d, %s, %s, %s, %s, %s, %s, %s, %s)" % (b(c["Z2"]), c["CT"], c["FL"], c["IDX"], c["RA"], b(c["RR"]), b(c["MAP"]), b(v), b(r), b(c["D"]), b(p), b(c["RC"]), b(c["S"]))

def emit(path, n5=16, n8=8):
    c5,u5,_=greedy(candidates([0,1,2]),True,1000)
    c8,u8,_=greedy(candidates([1,2],True),True,1000)
    assert u5==0 and u8==0
    def groups(cs,n):
        # round-robin so that every unit mixes flavours (balanced compile time)
        g=[[] for _ in range(n)]
        cs=sorted(cs,key=lambda c:(c["FL"],c["Z2"]))
        for i,c in enumerate(cs): g[i%n].append(c)
        return g
    o=[]
    o.append("// GENERATED by `python3 tools/reg/c05.py --gen` (deterministic greedy covering design) - do not edit by hand.")
    o.append("// C05: %d option sets in %d units; C08 (-DVF_C08): %d option sets with representative cycles in %d units." % (len(c5),n5,len(c8),n8))
    o.append("// Cover: within each flavour every pair of option values occurs together; every option value occurs with every")
    o.append("// (flavour, column type).  Arguments of PMO: is_z2, column type, flavour (0 R-only boundary, 1 RU, 2 chain), indexation,")
    o.append("// row access (0 none, 1 intrusive, 2 set), removable rows, map column container, vine, rep cycles, max-dim access,")
    o.append("// column pairings, removable columns, column-and-row swaps.")
    o.append("#ifndef VF_PM_CONFIGS_HPP\n#define VF_PM_CONFIGS_HPP\n#include \"pm_common.hpp\"")
    o.append("#define PMO(Z2, CT, FL, IDX, RA, RR, MAP, V, R, D, P, RC, S) \\\n  pmc::Opt<Z2, pmc::Column_types::CT, FL, pmc::CI::IDX, RA, RR, MAP, V, R, D, P, RC, S>")
    o.append("#ifndef VF_CFG\n#define VF_CFG 0\n#endif")
    for macro,cs,n in (("#ifndef VF_C08",c5,n5),("#else",c8,n8)):
        o.append(macro)
        for k,g in enumerate(groups(cs,n)):
            o.append("#if VF_CFG == %d" % k)
            o.append("using Group = pmc::List<\n    " + ",\n    ".join(cpp(c) for c in g) + ">;")
            o.append("#endif")
    o.append("#endif")
    o.append("#endif")
    open(path,"w").write("\n".join(o)+"\n")
    return len(c5),len(c8)


if __name__ == "__main__":
    import os
    if "--gen" in sys.argv:
        here = os.path.dirname(os.path.dirname(os.path.dirname(os.path.abspath(__file__))))
        print(emit(os.path.join(here, "checks", "pm_configs.hpp"), N_UNITS_C05, N_UNITS_C08))
