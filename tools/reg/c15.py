"""C15 registry entry (Simplex_tree part; matrices are added by c15 matrix units when built)."""


def register(CHECKS, H):
    src = "checks/c15_simplex_tree.cpp"
    opts = (0, 1, 2, 3, 4, 5, 6, 7)
    units = [{"name": "c15_opt%d" % i, "src": src, "flags": ["-DVF_OPT=%d" % i], "deps": ["checks/st_common.hpp"]} for i in opts]
    q, t = [], []
    for i in opts:
        q.append({"unit": "c15_opt%d" % i, "args": ["--part", "copy", "--labels", "0,1,2", "--F", "0,1", "--targets", "small"], "shards": 2})
        q.append({"unit": "c15_opt%d" % i, "args": ["--part", "serial", "--labels", "0,1,2", "--F", "0,1"]})
        t.append({"unit": "c15_opt%d" % i, "args": ["--part", "copy", "--labels", "0,1,2", "--F", "0,1,2"], "shards": 4, "timeout": 3000})
        t.append({"unit": "c15_opt%d" % i, "args": ["--part", "serial", "--labels", "0,1,2,3", "--F", "0,1"], "shards": 2, "timeout": 3000})
    # E3: preemption-bounded scheduler over allocation points (own TU, replaces operator new/delete)
    units.append({"name": "c15_threads", "src": "checks/c15_threads.cpp", "libs": ["-lpthread"], "deps": ["engine/sched.hpp"]})
    units.append({"name": "c15_tsan", "src": "checks/c15_threads.cpp", "libs": ["-lpthread"],
                  "base_flags": ["-std=c++17", "-O1", "-g1", "-fno-access-control", "-fsanitize=thread", "-DNDEBUG", "-DVF_FREE_RUN",
                                 "-Wno-deprecated-declarations"]})
    for sc in ("tree", "tree_link", "expansion", "matrix", "chain", "boundary", "zigzag", "mixed"):
        q.append({"unit": "c15_threads", "args": ["--scenario", sc, "--threads", "2", "--bound", "1", "--budget", "120"]})
        # 2 preemptions everywhere except the chain scenario (660 scheduling points: ~200k schedules), kept at 1
        t.append({"unit": "c15_threads", "args": ["--scenario", sc, "--threads", "2", "--bound", "1" if sc == "chain" else "2", "--budget", "1500"], "timeout": 2400})
        q.append({"unit": "c15_tsan", "args": ["--scenario", sc, "--threads", "3", "--reps", "20"], "cores": 3})
        t.append({"unit": "c15_tsan", "args": ["--scenario", sc, "--threads", "3", "--reps", "300"], "cores": 3})
    t.append({"unit": "c15_threads", "args": ["--scenario", "mixed", "--threads", "3", "--bound", "1", "--budget", "1500"], "timeout": 2400})
    # matrix part (checks/c15_matrix.cpp, written with the C05 verifier): run lists live in c15m.py
    import importlib.util as _ilu, os as _os
    _spec = _ilu.spec_from_file_location("c15m", _os.path.join(_os.path.dirname(_os.path.abspath(__file__)), "c15m.py"))
    _m = _ilu.module_from_spec(_spec)
    _spec.loader.exec_module(_m)
    _mu, _mq, _mt = _m.runs()
    units += _mu
    q += _mq
    t += _mt
    CHECKS["C15"] = {
        "units": units,
        "level": "model_checking",
        "engine": "E1 history explorer",
        "technique": "exhaustive enumeration of (source state x target state x copy/move/swap kind x one-step continuation x destruction order) on real Simplex_trees and Matrix objects under ASan/UBSan; every byte-length perturbation of every serialised buffer (forked probes); preemption-bounded systematic scheduling of threads owning independent objects (scheduling points = operator new/delete)",
        "level_text": ("for every filtered complex on 3 vertices (values {0,1}; thorough {0,1,2}) in three internal variants (canonical, pending "
                       "dimension recomputation, filtration cache present), for 8 option sets: copy-construct, copy-assign, move-construct, "
                       "move-assign, swap and self-assignments against 12 target states (quick: 4); source and target are fully compared with their "
                       "models, then each is driven through every one-step continuation while the other must stay equal to its model, and "
                       "each is destroyed first in turn. Serialisation: announced size, round trip (binary and text), and deserialize on a "
                       "tight heap buffer of every length 0..size+16 must throw without touching memory outside the buffer (ASan). Matrix part: the same kinds on all 129 C05 option sets (every flavour x indexation x column type x row access) for every source history on the triangle universe (<= 4 insertions, <= 1 remove_last; thorough 5/2 and the tetrahedron) against a family of targets, with the full C05 verification of both objects, one-step continuations and both destruction orders. Thread part: see level_note"),
        "level_note": "memory safety is decided by ASan/UBSan on the executed paths only; thread part: every interleaving of 2 threads (each owning a Simplex_tree / Persistent_cohomology / Matrix) at allocation and deallocation points with <= 1 preemption (thorough: <= 2; 3 threads <= 1), each schedule in a forked child under a watchdog and compared with the sequential result; races at non-allocating instructions are below that granularity and are only sampled by a free-running ThreadSanitizer build of the same bodies; trusted: reference complex",
        "rule": "Simplex_tree part: case = one source state (model x variant); matrix part: case = (option set, kind, source history A, target history B); ev.transitions = full observations and length probes executed; non-trivial = model with an edge",
        "bounds": {"quick": "3 vertices x values {0,1}: 148 models x 3 variants, 8 option sets, every length 0..size+16",
                   "thorough": "3 vertices x values {0,1,2} for copies; 4 vertices x values {0,1} for serialisation"},
        "assumptions": ["deserialize is called on an empty tree (documented)"],
        "runs": {"quick": q, "thorough": t},
    }
