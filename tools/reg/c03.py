"""C03 registry entry."""


def register(CHECKS, H):
    src = "checks/c03_filtration.cpp"
    units = [{"name": "c03_opt%d" % i, "src": src, "flags": ["-DVF_OPT=%d" % i], "deps": ["checks/st_common.hpp"]}
             for i in (0, 1, 3, 5)]
    units.append({"name": "c03_tbb", "src": src, "flags": ["-DVF_OPT=0", "-DGUDHI_USE_TBB"], "libs": ["-ltbb"],
                  "deps": ["checks/st_common.hpp"]})
    names = [u["name"] for u in units]
    quick, thorough = [], []
    for u in names:
        quick.append({"unit": u, "args": ["--part", "order", "--nverts", "3", "--F", "0,1,2,inf"]})
        quick.append({"unit": u, "args": ["--part", "mfnd", "--nverts", "3", "--F", "0,1,2"]})
        quick.append({"unit": u, "args": ["--part", "extend", "--nverts", "4", "--F", "0,1,2,4"]})
        thorough.append({"unit": u, "args": ["--part", "order", "--nverts", "4", "--F", "0,1,2"], "shards": 3})
        thorough.append({"unit": u, "args": ["--part", "order", "--nverts", "4", "--F", "0,inf"]})
        thorough.append({"unit": u, "args": ["--part", "extend", "--nverts", "4", "--F", "0,1,2,4"]})
    for u in ("c03_opt0", "c03_tbb"):
        quick.append({"unit": u, "args": ["--part", "order", "--nverts", "4", "--F", "0,1"]})
    quick.append({"unit": "c03_opt0", "args": ["--part", "mfnd", "--nverts", "4", "--F", "0,1"], "shards": 4})
    quick.append({"unit": "c03_tbb", "args": ["--part", "tbb", "--npts", "12", "--reps", "4"], "cores": 8})
    # every assignment in {0,1,2}^simplices on every complex on 4 vertices with <= 12 simplices (3^15 for the full
    # tetrahedron did not fit the thorough budget; the tetrahedron is covered with {0,1}^15 in the quick tier)
    thorough.append({"unit": "c03_opt0", "args": ["--part", "mfnd", "--nverts", "4", "--F", "0,1,2", "--maxsimp", "12"], "shards": 16, "timeout": 3000})
    thorough.append({"unit": "c03_opt5", "args": ["--part", "mfnd", "--nverts", "4", "--F", "0,1"], "shards": 4})
    thorough.append({"unit": "c03_tbb", "args": ["--part", "tbb", "--npts", "14", "--reps", "20"], "cores": 16})
    CHECKS["C03"] = {
        "units": units,
        "level": "model_checking",
        "engine": "E2 bounded-exhaustive input enumeration",
        "technique": "exhaustive enumeration of small filtered complexes / value assignments on the real Simplex_tree; the schedule quantifier is reduced to a strict-total-order check of the comparator plus a per-run postcondition (TBB schedules themselves are only sampled)",
        "level_text": ("for every monotone filtered complex on <= 4 vertices the exposed filtration order is checked to be a permutation, "
                       "non-decreasing, faces-first, identical for two construction histories and equal to one fixed function of the "
                       "model (so identical across option sets and across the TBB / non-TBB builds, which are separate binaries); the "
                       "comparator is checked to be a strict total order on every pair and triple, which makes the sorted sequence "
                       "unique whatever algorithm, thread count or schedule; make_filtration_non_decreasing, prune_above_filtration, "
                       "extend_filtration and decode_extended_filtration are compared with their definitions on every (non-monotone) "
                       "assignment of a small scope"),
        "level_note": ("TBB's internal schedules cannot be enumerated with the tools in this image: the parallel-sort runs on a large "
                       "complex with 1..16 threads are a sampled supplement; trusted: reference complex, g++/ASan/UBSan"),
        "rule": ("case = one filtered complex (order / extend parts) or one arbitrary value assignment on a complex (mfnd part); "
                 "non-trivial = complex with at least one edge; ev.transitions counts comparator evaluations and API calls checked"),
        "bounds": {"quick": "3 vertices x {0,1,2,inf}; 4 vertices x {0,1} (order, mfnd); vertex functions {0,1,2,4}^V on every complex with <= 4 vertices (extend); 5 binaries incl. a GUDHI_USE_TBB build",
                   "thorough": "4 vertices x {0,1,2} monotone (153 367) for 5 binaries; every assignment in {0,1,2}^simplices on every complex with <= 4 vertices and <= 12 simplices (mfnd); parallel sort 100 runs on a 14-point complex"},
        "assumptions": ["no NaN", "filtration cache is cleared/initialised by the caller after modifications, as documented"],
        "runs": {"quick": quick, "thorough": thorough},
    }
