"""C06 registry entry: vineyard swaps and cell removals leave the matrix as if rebuilt from scratch."""

SRC = "checks/c06_vineyard.cpp"

# configuration groups of checks/c06_vineyard.cpp (-DVF_CFG=k); names as printed by `<binary> --list 1`
CT_OTHER_1 = ["list", "set", "heap", "vector"]
CT_OTHER_2 = ["nvector", "svector", "uset", "ilist"]


def _four(prefix):
    return [prefix + ".bar.map.iset", prefix + ".bar.vec.iset", prefix + ".nobar.map.iset", prefix + ".nobar.vec.iset"]


GROUPS = {
    0: _four("ru.cont"),
    1: _four("ru.id"),
    2: _four("chain.cont"),
    3: _four("chain.pos"),
    4: _four("chain.id"),
    5: ["ru.cont.bar.map." + c for c in CT_OTHER_1],
    6: ["ru.cont.bar.map." + c for c in CT_OTHER_2],
    7: ["chain.cont.bar.map." + c for c in CT_OTHER_1],
    8: ["chain.cont.bar.map." + c for c in CT_OTHER_2],
    9: ["ru.cont.bar.map.iset.ra1", "ru.cont.bar.vec.iset.ra2", "chain.cont.bar.map.iset.ra2",
        "chain.pos.nobar.map.ilist.ra2"],
}
STRUCT = [0, 1, 2, 3, 4]          # matrix type x indexing x barcode x container, default column type
RU_STRUCT = [0, 1]
CHAIN_STRUCT = [2, 3, 4]
ALL = sorted(GROUPS)


def register(CHECKS, H):
    CHECKS["C06"] = C06()


def runs(groups, args, cores=1, timeout=None):
    out = []
    for g in groups:
        for name in GROUPS[g]:
            r = {"unit": "c06_g%d" % g, "args": ["--cfg", name] + list(args), "cores": cores}
            if timeout:
                r["timeout"] = timeout
            out.append(r)
    return out


def C06():
  units = [{"name": "c06_g%d" % g, "src": SRC, "flags": ["-DVF_CFG=%d" % g]} for g in ALL]
  return {
    "units": units,
    "level": "model_checking",
    "engine": "E1 history explorer",
    "technique": ("explicit-state BFS of operation histories (insert_boundary, vine_swap, vine_swap_with_z_eq_1_case, "
                  "remove_last, remove_maximal_cell in both forms, interleaved column reads) on the real "
                  "Gudhi::persistence_matrix::Matrix, one fresh object per history; after every history the stored barcode, the "
                  "pairing encoded by the columns, the defining identities (RU: D = R*U, U unit upper triangular, R reduced, "
                  "pivot maps; chain: one chain per cell supported on earlier cells, unpaired chains are cycles, boundary(h) = g "
                  "for every pair) and the value returned by the transposition are compared with an oracle that depends on the "
                  "current filtration order only (textbook column reduction over Z_2 + explicit boundary algebra)"),
    "level_text": ("every finite history over the 7 cells of a triangle is covered by a fixpoint of the reachable canonical-state "
                   "set, for 40 option sets (RU and chain matrices; container, position and identifier indexing; with and without "
                   "stored barcode; vector and map column containers; all 9 column types; row access variants) and for both ways of "
                   "naming cells (default IDs, caller-chosen IDs); the thorough tier repeats this with a finer canonical key, on an "
                   "8-cell and a 9-cell universe, and with depth bounds on 11- and 14-cell universes starting from the complete "
                   "complex. Because the oracle only depends on the current order, 'behaves as a freshly built matrix' is checked at "
                   "every transition out of every reachable state. Larger complexes, other coefficient fields (vine updates exist "
                   "for Z_2 only) and non-simplicial cell complexes are not covered"),
    "level_note": ("trusted: ref::persistence (60 lines), the boundary algebra of the harness, g++/ASan/UBSan. The canonical key "
                   "decides which histories are executed, not what is reported: 'semantic' = order, ID pattern bit, public matrix "
                   "content, pivot maps, barcode; 'summary' adds the exact ID pattern, pending-lazy-row-swap flags of R and U, "
                   "barcode container order bit, column-slot inversion bit; 'full' dumps every container verbatim (IDs and container "
                   "indices rank-normalised) and is run depth-bounded with merge validation"),
    "rule": ("explicit-state BFS over operation histories of the real Matrix (one fresh object per history), deduplicated on a "
             "canonical key made of the model state and implementation-internal state; one evaluation = one history executed and "
             "completely observed; distinct_nontrivial = distinct canonical states reached; non-vacuity counters swapcase.<role "
             "of cell i><role of cell i+1>.<same/different dimension>.<kept/exchanged/either> count the transitions of every "
             "case of the vineyard case analysis (E essential, P positive paired, N negative)"),
    "bounds": {
        "quick": ("triangle universe (7 cells): closure (all finite histories) for 40 option sets with default IDs at the semantic "
                  "key level, for the 4 RU option sets with container indexing and the 2 chain option sets without stored barcode (container indexing) also at the summary level, and for the 12 chain structure option "
                  "sets with caller-chosen IDs"),
        "thorough": ("triangle: closure at the summary key level for 40 option sets (default IDs, merge validation) and for the 20 "
                     "structure option sets with caller-chosen IDs; full key to depth 9 with merge validation (8 option sets); "
                     "4-cycle (8 cells) and triangle+edge (9 cells): closure at the semantic level for the 20 structure option "
                     "sets; two triangles sharing an edge (11 cells) and tetrahedron boundary (14 cells): all histories of length "
                     "<= 6 resp. 5 from the complete complex (4 option sets)"),
    },
    "assumptions": [
        "documented preconditions only: faces inserted before cofaces; boundaries given with the row indices the documentation "
        "prescribes (chain: IDs of the faces; RU: the ID attached to the position of the face); the ID-less insert_boundary only "
        "while IDs equal positions (chain) / before any removal (RU with identifier indexing); caller-chosen IDs strictly larger "
        "than every ID used before",
        "vine_swap only on consecutive cells that are not face/coface, first argument = the earlier cell; "
        "vine_swap_with_z_eq_1_case only when the entry tested by vine_swap is non-zero (read through is_zero_entry); "
        "remove_maximal_cell only on maximal cells, remove_last only on a non-empty matrix",
        "chain matrices without stored barcode receive birth/death comparators that answer from the reference barcode of the "
        "order before the swap; their arguments are read as column (MatIdx) indices, as Zigzag_persistence does (the "
        "documentation says PosIdx)",
        "small scope: simplicial complexes with at most 14 cells, Z_2 coefficients",
    ],
    "runs": {
        "quick": (
            runs(ALL, ["--uni", "tri", "--ids", "default", "--key", "semantic", "--budget", "250"], timeout=400) +
            runs([0], ["--uni", "tri", "--ids", "default", "--key", "summary", "--budget", "250"], timeout=400) +
            # the exact ID pattern matters where the matrix has nothing but IDs to order cells (no stored barcode)
            [{"unit": "c06_g2", "args": ["--cfg", n, "--uni", "tri", "--ids", "default", "--key", "summary", "--budget", "250"],
              "cores": 1, "timeout": 400} for n in ("chain.cont.nobar.map.iset", "chain.cont.nobar.vec.iset")] +
            runs(CHAIN_STRUCT, ["--uni", "tri", "--ids", "explicit", "--key", "semantic", "--budget", "250"], timeout=400) +
            # triangle + edge (9 cells) to closure for one RU option set per indexing scheme: the positive-then-negative
            # branch with a non-zero U entry needs a 4th edge (a seeded change in its return value was only seen here)
            [{"unit": "c06_g%d" % g, "args": ["--cfg", n, "--uni", "tri1", "--ids", "default", "--key", "semantic", "--budget", "400"],
              "cores": 4, "timeout": 600} for g, n in ((0, "ru.cont.bar.map.iset"), (1, "ru.id.nobar.map.iset"))]
        ),
        "thorough": (
            runs(ALL, ["--uni", "tri", "--ids", "default", "--key", "summary", "--validate", "300", "--budget", "1500"],
                 timeout=2400) +
            runs(STRUCT, ["--uni", "tri", "--ids", "explicit", "--key", "summary", "--validate", "100", "--budget", "1500"],
                 timeout=2400) +
            runs([0, 2], ["--uni", "tri", "--ids", "default", "--key", "full", "--depth", "9", "--validate", "300",
                          "--budget", "1500", "--workers", "2"], cores=2, timeout=2400) +
            runs(STRUCT, ["--uni", "cyc4", "--ids", "default", "--key", "semantic", "--budget", "1500"], timeout=2400) +
            runs(STRUCT, ["--uni", "tri1", "--ids", "default", "--key", "semantic", "--budget", "1500"], timeout=2400) +
            [{"unit": "c06_g%d" % g, "args": ["--cfg", GROUPS[g][0], "--uni", u, "--pre", "full", "--ids", "default", "--key",
                                              "semantic", "--depth", str(d), "--budget", "1500"], "cores": 1, "timeout": 2400}
             for g in (0, 1, 2, 3) for (u, d) in (("bow", 6), ("tet", 5))]
        ),
    },
  }
