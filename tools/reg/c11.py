"""C11 registry entry: Ripser == persistence of the Rips flag filtration, for every input form / encoding."""


def register(CHECKS, H):
    src = "checks/c11_ripser.cpp"
    units = []
    for t, tn in (("f", "float"), ("d", "double")):
        for form in (1, 2, 3):
            units.append({"name": "c11_%s%d" % (t, form), "src": src, "flags": ["-DVF_T=%s" % tn, "-DVF_FORM=%d" % form],
                          "deps": ["checks/c11_common.hpp"]})
    F = ["c11_f1", "c11_f2", "c11_f3"]   # float: Full | lower (+Euclidean, help2 dense) | upper + sparse (+edge lists)
    D = ["c11_d1", "c11_d2", "c11_d3"]   # double
    FULLTHR = "0.5,1,2,3,inf,tmax"

    def run(unit, part, shards=1, timeout=None, **kw):
        args = ["--part", part]
        for k, v in kw.items():
            args += ["--" + k, str(v)]
        r = {"unit": unit, "args": args, "shards": shards}
        if timeout:
            r["timeout"] = timeout
        return r

    q, t = [], []
    # ------------------------------------------------------------------ quick
    for u in F + D:
        dbl = u in D
        q.append(run(u, "matrix", n="1,2,3", vals="1,2,3", thr=FULLTHR, dims="auto", mods="2,3,5,7"))
        q.append(run(u, "matrix", n="4", vals="1,2,3", thr=FULLTHR, dims="auto", mods="3" if dbl else "2,3,5,7",
                     shards=1 if dbl else 2))
        q.append(run(u, "matrix", n="2,3,4", vals="0,1,2", thr="0,1,2,inf", dims="auto", mods="2,3"))
        q.append(run(u, "matrix", n="5", vals="1,2", thr="1,2,inf", dims="auto", mods="2" if dbl else "2,3",
                     shards=1 if dbl else 2))
        # upper + sparse unit: each upper-from-matrix conversion is probed in a forked child (slow while it still crashes)
        q.append(run(u, "convert", n="2,3" if (dbl or u.endswith("3")) else "2,3,4", vals="1,2,3", thr="2,inf", dims="auto", mods="2,3"))
    for u in F:
        q.append(run(u, "matrix", n="5", vals="1,2,3", thr="2,inf", dims="3", mods="3", shards=4))
    for u in ("c11_f2", "c11_f3"):
        q.append(run(u, "matrix", n="6", vals="1,2", thr="1", dims="2", mods="2", shards=3))
    for u in ("c11_f2", "c11_d2"):
        q.append(run(u, "euclid", n="1,2,3", ordered=1, thr="0.5,1,2,3,max,inf", dims="auto", mods="2,3", shards=2))
        q.append(run(u, "euclid", n="4", ordered=0, thr="1,2,max,inf", dims="auto", mods="2,3", shards=2))
    for u in ("c11_f1", "c11_f3"):
        q.append(run(u, "euclid", n="3", ordered=1, thr="1,max,inf", dims="auto", mods="2,3"))
    for u in ("c11_f3", "c11_d3"):
        q.append(run(u, "graph", n="2,3,4", vals="1,2", thr="max,inf", dims="auto", mods="2,3"))
        q.append(run(u, "graph", n="5", vals="1", thr="max", dims="auto", mods="2,3"))
    # 8-point cross-polytope boundaries (the smallest inputs with a class in dimension 3): dim_max 3 really reaches
    # the tetrahedra list built from the triangles
    q.append(run("c11_f2", "xpoly", free=14, vals="1,2", thr="inf", dims="3", mods="2,3", shards=4))
    q.append(run("c11_f3", "rp2", permstep=30, dims="1,2", mods="2,3", shards=2))
    q.append(run("c11_d3", "rp2", permstep=240, dims="2", mods="2,3"))
    q.append(run("c11_f3", "big", big="5000:3,65536:2,70000:2,140000:6", k=3, vals="1,2", mods="2,3", shards=3))
    q.append(run("c11_d3", "big", big="140000:6", k=3, vals="1", mods="2,3"))

    # ------------------------------------------------------------------ thorough
    TO = 3000
    for u in F + D:
        dbl = u in D
        t.append(run(u, "matrix", n="1,2,3,4", vals="1,2,3", thr=FULLTHR, dims="auto",
                     mods="2,3,65521" if dbl else "2,3,5,7,11,65521", shards=2, timeout=TO))
        t.append(run(u, "matrix", n="2,3,4", vals="0,1,2", thr="0,1,2,inf", dims="auto", mods="2,3,5", timeout=TO))
        t.append(run(u, "convert", n="2,3,4", vals="1,2,3", thr="1,2,inf", dims="auto", mods="2,3", shards=4 if u.endswith("3") else 1, timeout=TO))
    for u in F:
        t.append(run(u, "matrix", n="5", vals="1,2,3", thr="2,3,inf", dims="1,3", mods="2,3", shards=6, timeout=TO))
        t.append(run(u, "matrix", n="6", vals="1,2", thr="1,2,inf", dims="2", mods="2,3", shards=4, timeout=TO))
        t.append(run(u, "matrix", n="5", vals="0,1,2", thr="0,1,inf", dims="3", mods="2", shards=2, timeout=TO))
        t.append(run(u, "matrix", n="5", vals="1,2", thr=FULLTHR, dims="auto", mods="2,3,5,7", shards=2, timeout=TO))
        t.append(run(u, "euclid", n="4", ordered=0, thr="0.5,1,2,3,max,inf", dims="auto", mods="2,3", timeout=TO))
        if not u.endswith("3"):
            t.append(run(u, "convert", n="5", vals="1,2", thr="1,inf", dims="3", mods="2,3", timeout=TO))
    t.append(run("c11_f2", "euclid", n="1,2,3", ordered=1, thr="0.5,1,2,3,max,inf", dims="auto", mods="2,3,5,7", shards=2, timeout=TO))
    t.append(run("c11_f2", "euclid", n="5", ordered=0, thr="1,2,max,inf", dims="auto", mods="2,3", shards=3, timeout=TO))
    for u in ("c11_f1", "c11_f3"):
        t.append(run(u, "euclid", n="1,2,3", ordered=1, thr="0.5,1,2,3,max,inf", dims="auto", mods="2,3", timeout=TO))
        t.append(run(u, "euclid", n="5", ordered=0, thr="max,inf", dims="3", mods="2,3", timeout=TO))
    for u in D:
        t.append(run(u, "matrix", n="5", vals="1,2,3", thr="2,inf", dims="3", mods="3", shards=2, timeout=TO))
    for u in ("c11_d2", "c11_d3"):
        t.append(run(u, "matrix", n="6", vals="1,2", thr="1", dims="2", mods="2", shards=2, timeout=TO))
    t.append(run("c11_d2", "euclid", n="1,2,3", ordered=1, thr="0.5,1,2,3,max,inf", dims="auto", mods="2,3", shards=2, timeout=TO))
    t.append(run("c11_d2", "euclid", n="4", ordered=0, thr="1,2,max,inf", dims="auto", mods="2,3", shards=2, timeout=TO))
    t.append(run("c11_d2", "euclid", n="5", ordered=0, thr="max,inf", dims="3", mods="2,3", timeout=TO))
    t.append(run("c11_f3", "graph", n="2,3,4", vals="1,2,3", thr="max,inf", dims="auto", mods="2,3,5,7", shards=2, timeout=TO))
    t.append(run("c11_f3", "graph", n="5", vals="1,2", thr="max", dims="auto", mods="2,3", shards=4, timeout=TO))
    t.append(run("c11_d3", "graph", n="2,3,4", vals="1,2", thr="max,inf", dims="auto", mods="2,3", timeout=TO))
    t.append(run("c11_d3", "graph", n="5", vals="1", thr="max", dims="auto", mods="2,3", timeout=TO))
    t.append(run("c11_f2", "xpoly", free=17, vals="1,2", thr="2,inf", dims="3", mods="2,3", shards=8, timeout=TO))
    t.append(run("c11_d3", "xpoly", free=12, vals="1,2", thr="inf", dims="3", mods="2,3", shards=2, timeout=TO))
    t.append(run("c11_f3", "rp2", permstep=1, dims="2", mods="2,3", shards=4, timeout=TO))
    t.append(run("c11_d3", "rp2", permstep=30, dims="1,2", mods="2,3,5", shards=2, timeout=TO))
    t.append(run("c11_f3", "big", big="5000:3,140000:6", k=4, vals="1,2", mods="2,3", shards=6, timeout=TO))
    t.append(run("c11_f3", "big", big="65536:2,70000:2", k=3, vals="1,2", mods="2,3,5", shards=2, timeout=TO))
    t.append(run("c11_d3", "big", big="5000:3,65536:2,70000:2,140000:6", k=3, vals="1,2", mods="2,3", shards=2, timeout=TO))

    CHECKS["C11"] = {
        "units": units,
        "level": "model_checking",
        "engine": "E2 bounded-exhaustive input enumeration",
        "technique": ("exhaustive enumeration of every small symmetric dissimilarity x threshold x dim_max x modulus on the real "
                      "Gudhi::ripser engine through every input form, ripser_auto / ripser and help2 with each simplex encoding, "
                      "compared as interval multisets with an independent column reduction over Z_p on brute-force cliques and "
                      "with Rips_complex -> Simplex_tree -> Persistent_cohomology"),
        "level_text": ("every symmetric matrix on <= 5 points with entries in {1,2,3} (and {0,1,2} up to 4 points quick / 5 thorough), on 6 "
                       "points with entries in {1,2}, every ordered tuple of <= 3 and subset of 4 (thorough: 5) points of the 4x4 grid, "
                       "every weighted graph on <= 4 (thorough: 5) vertices given as an explicit edge list with absent edges; thresholds "
                       "below the smallest distance, at every distance, +inf and FLT_MAX/DBL_MAX (enclosing-radius path); dim_max 0..n-2 "
                       "and n; modulus 2,3,5,7 (thorough: also 11 and 65521); forms Full, Compressed lower, Compressed upper, Sparse from "
                       "threshold, explicit edge list, Euclidean and the converting constructors between them; through ripser_auto, "
                       "ripser and help2 with Bitfield-64, Bitfield-128 and CNS-128 on dense and sparse matrices; float and double; "
                       "plus the barycentric subdivision of the 6-vertex RP^2 (31 points, Z/2 torsion) under relabelings and "
                       "sparse inputs with 5 000 .. 140 000 vertices on which the dispatcher itself picks each encoding. "
                       "Small scope is a bound, not a proof: larger point sets, other value patterns, non-integer generic "
                       "distances and moduli above 65521 are not covered"),
        "level_note": ("trusted: ref::persistence (dense column reduction over Z_p), two brute-force clique enumerations, IEEE sqrt, "
                       "g++/ASan/UBSan. The Simplex_tree route the property names is run for every case and compared with the "
                       "independent oracle in its own mismatch class"),
        "rule": ("case = one (value type, form group, dissimilarity, threshold, dim_max, modulus); ev.states counts cases, ev.traces "
                 "the runs of the real engine (one per route and case), ev.transitions the compared outputs (engine runs + "
                 "Simplex_tree-route runs + conversions); intervals are compared as sorted multisets of (dimension, birth, death) "
                 "after dropping zero-length intervals, together with the sequence of announced dimensions; non-trivial = the "
                 "expected barcode has a finite interval or an interval of dimension >= 1"),
        "bounds": {
            "quick": ("n<=4 x {1,2,3} and {0,1,2} full grid; n=5 x {1,2} full grid; n=5 x {1,2,3} at thresholds {2,inf}, dim_max 3, "
                      "mod 3 (float); n=6 x {1,2} at threshold 1, dim_max 2, mod 2 (float; lower, upper, sparse); grid clouds: ordered n<=3, subsets n=4; "
                      "edge lists n<=4 x {absent,1,2}, n=5 x {absent,1}; RP^2 24 relabelings x 8 weightings; large inputs with 3 "
                      "embedded vertices; conversions n<=4; 8-point cross-polytope boundaries (antipodal pairs at 3, {1,2} on 14 of the "
                      "24 other pairs, 2 placements, dim_max 3, mod 2,3)"),
            "thorough": ("n=5 x {1,2,3} at thresholds {2,3,inf}, dim_max {1,3}, mod {2,3}; n=6 x {1,2} at {1,2,inf}, dim_max 2, mod {2,3}; "
                         "n=5 x {0,1,2} at {0,1,inf}; n=5 x {1,2} full grid with moduli 2,3,5,7; n<=4 full grid with moduli up to 65521; "
                         "grid clouds up to 5 points; edge lists n=5 x {absent,1,2}; RP^2 all 720 relabelings x 8 weightings; large "
                         "inputs with every weighted graph on 4 embedded vertices; cross-polytope boundaries with 17 free pairs at thresholds "
                         "{2,inf} (float) and 12 free pairs (double)"),
        },
        "assumptions": [
            "dissimilarity: symmetric, zero diagonal, non-negative small integers (or sqrt of small integers for point clouds)",
            "sparse input: neighbour lists sorted by vertex, each edge in both lists, no self loop, no duplicate; the threshold "
            "argument is ignored for sparse input (documented in the python layer) and is kept >= every listed edge",
            "no threshold = +infinity or the largest finite value of the type; expected = barcode of the untruncated filtration "
            "(equal to the truncation at the enclosing radius, beyond which the complex is a cone)",
            "modulus prime and <= 65521 (coefficient storage is 16 bits; larger moduli are rejected by the library)",
            "dim_max >= 0",
        ],
        "runs": {"quick": q, "thorough": t},
    }
