"""C12 registry entry: edge collapse preserves the persistence of the flag filtration."""


def register(CHECKS, H):
    src = "checks/c12_edge_collapse.cpp"
    units = [
        {"name": "c12_sparse", "src": src, "flags": []},
        {"name": "c12_dense", "src": src, "flags": ["-DGUDHI_COLLAPSE_USE_DENSE_ARRAY"]},
        {"name": "c12_sparse_tbb", "src": src, "flags": ["-DGUDHI_USE_TBB"], "libs": ["-ltbb"]},
        {"name": "c12_dense_tbb", "src": src, "flags": ["-DGUDHI_COLLAPSE_USE_DENSE_ARRAY", "-DGUDHI_USE_TBB"], "libs": ["-ltbb"]},
    ]
    plain = ("c12_sparse", "c12_dense")
    tbb = ("c12_sparse_tbb", "c12_dense_tbb")
    q, t = [], []
    for u in plain:
        # <= 4 vertices: every weak order of every edge set, every order of the tied edges (process_edges)
        q.append({"unit": u, "args": ["--part", "weak", "--n", "4", "--selfcheck", "20"]})
        # ... and through the documented entry point (6 weights = every weak order of <= 6 edges), 2 numberings
        q.append({"unit": u, "args": ["--part", "graphs", "--n", "4", "--W", "1,2,3,4,5,6", "--selfcheck", "100"], "shards": 2})
        q.append({"unit": u, "args": ["--part", "graphs", "--n", "5", "--W", "1,2", "--selfcheck", "500"]})
        # complete graphs (the Rips / distance-matrix situation)
        q.append({"unit": u, "args": ["--part", "graphs", "--n", "5", "--W", "1,2,3", "--complete", "1", "--selfcheck", "500"]})
        # both vertex numberings: a seeded change in the dense-array branch (tie handling when several common neighbours
        # appear at the same value) only showed under the second numbering
        q.append({"unit": u, "args": ["--part", "graphs", "--n", "6", "--W", "1,2", "--complete", "1", "--selfcheck", "500"], "shards": 2})
        q.append({"unit": u, "args": ["--part", "ties", "--n", "5", "--W", "1,2", "--cap", "120", "--variants", "0", "--selfcheck", "5000"], "shards": 4})
        q.append({"unit": u, "args": ["--part", "union", "--n", "5", "--W", "1,2", "--block", "150", "--selfcheck", "50"]})
    # every complete graph on 6 vertices with three weights (dense-array build, documented numbering): a seeded change that
    # skipped make_heap for two later common neighbours needs 6 vertices and three distinct values - no 5-vertex scope and no
    # two-weight scope shows it
    q.append({"unit": "c12_dense", "args": ["--part", "graphs", "--n", "6", "--W", "1,2,3", "--complete", "1", "--variants", "0", "--selfcheck", "20000"], "shards": 14})
    for u in tbb:
        q.append({"unit": u, "args": ["--part", "weak", "--n", "4", "--selfcheck", "20"]})
        q.append({"unit": u, "args": ["--part", "graphs", "--n", "5", "--W", "1,2", "--selfcheck", "500"]})
        q.append({"unit": u, "args": ["--part", "union", "--n", "5", "--W", "1,2", "--block", "150", "--selfcheck", "50", "--threads", "4"], "cores": 4})

    for u in plain:
        t.append({"unit": u, "args": ["--part", "graphs", "--n", "5", "--W", "1,2,3", "--variants", "1", "--selfcheck", "5000"], "shards": 2, "timeout": 3000})
        t.append({"unit": u, "args": ["--part", "graphs", "--n", "6", "--W", "1", "--selfcheck", "500"], "timeout": 3000})
        t.append({"unit": u, "args": ["--part", "graphs", "--n", "6", "--W", "1,2", "--complete", "1", "--selfcheck", "500"], "timeout": 3000})
        t.append({"unit": u, "args": ["--part", "ties", "--n", "5", "--W", "1,2", "--cap", "144", "--variants", "0", "--selfcheck", "20000"], "shards": 2, "timeout": 3000})
        t.append({"unit": u, "args": ["--part", "weak", "--n", "4", "--selfcheck", "1"], "timeout": 3000})
        t.append({"unit": u, "args": ["--part", "union", "--n", "5", "--W", "1,2,3", "--block", "150", "--selfcheck", "200"], "shards": 2, "timeout": 3000})
    # the large scopes cost 40-90 us per case under the sanitizers; each goes to one of the two neighbour-table builds:
    # default build: every graph on 5 vertices with 4 weights and on 6 vertices with 2 weights (sparse graphs: the
    # "neighbour not found" paths); dense-array build: every complete graph on 6 vertices with 3 weights (table reads
    # in both directions after delays), every graph on 5 vertices with 3 weights
    t.append({"unit": "c12_sparse", "args": ["--part", "graphs", "--n", "5", "--W", "1,2,3,4", "--variants", "0", "--selfcheck", "20000"], "shards": 8, "timeout": 3000})
    t.append({"unit": "c12_sparse", "args": ["--part", "graphs", "--n", "6", "--W", "1,2", "--variants", "0", "--selfcheck", "20000"], "shards": 12, "timeout": 3000})
    t.append({"unit": "c12_dense", "args": ["--part", "graphs", "--n", "5", "--W", "1,2,3", "--variants", "0", "--selfcheck", "5000"], "shards": 2, "timeout": 3000})
    t.append({"unit": "c12_dense", "args": ["--part", "graphs", "--n", "6", "--W", "1,2,3", "--complete", "1", "--variants", "0", "--selfcheck", "20000"], "shards": 14, "timeout": 3000})
    for u in tbb:
        t.append({"unit": u, "args": ["--part", "graphs", "--n", "5", "--W", "1,2", "--selfcheck", "500"], "timeout": 3000})
        t.append({"unit": u, "args": ["--part", "weak", "--n", "4", "--selfcheck", "20"], "timeout": 3000})
        t.append({"unit": u, "args": ["--part", "union", "--n", "5", "--W", "1,2,3", "--block", "150", "--selfcheck", "200", "--threads", "4"], "cores": 4, "timeout": 3000})

    CHECKS["C12"] = {
        "units": units,
        "level": "model_checking",
        "engine": "E2 bounded-exhaustive input enumeration",
        "technique": ("exhaustive enumeration of small weighted graphs on the real flag_complex_collapse_edges, and of every order of "
                      "tied edges through Flag_complex_edge_collapser::process_edges, compared with brute-force flag complexes and "
                      "persistence by boundary-matrix column reduction over Z_2 and Z_3"),
        "level_text": ("every labelled weighted graph on 4 vertices with weights {1..6} (= every weak order of the edges), on 5 vertices "
                       "with weights {1,2}, every complete graph on 5 vertices with weights {1,2,3} and on 6 vertices with weights {1,2} (and {1,2,3} in the "
                       "dense-array build); "
                       "thorough only: every graph on 5 vertices with weights {1,2,3,4} and on 6 vertices with weights {1,2} (default "
                       "build), every graph on 5 vertices with weights {1,2,3} and every complete graph on 6 vertices with weights "
                       "{1,2,3} (dense-array build); all through the documented entry point, the smaller scopes in 2 numberings "
                       "(labels 0..n-1 <int,double>; labels with gaps, reversed orientation and list order, negative/zero weights, "
                       "<short,float>); every order of tied edges through process_edges for every weak order on 4 vertices and for "
                       "the 5-vertex graphs with weights {1,2} and at most 120 (thorough: 144) tie orders; builds "
                       "{sparse, GUDHI_COLLAPSE_USE_DENSE_ARRAY} x {std::sort, GUDHI_USE_TBB}. For each case: output edges are distinct "
                       "input edges with values >= input values, and the Z_2 and Z_3 persistence diagrams (all dimensions) of the flag "
                       "filtrations of input and output are equal. Small scope is a bound: graphs with more than 6 vertices are only "
                       "reached as vertex-disjoint unions of small graphs"),
        "level_note": ("the TBB builds differ from the plain ones only in the sort call, which is serial below 500 elements; they get the "
                       "quick scope plus long inputs (vertex-disjoint unions of 150 small graphs, 500-1400 edges) where "
                       "tbb::parallel_sort really runs in parallel - those runs sample TBB's schedule, the exhaustive statement about tie "
                       "orders is the process_edges enumeration. trusted: the ~120-line clique/column-reduction oracle in the harness "
                       "(cross-checked on a fixed subsample, all cases for <= 4 vertices in thorough, against ref::cliques + "
                       "ref::persistence and a second Z_2 implementation), g++/ASan/UBSan"),
        "rule": ("case = one concrete edge list passed to the real code; ev.states = ev.traces = edge lists executed; "
                 "ev.transitions = calls whose whole output was compared; ev.evaluations = edge-clause checks + diagram comparisons; "
                 "non-trivial = the collapse removed or delayed at least one edge (only then are the two filtrations different objects)"),
        "bounds": {
            "quick": ("sparse+dense: weak orders x tie orders on 4 vertices; graphs n=4 W={1..6}, n=5 W={1,2} (2 numberings); complete "
                      "graphs n=5 W={1,2,3} (2 numberings), n=6 W={1,2}, n=6 W={1,2,3} (dense-array build, 14.3M graphs); tie orders of n=5 W={1,2} graphs with <= 120 tie orders; unions "
                      "of 150 graphs. TBB builds: weak orders n=4, graphs n=5 W={1,2}, unions"),
            "thorough": ("sparse+dense: graphs n=5 W={1,2,3} (numbering 1), n=6 W={1} and complete n=6 W={1,2} (2 numberings); tie orders "
                         "of n=5 W={1,2} graphs with <= 144 orders; weak orders n=4; unions over n=5 W={1,2,3}. sparse only: every graph "
                         "n=5 W={1,2,3,4} and n=6 W={1,2}. dense only: every graph n=5 W={1,2,3}, every complete graph n=6 W={1,2,3}. "
                         "TBB builds: graphs n=5 W={1,2} (2 numberings), weak orders n=4, unions over n=5 W={1,2,3}"),
        },
        "assumptions": [
            "input is a simple graph: no loops, each vertex pair at most once, non-negative vertex labels, finite weights (small integers, exact in float)",
            "vertices are those that carry an edge; every vertex enters below every edge value (the documentation says vertex values are irrelevant)",
            "the two-argument overload with a Delay functor is undocumented and is only used with the identity, as the documented overload does",
        ],
        "runs": {"quick": q, "thorough": t},
    }
