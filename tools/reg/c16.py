"""C16 registry entry: Toplex_map / Lazy_toplex_map == abstract complex of the operation history."""


def register(CHECKS, H):
    CHECKS["C16"] = C16()


BIG = "0,5,4294967301"          # a label above INT_MAX (and congruent to 5 mod 2^32): vertex labels are std::size_t
SPREAD = "2,5,11,2000000000"    # non-contiguous labels that still fit an int


def _eager(labels, workers, budget, validate=0, timeout=None):
    r = {"unit": "c16_toplex", "cores": workers,
         "args": ["--mode", "eager", "--labels", labels, "--workers", str(workers), "--budget", str(budget),
                  "--validate", str(validate)]}
    if timeout:
        r["timeout"] = timeout
    return r


# Directed seed (label indices y=0,a=1,b=2,c=3,x=4): x and y each carry 4 stored simplices, contraction(x,y) removes x
# from t0 but not from the lazy map's cleaning heap, then the map is filled to 8 stored simplices with size_lbound still 0;
# the exploration continues from there (the 9th stored simplex runs the size-triggered clean on the heap's top vertex).
SEED_STALE_HEAP_TOP = "i16,i18,i20,i24,i1,i3,i5,i9,c4_0,i2,i4,i8,i6"


def _joint(labels, depth, workers, budget, prefix=0, timeout=None, memb=1, seed="", betta=0):
    # betta > 0: scaled-down instance, Lazy_toplex_map::BETTA (8, tuning constant of the size-triggered clean) is
    # overwritten in the fresh object so that a plain breadth-first search reaches that code path
    # memb=0: membership queries are not operations of the history (they are still all asked at the final state)
    r = {"unit": "c16_toplex", "cores": workers,
         "args": ["--mode", "joint", "--labels", labels, "--depth", str(depth), "--workers", str(workers),
                  "--budget", str(budget), "--prefix-ins", str(prefix), "--memb", str(memb)]}
    if seed:
        r["args"] += ["--seed-ops", seed]
    if betta:
        r["args"] += ["--betta", str(betta)]
    if timeout:
        r["timeout"] = timeout
    return r


def C16():
  return {
    "units": [{"name": "c16_toplex", "src": "checks/c16_toplex.cpp"}],
    "level": "model_checking",
    "engine": "E1 history explorer",
    "technique": ("explicit-state BFS of operation histories on the real Toplex_map and Lazy_toplex_map (fresh objects per "
                  "history) with reference-complex comparison of every read interface at every state; eager map to the "
                  "fixpoint of (model, t0) keys = all finite histories over the universe; lazy map depth-bounded, plus "
                  "depth-bounded exploration from seeded states"),
    "level_text": ("eager Toplex_map: every finite history of insert_simplex / remove_simplex (maximal, non-maximal, absent, "
                   "empty range) / remove_vertex / contraction (every ordered pair) over 4 vertex labels (thorough: 5) is "
                   "covered by a fixpoint of the reachable canonical-state set, and at every state membership, maximality, "
                   "maximal_simplices, maximal_cofaces, the two counters and the stored t0 lists are compared with a reference "
                   "complex for every non-empty vertex set; Lazy_toplex_map: the same histories (membership queries are "
                   "operations because they mutate) to depth 4 on 4 labels (thorough: 5 with the queries only at the final state; 6 on 3 "
                   "labels; 12 on 2 labels) and to "
                   "depth 2-3 from seeded states with 8..15 stored simplices (one of them a directed 13-operation seed), compared with its own reference complex and "
                   "directly with the eager map. A history is not extended past its first disagreement (the disagreement is "
                   "the verdict for that history and all its extensions). This is the level the for-all-histories quantifier "
                   "needs for the eager map; for the lazy map it is a bounded statement"),
    "level_note": ("trusted: ref::Complex (closure semantics, ~40 lines used), the canonical key (model + t0 lists; lazy: + "
                   "gamma0_lbounds, size_lbound, size, empty_toplex, heap contents, live handle values) validated by merge "
                   "validation in the thorough tier, g++/ASan/UBSan. Not covered: universes above 5 labels, lazy histories "
                   "beyond the stated depths (the size-triggered clean is only reached through the seeded runs: it needs > 8 "
                   "stored simplices - or through the scaled-down instance BETTA=2), all_facets_inside, unitary_collapse, "
                   "insert_independent_simplex called directly, duplicate vertices in an input range"),
    "rule": ("explicit-state BFS over operation histories of the real toplex maps (one fresh object per history), deduplicated "
             "on (reference-model state, t0 lists [, lazy bounds / heap / counters]); after every transition every read "
             "interface named by the property is compared with the reference complex for every non-empty vertex set of the "
             "universe; distinct_nontrivial = distinct canonical states reached (conforming or first-diverging)"),
    "bounds": {
        "quick": ("eager: closure (all finite histories) on labels {0,1,2,3}, {2,5,11,2e9} and {0,5,2^32+5}; joint eager+lazy: "
                  "depth 4 on {0,1,2,3}, depth 5 on {0,1,2}, depth 8 on {0,1}, depth 3 on {0,5,2^32+5}, depth 2 after seeding "
                  "with the first 8 / 10 / 15 simplices of the 4-vertex universe, depth 1 after one directed 13-operation seed on "
                  "5 labels (stale entry on top of the lazy cleaning heap, 8 stored simplices); scaled-down lazy instance "
                  "(BETTA 8 -> 2): depth 4 on {0,1,2}, depth 3 on {0,1,2,3}"),
        "thorough": ("eager: closure on 5 labels {0..4} and on the three quick label sets, all with merge validation; joint: "
                     "depth 5 on {0,1,2,3} without membership-query operations inside the history and depth 4 with them, depth 6 on "
                     "{0,1,2}, depth 12 on {0,1}, depth 4 on {0,5,2^32+5}, depth 3 after "
                     "seeding with 8 / 10 / 14 / 15 simplices, depth 2 after the directed seed; scaled-down lazy instance "
                     "(BETTA 8 -> 2): depth 6 on {0,1,2}, depth 4 on {0,1,2,3}"),
    },
    "assumptions": [
        "documented preconditions only: remove_vertex(v) is generated only when v is a vertex of the complex ('Remove the "
        "vertex ... from the complex'; on an absent vertex the call throws std::out_of_range from unordered_map::at, seen "
        "with --absentv 1, not counted); contraction(x,y) is generated for every x != y (the code documents the return for "
        "absent end points; edge / non-edge / absent end point are classified in the mismatch class); the surviving label of "
        "a contraction is whichever end point the call returns",
        "input vertex ranges have no repeated vertex (their order is varied); the empty simplex is never queried; "
        "remove_simplex of the empty range is the documented 'clean everything'",
        "Lazy_toplex_map::num_maximal_simplices is not compared (the class documents that it is not always up to date; its "
        "own unit test expects non-maximal entries to be counted); lazy has no remove_vertex / maximality / maximal_cofaces",
        "small scope: at most 5 labels (eager), 4 labels (lazy)",
        "scaled-down runs (--betta 2) overwrite the const tuning member Lazy_toplex_map::BETTA of the fresh object through "
        "-fno-access-control; the property must hold for every value of that constant, and every class they report is also "
        "reported by a run with the shipped constant (directed seed)",
    ],
    "runs": {
        "quick": [
            _joint("0,1,2,3", 4, 6, 200),
            _joint("0,1,2", 5, 3, 200),
            _eager("0,1,2,3", 2, 200),
            _eager(SPREAD, 2, 200),
            _eager(BIG, 1, 200),
            _joint("0,1", 8, 1, 200),
            _joint(BIG, 3, 1, 200),
            _joint("0,1,2,3", 2, 1, 200, prefix=8),
            _joint("0,1,2,3", 2, 1, 200, prefix=10),
            _joint("0,1,2,3", 2, 1, 200, prefix=15),
            _joint("0,1,2,3,4", 1, 1, 200, seed=SEED_STALE_HEAP_TOP),
            _joint("0,1,2", 4, 1, 200, betta=2),
            _joint("0,1,2,3", 3, 2, 200, betta=2),
        ],
        "thorough": [
            _joint("0,1,2,3", 5, 8, 2000, timeout=2400, memb=0),
            _joint("0,1,2,3", 4, 4, 1500, timeout=2400),
            _eager("0,1,2,3,4", 6, 2000, validate=200, timeout=2400),
            _joint("0,1,2", 6, 2, 1500, timeout=2400),
            _joint("0,1", 12, 1, 1500, timeout=2400),
            _eager("0,1,2,3", 1, 1500, validate=500, timeout=2400),
            _eager(SPREAD, 1, 1500, validate=500, timeout=2400),
            _eager(BIG, 1, 1500, validate=500, timeout=2400),
            _joint(BIG, 4, 1, 1500, timeout=2400),
            _joint("0,1,2,3", 3, 1, 1500, prefix=8, timeout=2400),
            _joint("0,1,2,3", 3, 1, 1500, prefix=10, timeout=2400),
            _joint("0,1,2,3", 3, 1, 1500, prefix=14, timeout=2400),
            _joint("0,1,2,3", 3, 1, 1500, prefix=15, timeout=2400),
            _joint("0,1,2,3,4", 2, 2, 1500, seed=SEED_STALE_HEAP_TOP, timeout=2400),
            _joint("0,1,2", 6, 2, 1500, betta=2, timeout=2400),
            _joint("0,1,2,3", 4, 4, 1500, betta=2, timeout=2400),
        ],
    },
}
