"""C18 registry entry: persistence landscapes (exact piecewise-linear form and gridded form) against the definition."""


def register(CHECKS, H):
    CHECKS["C18"] = C18()


SRC = "checks/c18_landscapes.cpp"
DEPS = ["checks/c18_oracle.hpp"]

# gridded unit: grid_min:step:cells:offset - abstract endpoint e of a diagram sits on grid point 2e+offset, so every
# breakpoint of every landscape function is a grid point (the sense of "grid-aligned" in which the gridded form is exact)
G_TIGHT = "0:0.5:10:0"      # [0,5], step 1/2: intervals reach grid_min and grid_max
G_MARGIN = "-1:0.5:14:2"    # [-1,6], step 1/2
G_UNIT = "-2:1:13:1"        # [-2,11], step 1, odd offset (diagram scaled by 2)
G_QUARTER = "1:0.25:12:1"   # [1,4], step 1/4, odd offset (diagram scaled by 1/2)
ALL_GRIDS = ",".join([G_TIGHT, G_MARGIN, G_UNIT, G_QUARTER])


def C18():
  return {
    "units": [
        {"name": "c18_exact", "src": SRC, "flags": ["-DVF_PART=0"], "deps": DEPS},
        {"name": "c18_grid", "src": SRC, "flags": ["-DVF_PART=1"], "deps": DEPS},
    ],
    "level": "model_checking",
    "engine": "E2 bounded-exhaustive input enumeration",
    "technique": ("exhaustive enumeration of every multiset of a few intervals with small integer endpoints (every order of "
                  "handing them to the constructor), every pair and every triple of such diagrams, on the real "
                  "Persistence_landscape and Persistence_landscape_on_grid; every level is evaluated at every multiple of "
                  "1/4 (gridded: at every grid point and every quarter of a cell) and compared with the k-th largest tent "
                  "value; operations are compared pointwise, integrals / distances / inner products with exact "
                  "Simpson / two-triangle sums over the node cells"),
    "level_text": ("every diagram with at most 4 (thorough: 5) intervals with endpoints in {0..5} (thorough also {0..6}) - so every "
                   "configuration of repeated, nested, touching, partially overlapping and disjoint intervals of that size - is "
                   "built in every input order by both constructors (all levels / first L levels) of both classes (gridded: 4 "
                   "grids, steps 1/4, 1/2, 1, diagrams reaching the grid ends) and every level 0..n is compared at every "
                   "breakpoint, grid point and point in between with the definition; every unordered pair (both orders of "
                   "every operation) and every ordered triple of the smaller scopes goes through +, -, +=, -=, * c, *=, /=, abs, "
                   "compute_average, distance (p = 1, 2, sup), compute_scalar_product, the integrals, norms and vectorize, "
                   "including weighted differences 2a-3b whose sign changes strictly inside a cell; symmetry, zero on equal "
                   "arguments, the triangle inequality and bilinearity are checked on the library's own numbers. This is the "
                   "level the for-all-inputs quantifier asks for inside the stated sizes; non-integer or unaligned diagrams, "
                   "more intervals and other exponents p are not covered"),
    "level_note": ("trusted: the 250-line oracle c18_oracle.hpp (sorting tent values; Simpson on node cells, checked at run time: "
                   "every table built from a diagram is verified to be linear between nodes and 0 at its ends), "
                   "g++/ASan/UBSan. Calls of the gridded compute_value_at_a_given_point at grid points are first made in a "
                   "forked child so that an invalid read is reported as a mismatch and does not end the enumeration"),
    "rule": ("each enumerated case (one diagram in one input order / one unordered pair / one ordered triple, per grid for the "
             "gridded unit) is executed once on the real classes and every observer listed in the property is compared with "
             "the oracle with tolerance 1e-9 (all numbers are small dyadic rationals); states = traces = enumerated cases; "
             "transitions = library calls made; evaluations = individual numeric comparisons; distinct_nontrivial = cases "
             "in which some diagram has a non-zero second landscape function or two touching intervals"),
    "bounds": {
        "quick": ("exact form: every diagram with <= 4 intervals over endpoints {0..5} in every distinct input order (levels "
                  "0..n+1 at the 33 multiples of 1/4 in [-1,7]); every unordered pair of the 286 diagrams with <= 3 intervals over {0..4}; every ordered "
                  "triple of the 28 diagrams with <= 2 intervals over {0..3}.  gridded form, 4 grids: every diagram with <= 3 "
                  "intervals over {0..5} in every input order; grids [0,5]/0.5 and [1,4]/0.25: every unordered pair of the 286 "
                  "diagrams (<= 3 intervals over {0..4}); every ordered triple of the 28 diagrams (<= 2 intervals over {0..3})"),
        "thorough": ("exact form: every diagram with <= 5 intervals over {0..5} and <= 4 intervals over {0..6}, every input order; "
                     "every unordered pair of the 816 diagrams with <= 3 intervals over {0..5} and of the 253 with <= 2 over {0..6}; "
                     "every ordered triple of the 66 diagrams with <= 2 intervals over {0..4} and of the 84 with <= 3 over {0..3}.  "
                     "gridded form, 4 grids: every diagram with <= 4 intervals over {0..5}, every input order; every unordered pair "
                     "of the 816 diagrams (<= 3 over {0..5}) on grids [0,5]/0.5 and [1,4]/0.25, of the 286 (<= 3 over {0..4}) on the "
                     "other two; every ordered triple of the 66 diagrams (<= 2 over {0..4}) on [0,5]/0.5 and of the 28 (<= 2 over "
                     "{0..3}) on the other three"),
    },
    "assumptions": [
        "finite intervals with b < d and small integer endpoints (scaled by the grid step for the gridded class), so that all "
        "values are exact dyadic rationals and the 0.000005 'almost equal' tolerance documented by both classes never merges "
        "distinct values",
        "gridded class: the diagram lies inside [grid_min, grid_max] and every endpoint is on a grid point of the same parity "
        "(then every breakpoint of every landscape function is a grid point and the gridded form is the landscape itself); "
        "steps 1/4, 1/2, 1 (exact in binary)",
        "gridded L^1 / L^2 distance: documented (FIXME note at compute_distance_of_landscapes_on_grid) to integrate the "
        "gridded |f-g|; pairs whose difference changes sign strictly inside a cell (only the weighted pairs 2a, 3b do) are "
        "compared with the integral of the gridded |f-g| under the class suffix :gridded_abs, all others with the true integral",
        "levels are 0-based; a level >= size() is the zero function; the constructors with a number of levels L are only "
        "required to get levels < L right; vectorize(k) is only called for k below number_of_vectorize_functions() (exact "
        "class) resp. below the number of grid points (gridded class); compute_average is only called on 1-3 landscapes",
        "sup distance is requested the documented way (power = std::numeric_limits<double>::max()); exponents p in {1, 2, sup}",
    ],
    "runs": {
        "quick": [
            {"unit": "c18_exact", "args": ["--single", "5:4"], "shards": 2, "cores": 1},
            {"unit": "c18_exact", "args": ["--pairs", "4:3"], "shards": 3, "cores": 1},
            {"unit": "c18_exact", "args": ["--triples", "3:2"], "cores": 1},
            {"unit": "c18_grid", "args": ["--grids", ALL_GRIDS, "--single", "5:3"], "shards": 2, "cores": 1},
            {"unit": "c18_grid", "args": ["--grids", G_TIGHT + "," + G_QUARTER, "--pairs", "4:3"], "shards": 4, "cores": 1},
            {"unit": "c18_grid", "args": ["--grids", ALL_GRIDS, "--triples", "3:2"], "shards": 2, "cores": 1},
        ],
        "thorough": [
            {"unit": "c18_exact", "args": ["--single", "5:5,6:4"], "shards": 6, "cores": 1, "timeout": 2400},
            {"unit": "c18_exact", "args": ["--pairs", "5:3,6:2"], "shards": 6, "cores": 1, "timeout": 2400},
            {"unit": "c18_exact", "args": ["--triples", "4:2,3:3"], "shards": 6, "cores": 1, "timeout": 2400},
            {"unit": "c18_grid", "args": ["--grids", ALL_GRIDS, "--single", "5:4"], "shards": 6, "cores": 1, "timeout": 2400},
            {"unit": "c18_grid", "args": ["--grids", G_TIGHT + "," + G_QUARTER, "--pairs", "5:3"], "shards": 8, "cores": 1,
             "timeout": 2400},
            {"unit": "c18_grid", "args": ["--grids", G_MARGIN + "," + G_UNIT, "--pairs", "4:3"], "shards": 2, "cores": 1,
             "timeout": 2400},
            {"unit": "c18_grid", "args": ["--grids", G_TIGHT, "--triples", "4:2"], "shards": 6, "cores": 1, "timeout": 2400},
            {"unit": "c18_grid", "args": ["--grids", ",".join([G_MARGIN, G_UNIT, G_QUARTER]), "--triples", "3:2"], "shards": 2,
             "cores": 1, "timeout": 2400},
        ],
    },
  }
