"""C17 registry entry: skeleton-blocker complexes track the abstract complex through edits and contractions."""


def register(CHECKS, H):
    CHECKS["C17"] = C17()


def C17():
  unit = "c17_skeleton_blocker"
  return {
    "units": [{"name": unit, "src": "checks/c17_skeleton_blocker.cpp", "deps": []}],
    "level": "model_checking",
    "engine": "E1 history explorer",
    "technique": ("explicit-state BFS of operation histories on the real Skeleton_blocker_complex<Skeleton_blocker_simple_traits> "
                  "(one fresh object per history) with a set-theoretic reference complex compared at every state; the reachable "
                  "canonical-state set over 5 vertex handles closes, i.e. every finite history over that universe is covered"),
    "level_text": ("every finite history of add_vertex / add_edge / add_edge_without_blockers / add_simplex / add_blocker / "
                   "remove_star(vertex, edge, simplex) / contract_edge (link condition satisfied) over at most 5 vertex handles, started "
                   "from the empty complex, from Complex(n) or from the simplex-list constructor applied to every complex on <= 5 vertices, "
                   "is covered by a fixpoint of the reachable canonical-state set; after every transition contains(s) for every vertex "
                   "set, the blocker set (== minimal non-faces), num_simplices, complex_simplex_range, num_connected_components, "
                   "num_vertices/num_edges/num_blockers and link_condition of every edge are compared with the reference complex, and for "
                   "contractions the Betti numbers over Z_2 and Z_3 and the Euler characteristic before/after. Thorough adds call variants, "
                   "merge validation and depth-bounded exploration over 6 handles. A history after which the implementation has diverged "
                   "from the reference is reported once and not extended, except when the divergence is exactly the recorded "
                   "star-removal finding: then the exploration continues from the reference state on an object rebuilt from it. "
                   "Larger universes are not covered"),
    "level_note": ("trusted: the 100-line bit-mask reference complex, ref::persistence (column reduction over Z_p), the canonical key "
                   "(model state + skeleton, degree_, counters and blocker_map_ read with -fno-access-control; validated by merge "
                   "validation in the thorough tier), g++/ASan/UBSan"),
    "rule": ("explicit-state BFS over operation histories of the real Skeleton_blocker_complex, deduplicated on (created handles, "
             "active set, simplex set of the reference, skeleton/degree_/counters/blocker_map_ of the implementation); operations are "
             "enabled from the reference model only (documented preconditions; contract_edge only where the model finds "
             "Lk(ab) = Lk(a) cap Lk(b); add_blocker only where the argument becomes a genuine minimal non-face); after every transition "
             "every read interface named by the property is compared for every vertex set; distinct_nontrivial = distinct reference "
             "states reached that have at least 3 active vertices and on which implementation and reference agree"),
    "bounds": {
        "quick": ("5 vertex handles: closure (all finite histories), constructors from every complex on <= 5 vertices (7 020 simplex lists); "
                  "4 vertex handles with call variants: closure"),
        "thorough": ("5 vertex handles with call variants (swapped edge arguments, remove_star(Simplex) for vertices and edges, "
                     "remove_star(Edge_handle), link_condition(Edge_handle), reversed simplex lists) and merge validation: closure; "
                     "6 vertex handles: every history of length <= 2 from every complex on <= 5 vertices and of length <= 3 from every "
                     "complex on <= 4 vertices (depth bound, not a closure)"),
    },
    "assumptions": [
        "documented preconditions only: add_edge/add_edge_without_blockers on present vertices; add_simplex on a simplex of dimension > 1 "
        "that is not contained (handles not created yet are created by the call; simplices through a removed handle are not generated "
        "because a removed handle can never return); remove_star on a present vertex / edge / simplex; contract_edge on an edge of the "
        "complex whose link condition holds in the reference model (otherwise the code first deletes blockers and the property gives that "
        "no abstract meaning); add_blocker only on a simplex that no blocker strictly contains or on an existing blocker (no-op)",
        "small scope: at most 5 vertex handles for the closure, 6 for the depth-bounded layer; Skeleton_blocker_simple_traits only; no visitor",
        "a history after which implementation and reference differ is reported and not extended; histories whose only divergence is the "
        "recorded star-removal footprint (lost simplices == cofaces of blocker-minus-removed, nothing gained) continue from the reference "
        "state on a rebuilt object (n vertices, isolated-vertex removals, add_edge_without_blockers, add_blocker)",
    ],
    "runs": {
        "quick": [
            {"unit": unit, "args": ["--nmax", "5", "--nctor", "5", "--variants", "0", "--workers", "8", "--budget", "500"],
             "cores": 8, "timeout": 700},
            {"unit": unit, "args": ["--nmax", "4", "--nctor", "4", "--variants", "1", "--workers", "1", "--budget", "400"],
             "cores": 1, "timeout": 600},
        ],
        "thorough": [
            {"unit": unit, "args": ["--nmax", "5", "--nctor", "5", "--variants", "1", "--workers", "2", "--budget", "1500",
                                    "--validate", "300"],
             "cores": 2, "timeout": 2000},
            {"unit": unit, "args": ["--nmax", "6", "--nctor", "5", "--variants", "0", "--depth", "2", "--workers", "2",
                                    "--budget", "1800"],
             "cores": 2, "timeout": 2300},
            {"unit": unit, "args": ["--nmax", "6", "--nctor", "4", "--variants", "0", "--depth", "3", "--workers", "2",
                                    "--budget", "1800"],
             "cores": 2, "timeout": 2300},
        ],
    },
}
