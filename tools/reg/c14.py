"""C14 registry entry: specialised 1D (line) and 2D (rectangle of top cells) persistence routines vs generic persistence."""


def register(CHECKS, H):
    CHECKS["C14"] = C14()


SRC = "checks/c14_line_rectangle.cpp"
DEPS = ["checks/c14_oracle.hpp"]

# rectangle scopes.  wo:RxC = every weak order of the R*C top cells, pow:RxC:k = every array over {0..k-1}
RECT_SMALL_WO = "wo:2x2,wo:2x3,wo:3x2,wo:2x4,wo:4x2"
RECT_QUICK_POW = "pow:3x4:2,pow:4x3:2,pow:3x5:2,pow:5x3:2,pow:4x4:2,pow:2x5:3,pow:5x2:3"
RECT_U32_QUICK = "wo:2x2,wo:2x3,wo:3x2,pow:3x3:3,pow:3x4:2,pow:4x3:2,pow:4x4:2"


def C14():
  return {
    "units": [
        {"name": "c14_line", "src": SRC, "flags": ["-DVF_PART=0"], "deps": DEPS},
        {"name": "c14_rect_sz", "src": SRC, "flags": ["-DVF_PART=1"], "deps": DEPS},
        {"name": "c14_rect_u32", "src": SRC, "flags": ["-DVF_PART=2"], "deps": DEPS},
    ],
    "level": "model_checking",
    "engine": "E2 bounded-exhaustive input enumeration",
    "technique": ("exhaustive enumeration of every input of a small scope (every weak order of the values of short sequences "
                  "and small grids, every array over a small alphabet for larger ones) on the real routines, compared with "
                  "the persistence of the explicit lower-star cell complex computed by an independent column reduction"),
    "level_text": ("every weak order of the values (so every pattern of repeated values) of sequences up to length 7 "
                   "(thorough: 9) and of the grids 2x2, 2x3, 3x2, 2x4, 4x2, 3x3, plus every array over 2-4 values on grids up "
                   "to 5x5, is run through the real routine in every output mode / comparator configuration and the whole "
                   "output (every call of the output functors and the returned minimum) is compared with the barcode of the "
                   "explicit cubical complex. All 256 larger/smaller patterns of the 8 neighbours of an interior cell (hence "
                   "every leaf of the hand-unrolled decision tree), all 4x32 border and 4x8 corner patterns occur. This is "
                   "the level the for-all-inputs quantifier asks for inside the stated sizes; larger grids are not covered"),
    "level_note": ("trusted: the 100-line Z_2 bitmask column reduction and the cell-complex builders of c14_oracle.hpp "
                   "(cross-checked at run time against the shared dense Z_3 reduction on the signed boundary, and the "
                   "vertex-valued path against the edge-valued path), g++/ASan/UBSan"),
    "rule": ("each enumerated input is executed on the real routine once per configuration (line: std::less, std::greater, "
             "comparator on a key with distinct equivalent values, index mode through a comparator, by-value transform "
             "range, std::list; rectangle: value mode and index mode, <double,size_t> and <float,unsigned>) and compared: multiset "
             "of (dimension,birth,death) with birth != death, returned/last-call global minimum, infinity marker, outputs "
             "are input elements / valid indices, exact index pairs when all values are distinct. states = enumerated (input, "
             "build unit) pairs; distinct_nontrivial = those whose true diagram has at least one finite interval of "
             "non-zero length"),
    "bounds": {
        "quick": ("line: every weak order of lengths 0..7, {0,1,2,3}^8; rectangle (double, Index=size_t): every weak order of "
                  "2x2, 2x3, 3x2, 2x4, 4x2, 3x3, {0,1,2}^(3x4,4x3,2x5,5x2), {0,1}^(3x5,5x3,4x4); rectangle (float, "
                  "Index=unsigned): every weak order of 2x2, 2x3, 3x2, {0,1,2}^(3x3), {0,1}^(3x4,4x3,4x4)"),
        "thorough": ("line: every weak order of lengths 0..9, {0..3}^10, {0,1,2}^12, {0,1}^16; rectangle (double, size_t): quick "
                     "scope plus {0..3}^(3x4), {0,1,2}^(4x3,4x4), {0..3}^(2x5,5x2), {0,1}^(4x5,5x4,5x5); rectangle (float, unsigned): "
                     "every weak order up to 3x3, {0,1,2}^(3x4,4x3), {0,1}^(4x4,4x5,5x4)"),
    },
    "assumptions": [
        "documented preconditions only: n_rows >= 2 and n_cols >= 2, values comparable with operator< (finite small "
        "integers stored exactly in double/float; no NaN, no infinities in the input), C-order input, Index wide enough",
        "rectangle routine: pairs with birth value == death value (which it emits when values repeat, and which its Python "
        "caller filters) are removed from its output before the comparison and counted (rect.zero_length_intervals_emitted.*); "
        "--strict-zero-length 1 turns them into a mismatch class instead. Line routine: its documentation excludes pairs of "
        "length 0, so any such pair is a mismatch",
        "with repeated values the index pairing is only compared after mapping indices to values (the tie order of the "
        "edge sort is not pinned down); with all values distinct the index pairs are compared exactly",
        "small scope: sequences up to length 16, grids up to 5x5, at most 9 distinct values; GUDHI_USE_TBB off "
        "(std::sort for the edges)",
    ],
    "runs": {
        "quick": [
            {"unit": "c14_line", "args": ["--scope", "wo:0-7,pow:8:4"], "cores": 1},
            {"unit": "c14_rect_sz", "args": ["--scope", RECT_SMALL_WO + ",wo:3x3,pow:3x4:3,pow:4x3:3"], "shards": 8, "cores": 1},
            {"unit": "c14_rect_sz", "args": ["--scope", RECT_QUICK_POW], "cores": 1},
            {"unit": "c14_rect_u32", "args": ["--scope", RECT_U32_QUICK], "cores": 1},
        ],
        "thorough": [
            {"unit": "c14_line", "args": ["--scope", "wo:0-9"], "shards": 6, "cores": 1, "timeout": 2400},
            {"unit": "c14_line", "args": ["--scope", "pow:10:4,pow:12:3,pow:16:2"], "shards": 2, "cores": 1, "timeout": 2400},
            {"unit": "c14_rect_sz", "args": ["--scope", RECT_SMALL_WO + ",wo:3x3," + RECT_QUICK_POW], "shards": 4, "cores": 1,
             "timeout": 2400},
            {"unit": "c14_rect_sz", "args": ["--scope", "pow:3x4:4,pow:4x3:3,pow:4x4:3,pow:2x5:4,pow:5x2:4,pow:4x5:2,pow:5x4:2,pow:5x5:2"],
             "shards": 16, "cores": 1, "timeout": 2400},
            {"unit": "c14_rect_u32", "args": ["--scope", RECT_SMALL_WO + ",wo:3x3,pow:3x4:3,pow:4x3:3,pow:4x4:2,pow:4x5:2,pow:5x4:2"],
             "shards": 4, "cores": 1, "timeout": 2400},
        ],
    },
  }
