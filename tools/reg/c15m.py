"""C15, matrix part (checks/c15_matrix.cpp): run lists to be merged into the C15 entry by tools/reg/c15.py.

  from c15m import runs;  units, quick_runs, thorough_runs = runs()

One unit per group of C05 option sets (checks/pm_configs.hpp, -DVF_CFG=k: all 129 option sets, i.e. every flavour x
indexation x column type x row-access value and every pair of option values within a flavour)."""
N_UNITS = 16
DEPS = ["checks/pm_common.hpp", "checks/pm_configs.hpp", "checks/pm_verify.hpp"]


def register(CHECKS, H):
    # not a check of its own: the lead merges runs() into CHECKS["C15"]
    return


def runs():
    units = [{"name": "c15_matrix_%d" % k, "src": "checks/c15_matrix.cpp", "flags": ["-DVF_CFG=%d" % k], "deps": DEPS}
             for k in range(N_UNITS)]
    # quick: triangle universe, source histories with <= 4 insertions and <= 1 remove_last (R-only matrices also with the
    # barcode already asked), targets {empty, edge, whole triangle (with a removal where allowed, reduced for R-only)},
    # Z_2 option sets with p = 2, Z_p option sets with p = 3, identifier/constructor modes 00 and 21
    quick = [{"unit": u["name"], "args": ["--u", "tri", "--maxins", "4", "--maxrem", "1", "--primes", "2,3", "--modes", "00,21",
                                            "--targets", "0,2,3"], "cores": 1, "timeout": 900} for u in units]
    # thorough: <= 5 insertions, <= 2 remove_last, all four targets, p in {2,3,5}, modes 00,21,11,41; plus the tetrahedron
    thorough = [{"unit": u["name"], "args": ["--u", "tri", "--maxins", "5", "--maxrem", "2", "--primes", "2,3,5",
                                               "--modes", "00,21,11,41", "--targets", "0,1,2,3"], "cores": 1, "timeout": 2400}
                for u in units]
    thorough += [{"unit": u["name"], "args": ["--u", "tet", "--maxins", "5", "--maxrem", "1", "--primes", "2,3",
                                                "--modes", "00,21", "--targets", "0,2,3"], "cores": 1, "timeout": 2400}
                 for u in units]
    return units, quick, thorough
