"""C07 registry entry: zigzag persistence == interval decomposition of the zigzag module."""

# Column_types enumerators accepted by Zigzag_matrix_options (HEAP = 2 has no row access and is rejected at compile time)
COLS = {0: "LIST", 1: "SET", 3: "VECTOR", 4: "NAIVE_VECTOR", 5: "SMALL_VECTOR", 6: "UNORDERED_SET", 7: "INTRUSIVE_LIST",
        8: "INTRUSIVE_SET"}
DEFAULT = 4  # Default_zigzag_options::column_type


def _run(col, universe, depth, valdepth=0, fedepth=0, seed=None, shards=1, timeout=None, prefix=4, mindim=0):
    r = {"unit": "c07_col%d" % col,
         "args": ["--universe", universe, "--depth", str(depth), "--valdepth", str(valdepth), "--fedepth", str(fedepth),
                  "--prefix", str(prefix)],
         "shards": shards}
    if seed:
        r["args"] += ["--seed-ops", seed]
    if mindim:
        r["args"] += ["--min-op-dim", str(mindim)]
    if timeout:
        r["timeout"] = timeout
    return r


def register(CHECKS, H):
    units = [{"name": "c07_col%d" % c, "src": "checks/c07_zigzag.cpp", "flags": ["-DVF_COL=%d" % c],
              "deps": ["checks/c07_ref_zigzag.hpp"]} for c in sorted(COLS)]

    quick = []
    for c in sorted(COLS):
        # every history of depth <= 7 on the triangle universe, all three front-ends
        quick.append(_run(c, "triangle", 7, valdepth=5, fedepth=7, shards=2))
        # every history of depth <= 3..5 after the full complex has been built (many cycles alive, removals with several
        # vine swaps: the part a search from the empty complex does not reach within its depth)
        quick.append(_run(c, "two_triangles", 4, fedepth=4, seed="all"))
        quick.append(_run(c, "two_triangles", 3, fedepth=3, seed="allrev"))
        quick.append(_run(c, "tetra_skeleton", 3, fedepth=3, seed="all"))
        quick.append(_run(c, "square", 5, fedepth=5, seed="all"))
    # forward arrows whose boundary spreads over >= 4 unpaired chains with births not aligned with the pivots (only after
    # removals): bouquets of loops with discs glued on sums of loops, seeded with the vertex and the loops; edge
    # insertions / removals on 4 fixed vertices (complete graph), where an edge merges classes whose births were re-assigned
    for c in sorted(COLS):
        quick.append(_run(c, "bouquet4w", 4, fedepth=4, seed="dim01"))
        quick.append(_run(c, "bouquet4", 3, fedepth=3, seed="dim01"))
        quick.append(_run(c, "k4", 6, fedepth=4, seed="dim0", mindim=1, shards=2, prefix=3))
    quick.append(_run(DEFAULT, "bouquet4", 4, seed="dim01", shards=2, prefix=2))
    quick.append(_run(DEFAULT, "bouquet5w", 4, fedepth=4, seed="dim01"))
    quick.append(_run(DEFAULT, "two_triangles", 5, fedepth=5, seed="dim0"))
    for c in (DEFAULT, 8):
        quick.append(_run(c, "square", 6, fedepth=6, shards=2))
        quick.append(_run(c, "two_triangles", 6, fedepth=6, shards=2))
        quick.append(_run(c, "cw", 7, valdepth=5, fedepth=7))

    thorough = []
    DEEP = (1, 7)  # SET, INTRUSIVE_LIST: full depth next to the default column type
    for c in sorted(COLS):
        d = c == DEFAULT
        if d:
            thorough.append(_run(c, "triangle", 10, valdepth=6, fedepth=9, shards=8, timeout=3000))
            thorough.append(_run(c, "square", 8, fedepth=7, shards=3, timeout=3000))
            thorough.append(_run(c, "two_triangles", 8, fedepth=7, shards=3, timeout=3000))
            thorough.append(_run(c, "cw", 10, valdepth=6, fedepth=9, shards=2, timeout=3000))
        else:
            thorough.append(_run(c, "triangle", 10 if c in DEEP else 9, valdepth=5, fedepth=7, shards=4 if c in DEEP else 2,
                                 timeout=3000))
            thorough.append(_run(c, "square", 7, fedepth=6, timeout=3000))
            thorough.append(_run(c, "two_triangles", 7, fedepth=6, timeout=3000))
            thorough.append(_run(c, "cw", 9, valdepth=5, fedepth=8, timeout=3000))
        thorough.append(_run(c, "triangle", 8, fedepth=8, seed="all", timeout=3000))
        thorough.append(_run(c, "square", 7, fedepth=7, seed="all", timeout=3000))
        thorough.append(_run(c, "two_triangles", 6, fedepth=6, seed="all", timeout=3000))
        thorough.append(_run(c, "two_triangles", 5, fedepth=5, seed="allrev", timeout=3000))
        thorough.append(_run(c, "tetra_skeleton", 5, fedepth=5, seed="all", timeout=3000))
        thorough.append(_run(c, "tetra_skeleton", 4, fedepth=4, seed="allrev", timeout=3000))
        # many unpaired chains in one boundary, births not aligned with pivots
        thorough.append(_run(c, "bouquet4w", 6, fedepth=5, seed="dim01", timeout=3000))
        thorough.append(_run(c, "bouquet4", 4, fedepth=4 if d else 3, seed="dim01", shards=2, prefix=2, timeout=3000))
        thorough.append(_run(c, "bouquet5w", 5, fedepth=5, seed="dim01", timeout=3000))
        deep = c in (DEFAULT,) + DEEP
        thorough.append(_run(c, "k4", 7 if deep else 6, fedepth=5, seed="dim0", mindim=1, shards=3 if deep else 1, prefix=3,
                             timeout=3000))
        if c in (DEFAULT,) + DEEP:
            # from the empty complex to the depth of the 9-operation bouquet witness
            thorough.append(_run(c, "bouquet4w", 9, fedepth=7 if d else 0, shards=6, timeout=3000))
    thorough.append(_run(DEFAULT, "bouquet4", 5, seed="dim01", shards=6, prefix=2, timeout=3000))
    thorough.append(_run(DEFAULT, "k4", 6, fedepth=6, seed="dim0", shards=3, prefix=3, timeout=3000))
    thorough.append(_run(DEFAULT, "two_triangles", 6, fedepth=6, seed="dim0", shards=2, prefix=3, timeout=3000))
    thorough.append(_run(DEFAULT, "k5", 6, seed="dim0", mindim=1, shards=6, prefix=3, timeout=3000))
    thorough.append(_run(DEFAULT, "cycle6", 7, seed="dim0", mindim=1, shards=4, prefix=3, timeout=3000))

    CHECKS["C07"] = {
        "units": units,
        "level": "model_checking",
        "engine": "E1 history explorer",
        "technique": ("exhaustive depth-bounded enumeration of insertion/removal/identity histories (no deduplication: the "
                      "output depends on the whole history) replayed on fresh objects of the real Zigzag_persistence, "
                      "Filtered_zigzag_persistence_with_storage and Filtered_zigzag_persistence for all 8 accepted column "
                      "types, compared with a definition-level oracle (rank of lim -> colim on every sub-interval of the "
                      "zigzag module, GF(2) linear algebra on explicit homology groups)"),
        "level_text": ("every zigzag history (insert_cell / remove_cell / apply_identity, every intermediate set a complex) from "
                       "the empty complex up to depth 7 (thorough: 10 for 3 column types, 9 for the other 5) over the 7 cells of a "
                       "triangle, up to depth 6 (thorough: 8 / 7) over a square with one 4-sided 2-cell and over two triangles "
                       "sharing an edge, up to depth 7 (thorough: 10 / 9) over a small CW universe with loops and a sphere cell "
                       "(general, non-simplicial cells), and every history of depth <= 3..5 (thorough: 4..8) that starts from the "
                       "full triangle / square / two-triangle / hollow-tetrahedron complex, plus (forward arrows over >= 4 unpaired chains) every history of depth <= 4 "
                       "(thorough: 6) after a vertex and four loops of a bouquet with discs glued on sums of loops (<= 3..4 / 4..5 "
                       "with all 15 discs; thorough also from the empty complex to depth 9, and five loops), and every sequence of "
                       "<= 6 (thorough: 7) edge insertions / removals / identities on the 4 vertices of a complete graph (thorough: "
                       "also with vertex removals, K5 and a 6-cycle), is executed on the real classes for "
                       "all 8 column types; after the last step of every history the streamed finite intervals, the currently "
                       "open ones and the dimension labels are compared as multisets with the interval decomposition computed "
                       "from the definition; the two filtered front-ends are compared on the same histories with every "
                       "monotone value sequence over {0,1,2} at small depth and three fixed sequences above, cell keys "
                       "arbitrary integers, ignoreCyclesAboveDim in {-1,0,1,2}; insertion-only histories are also compared "
                       "with a column reduction of the boundary matrix. Longer histories, larger complexes and coefficient "
                       "fields other than Z_2 (not offered by the class) are not covered"),
        "level_note": ("trusted: the ~250-line RefZigzag oracle (validated at start-up of every process against the 29-operation "
                       "filtration and the 16 stored intervals of the repository's unit test, on all its prefixes, and its two "
                       "accelerations against the plain definition), ref::persistence, g++/ASan/UBSan"),
        "rule": ("one state = one (operation history, column type) pair - histories are all distinct, there is no "
                 "deduplication; each is replayed from scratch on a fresh Zigzag_persistence (ev.traces counts every replay, "
                 "also those of the filtered front-ends per value sequence and ignoreCyclesAboveDim) and the streamed "
                 "intervals + get_current_infinite_intervals, resp. get_index_persistence_diagram / get_persistence_diagram / "
                 "the streamed value intervals, are compared as sorted multisets with the oracle (ev.evaluations = multiset "
                 "comparisons); ev.transitions = API calls; non-trivial = history with at least one removal whose "
                 "decomposition has at least one finite bar"),
        "bounds": {
            "quick": ("triangle universe: all 38 159 histories of depth <= 7 x 8 column types, filtered front-ends with every "
                      "monotone value sequence over {0,1,2} up to depth 5 and 3 fixed sequences up to depth 7; seeded with the "
                      "full complex (8 column types): two triangles +4 (and +3 after the reverse insertion order), hollow "
                      "tetrahedron +3, square +5; from empty for 2 column types: square, two triangles depth <= 6, CW "
                      "universe depth <= 7; bouquet of 4 loops seeded with vertex + loops: 3 discs +4, all 15 discs +3 (8 column "
                      "types) and +4 (default), 5 loops +4 (default); complete graph K4 seeded with its vertices, edge "
                      "operations only, +6 (8 column types); two triangles seeded with the 4 vertices +5 (default)"),
            "thorough": ("triangle depth <= 10 (3 784 265 histories) for NAIVE_VECTOR, SET, INTRUSIVE_LIST and <= 9 for the "
                         "other 5 column types; filtered front-ends to depth 9 / all value sequences to depth 6 for the default "
                         "column type (7 / 5 for the others); square and two triangles depth <= 8 (default) / 7, CW depth <= "
                         "10 / 9; seeded with the full complex, all 8 column types: triangle +8, square +7, two triangles +6 "
                         "(+5 reverse order), hollow tetrahedron +5 (+4 reverse order); bouquet of 4 loops, 3 discs: from empty "
                         "depth <= 9 (3 column types) and seeded +6; all 15 discs seeded +4 (8 column types) / +5 (default); 5 loops "
                         "seeded +5; K4 on seeded vertices: edge operations only +7 (3 column types) / +6 (the other 5), all operations +6 (default); "
                         "K5 edge operations +6, 6-cycle edge operations +7, two triangles on seeded vertices +6 (default)"),
        },
        "assumptions": [
            "documented preconditions only: a cell is inserted when absent and all its faces are present, removed when present "
            "and maximal; boundaries of the plain class listed by increasing arrow number; filtration values monotone "
            "(non-decreasing or non-increasing) small integers; cell keys distinct",
            "interval (dim,b,d) = class alive in the complexes after operations b..d-1 (convention of the repository's unit test)",
            "small scope: universes of at most 20 cells, depth bounds as stated; Z_2 coefficients (the only ones the class offers)",
        ],
        "runs": {"quick": quick, "thorough": thorough},
    }
