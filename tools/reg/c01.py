"""C01 registry entry."""

# ---------------------------------------------------------------------------------------------------------------------
def register(CHECKS, H):
    st_units = H["st_units"]
    CHECKS["C01"] = C01(st_units)


def C01(st_units):
  return {
    "units": st_units("c01", "checks/c01_simplex_tree.cpp"),
    "level": "model_checking",
    "engine": "E1 history explorer",
    "technique": "explicit-state BFS of operation histories on the real Simplex_tree with reference-model comparison at every state (closure = all finite histories over the universe)",
    "level_text": ("every finite history over a 3-vertex universe with 3 filtration values (thorough: 4 vertices, 2 values) is covered "
                   "by a fixpoint of the reachable canonical-state set, for 8 option sets; at every state all read interfaces are "
                   "compared with a reference complex for every simplex. This is the level the for-all-histories quantifier needs; "
                   "larger universes are not covered"),
    "level_note": "trusted: the 150-line reference complex, the canonical key (validated by merge validation in the thorough tier), g++/ASan/UBSan",
    "rule": ("explicit-state BFS over operation histories of the real Simplex_tree (one fresh object per history), "
             "deduplicated on (reference-model state, dimension_, dimension_to_be_lowered_, filtration cache present); "
             "after every transition every read interface is compared with the reference complex for every simplex "
             "of the universe; distinct_nontrivial = distinct canonical states reached"),
    "bounds": {
        "quick": "labels {0,1,2}, values {0,1,2}: closure (all finite histories) for 8 option sets; relabelled universe {0,2,5}; values {0,+inf}",
        "thorough": "labels {0,1,2,3}, values {0,1}: closure or completed depth under the time budget, 8 option sets; merge validation",
    },
    "assumptions": [
        "documented preconditions only: insert_simplex needs present facets and a value keeping the filtration monotone; "
        "remove_maximal_simplex needs a maximal simplex; insert_graph needs an empty tree; contiguous_vertices option sets "
        "only see histories keeping labels 0..k-1",
        "small scope: at most 4 vertices, 3 filtration values",
    ],
    "runs": {
        "quick": (
            [{"unit": "c01_opt%d" % i, "args": ["--labels", "0,1,2", "--F", "0,1,2", "--workers", "2", "--budget", "500"],
              "cores": 2} for i in range(8)] +
            [{"unit": "c01_opt%d" % i, "args": ["--labels", "0,2,5", "--F", "0,1", "--workers", "1", "--budget", "500"],
              "cores": 1} for i in (0, 1, 4, 5, 6, 7)] +
            # +infinity is a legitimate (non-NaN) filtration value
            [{"unit": "c01_opt%d" % i, "args": ["--labels", "0,1,2", "--F", "0,inf", "--workers", "1", "--budget", "500"],
              "cores": 1} for i in (0, 1, 3, 4, 5, 6, 7)]
        ),
        "thorough": (
            [{"unit": "c01_opt%d" % i, "args": ["--labels", "0,1,2,3", "--F", "0,1", "--workers", "2", "--budget", "1500",
                                                  "--validate", "200"],
              "cores": 2, "timeout": 2400} for i in range(8)] +
            [{"unit": "c01_opt%d" % i, "args": ["--labels", "0,1,2", "--F", "0,1,2", "--workers", "2", "--budget", "600",
                                                  "--validate", "500"],
              "cores": 2, "timeout": 1200} for i in range(8)]
        ),
    },
}
