"""C04 registry entry."""


def register(CHECKS, H):
    src = "checks/c04_flag_expansion.cpp"
    units = [{"name": "c04_opt%d" % i, "src": src, "flags": ["-DVF_OPT=%d" % i], "deps": ["checks/st_common.hpp"]}
             for i in (0, 1, 4, 5, 6)]
    q, t = [], []
    # one-shot routes (+ blockers) on every option set, incremental routes on the label-linked ones
    q.append({"unit": "c04_opt0", "args": ["--part", "graphs", "--labels", "0,1,2,3", "--W", "1,2,3", "--dims", "0,1,2,3,4"], "shards": 4})
    q.append({"unit": "c04_opt5", "args": ["--part", "graphs", "--labels", "0,1,2,3", "--W", "1,2", "--dims", "1,2,3"]})
    q.append({"unit": "c04_opt4", "args": ["--part", "graphs", "--labels", "0,1,2,3", "--W", "1,2", "--dims", "0,1,2,3", "--orders", "1"], "shards": 4})
    q.append({"unit": "c04_opt6", "args": ["--part", "graphs", "--labels", "0,1,2,3", "--W", "1,2", "--dims", "2,3", "--orders", "0"], "shards": 2})
    q.append({"unit": "c04_opt1", "args": ["--part", "graphs", "--labels", "0,1,2,3", "--W", "1,2", "--dims", "2", "--orders", "0"]})
    for u in ("c04_opt0", "c04_opt4", "c04_opt6"):
        q.append({"unit": u, "args": ["--part", "graphs", "--labels", "0,1,2", "--vvals", "0,1", "--W", "1,2", "--dims", "0,1,2,3", "--orders", "2"]})
    for u in ("c04_opt4", "c04_opt6", "c04_opt1"):
        q.append({"unit": u, "args": ["--part", "graphs", "--labels", "0,2,5,9", "--W", "1", "--dims", "1,2,3", "--orders", "1"]})
    q.append({"unit": "c04_opt0", "args": ["--part", "rips", "--n", "4", "--dims", "1,2,3"]})
    q.append({"unit": "c04_opt0", "args": ["--part", "rips-points", "--n", "3", "--dims", "1,2"]})

    t.append({"unit": "c04_opt0", "args": ["--part", "graphs", "--labels", "0,1,2,3,4", "--W", "1,2", "--dims", "1,2,3,4"], "shards": 8, "timeout": 3000})
    t.append({"unit": "c04_opt5", "args": ["--part", "graphs", "--labels", "0,1,2,3", "--W", "1,2,3", "--dims", "1,2,3,4"], "shards": 2, "timeout": 3000})
    t.append({"unit": "c04_opt4", "args": ["--part", "graphs", "--labels", "0,1,2,3", "--W", "1,2,3", "--dims", "2", "--orders", "2"], "shards": 8, "timeout": 3000})
    t.append({"unit": "c04_opt4", "args": ["--part", "graphs", "--labels", "0,1,2,3,4", "--W", "1,2", "--dims", "2,3", "--orders", "0"], "shards": 8, "timeout": 3000})
    t.append({"unit": "c04_opt6", "args": ["--part", "graphs", "--labels", "0,1,2,3", "--W", "1,2,3", "--dims", "0,1,2,3", "--orders", "1"], "shards": 6, "timeout": 3000})
    t.append({"unit": "c04_opt1", "args": ["--part", "graphs", "--labels", "0,2,5,9", "--W", "1,2", "--dims", "1,2,3", "--orders", "1"], "shards": 2, "timeout": 3000})
    t.append({"unit": "c04_opt0", "args": ["--part", "graphs", "--labels", "0,1,2,3", "--vvals", "0,1", "--W", "1,2", "--dims", "1,2,3"], "shards": 2, "timeout": 3000})
    t.append({"unit": "c04_opt0", "args": ["--part", "rips", "--n", "5", "--D", "1,2", "--dims", "1,2,3,4"], "timeout": 3000})
    t.append({"unit": "c04_opt0", "args": ["--part", "rips-points", "--n", "4", "--dims", "1,2,3"], "shards": 4, "timeout": 3000})
    CHECKS["C04"] = {
        "units": units,
        "level": "model_checking",
        "engine": "E2 bounded-exhaustive input enumeration",
        "technique": "exhaustive enumeration of small weighted graphs x maximal dimensions x construction routes x edge insertion orders on the real Simplex_tree / Rips_complex, compared with brute-force clique enumeration",
        "level_text": ("every weighted graph on 4 vertices (weights {1,2,3}; thorough: 5 vertices, weights {1,2}), vertex-weighted and relabelled "
                       "variants, every maximal dimension, through insert_graph+expansion, expansion_with_blockers (never blocking and every "
                       "blocker set of <= 2 cliques), insert_edge_as_flag in filtration order / with vertices inserted lazily / in every "
                       "edge order (all permutations up to 4 edges quick, 6 thorough; a stated subset above) followed by "
                       "make_filtration_non_decreasing, and the Rips builders for every threshold; the whole tree is compared with the "
                       "clique complex after each route and added_simplices after each incremental call"),
        "level_note": "maximal dimension 0 is excluded for the one-shot routes (the tree already holds the 1-skeleton; the API gives it no meaning); trusted: ref::cliques, reference complex",
        "rule": "case = one weighted graph; ev.transitions = routes/incremental calls executed and fully compared; non-trivial = graph with >= 3 edges",
        "bounds": {"quick": "4 vertices, weights {1,2,3} (one-shot) / {1,2} (incremental), dims 0..4; 3 vertices with vertex values {0,1}; labels {0,2,5,9}; Rips from 4-point matrices and 3-point grid clouds",
                   "thorough": "5 vertices weights {1,2}; 4 vertices weights {1,2,3} with every edge permutation; Rips from 5-point matrices and 4-point clouds"},
        "assumptions": ["edge weight >= values of its endpoints (monotone input)", "insert_edge_as_flag: vertices before their edges, no existing edge re-inserted (documented)"],
        "runs": {"quick": q, "thorough": t},
    }
