"""C09 registry entry: general (base) matrices behave as dense matrices, whatever the column representation."""

CT = ["list", "set", "heap", "vector", "naive_vector", "small_vector", "unordered_set", "intrusive_list", "intrusive_set"]
NPARTS = 2   # part 0 = the 25 Z_2 shapes, part 1 = the 25 Z_p shapes of a column type
SRC = "checks/c09_base_matrix.cpp"
DEPS = ["checks/c09_common.hpp"]
# template-heavy units (10 option shapes each): -O0 keeps a unit at ~35 s of compile time; the sanitizers stay on
FLAGS = ["-std=c++17", "-O0", "-fno-access-control", "-fno-omit-frame-pointer", "-fsanitize=address,undefined",
         "-fno-sanitize-recover=undefined", "-DNDEBUG", "-Wno-deprecated-declarations"]


def register(CHECKS, H):
    CHECKS["C09"] = C09()


def unit_name(ct, part):
    return "c09_%s_p%d" % (CT[ct], part)


def units():
    us = []
    for ct in range(9):
        for part in range(NPARTS):
            us.append({"name": unit_name(ct, part), "src": SRC, "deps": DEPS, "base_flags": FLAGS,
                       "flags": ["-DVF_CT=%d" % ct, "-DVF_PART=%d" % part, "-DVF_NPARTS=%d" % NPARTS]})
    return us


FAMILIES = ["noswap", "comp", "norows&.swaps", "introws&.swaps", "setrows&.swaps"]


def runs(tier):
    rs = []
    for ct in range(9):
        heap = CT[ct] == "heap"
        z2, zp = unit_name(ct, 0), unit_name(ct, 1)

        def add(u, args, cores=1, timeout=None):
            r = {"unit": u, "args": [str(a) for a in args] + ["--workers", str(cores)], "cores": cores,
                 "timeout": timeout or 900}
            rs.append(r)
        if tier == "quick":
            if heap:
                # lazy sums: the reachable heap layouts only close on the smallest universe
                for fam in ("noswap", ".swaps"):
                    add(z2, ["--P", 2, "--R", 2, "--C", 2, "--only", fam, "--budget", 500], 2)
                    add(zp, ["--P", 3, "--R", 2, "--C", 2, "--only", fam, "--depth", 3, "--budget", 500])
            else:
                for fam in FAMILIES:
                    sw = fam.endswith(".swaps")
                    add(z2, ["--P", 2, "--R", 2 if sw else 3, "--C", 2, "--only", fam, "--budget", 500])
                    add(zp, ["--P", 3, "--R", 2, "--C", 2, "--only", fam, "--budget", 500] + (["--depth", 3] if sw else []))
        else:
            if heap:
                for fam in ("noswap", ".swaps"):
                    add(z2, ["--P", 2, "--R", 3, "--C", 2, "--only", fam, "--depth", 5, "--budget", 1200, "--validate", 200], 2, 2400)
                    add(z2, ["--P", 2, "--R", 2, "--C", 3, "--only", fam, "--depth", 6, "--budget", 1200], 2, 2400)
                    add(zp, ["--P", 3, "--R", 2, "--C", 2, "--only", fam, "--depth", 5, "--budget", 1200, "--validate", 200], 2, 2400)
            else:
                for fam in FAMILIES:
                    sw = fam.endswith(".swaps")
                    # merge validation and the extra coefficients (-1, 2, 4: reduced by the facade) go with the shapes
                    # whose state space is small; the shapes with swaps and rows dominate the cost of the tier
                    add(z2, ["--P", 2, "--R", 3, "--C", 2, "--only", fam, "--budget", 1500] +
                        ([] if sw else ["--coefs", "0,1,-1,2", "--validate", 200]), 2, 2400)
                    add(zp, ["--P", 3, "--R", 2, "--C", 2, "--only", fam, "--budget", 1500] +
                        ([] if sw else ["--coefs", "0,1,2,-1,4", "--validate", 200]), 2, 2400)
                    if not sw:
                        add(z2, ["--P", 2, "--R", 3, "--C", 3, "--only", fam, "--budget", 1500], 2, 2400)
                        add(zp, ["--P", 3, "--R", 3, "--C", 2, "--only", fam, "--depth", 4 if fam == "noswap" else 3,
                                 "--budget", 1500], 2, 2400)
                        add(zp, ["--P", 5, "--R", 2, "--C", 2, "--coefs", "0,1,2,3,4", "--only", fam, "--depth", 4,
                                 "--budget", 1500], 2, 2400)
    return rs


def C09():
    return {
        "units": units(),
        "level": "model_checking",
        "engine": "E1 history explorer",
        "technique": ("explicit-state BFS (with closure) of operation histories on the real Gudhi::persistence_matrix::Matrix in its base and "
                      "column-compressed flavours, one fresh matrix per history, every read interface compared with a dense reference "
                      "matrix (plus the partition of column indices for the compressed variant) after every transition"),
        "level_text": ("for each of the 408 compilable option sets (9 column types x {Z_2, Z_p} x {no row access, 4 row-access kinds} x "
                       "{vector, map column container} x {swaps off, on}, plus column compression x 5 row kinds; heap has neither rows nor "
                       "compression) every finite history over the stated universe is covered by a fixpoint of the reachable canonical-state "
                       "set (model state + complete column internals + lazy swap maps + row containers), or, where stated, every history up "
                       "to the completed depth; at every state get_number_of_columns, is_zero_column, is_zero_entry for every entry, "
                       "get_content (given and default length) of every column, every row of the row container and representative sharing "
                       "are compared with the dense model. This is the level the for-all-histories quantifier needs; larger matrices, larger "
                       "characteristics and deeper histories where only a depth bound is completed are not covered"),
        "level_note": ("trusted: the 150-line dense model in checks/c09_common.hpp, the canonical key (validated by merge validation in the "
                       "thorough tier), g++/ASan/UBSan. Every history runs in an executor child process, so that a sanitizer abort or an "
                       "endless loop is reported as a class C09:crash:... of that history and the exploration continues; a situation the "
                       "code has no dedicated path for (null representative of the empty class, source and target in one class, swap of a "
                       "row the maps do not know) that already killed the executor three times in one worker is counted "
                       "(not_executed.assumed_crash.*) instead of executed again"),
        "rule": ("explicit-state BFS over operation histories of the real Matrix (fresh object per history), deduplicated on (dense model, "
                 "class partition, rows known to the swap maps, storage order / lazy state of every column, swap maps and rowSwapped_, row "
                 "containers, union-find arrays); a state whose last transition disagreed with the model is not expanded; "
                 "distinct_nontrivial = distinct canonical states reached; evaluations = histories executed on the real code"),
        "bounds": {
            "quick": ("Z_2: 3 rows x <=2 columns, all finite histories (closure) for the shapes without swaps and the compressed ones; "
                      "2 rows x <=2 columns closure for the shapes with swaps; Z_3: 2 rows x <=2 columns, coefficients 0,1,2: closure "
                      "without swaps / compressed, depth 3 with swaps; heap columns: 2 rows x <=2 columns, closure over Z_2, depth 3 over Z_3"),
            "thorough": ("Z_2: 3 rows x <=2 columns closure for every shape (merge validation and coefficients 0,1,-1,2 for the shapes "
                         "without swaps / compressed) and 3 rows x <=3 columns closure for the shapes without swaps / compressed; Z_3: 2 rows "
                         "x <=2 columns closure for every shape (coefficients 0,1,2,-1,4 and merge validation without swaps / compressed); "
                         "3 rows x <=2 columns depth 4 (compressed: 3) and Z_5 2 rows x <=2 columns depth 4 without swaps / compressed; heap: "
                         "Z_2 3x2 depth 5, 2x3 depth 6, Z_3 2x2 depth 5; a universe that does not close inside its time budget is reported "
                         "as incomplete"),
        },
        "assumptions": [
            "documented preconditions only: insert_column(c, i) needs an index with no live column; erase_empty_row needs an empty row; "
            "remove_column / remove_last may name an index without column ('considered as an empty column'); source and target of an "
            "addition are different indices; entry ranges are sorted by row index",
            "columns that do not exist (holes left by insert_column(c, i) or remove_column) are never read or used as operands; "
            "get_number_of_columns is compared with the number of stored columns (map container) resp. the next insertion index (vector container)",
            "with has_column_and_row_swaps, row indices are only used once the matrix can know them (they appeared in an inserted column, "
            "or were swapped with such a row): the deciding alphabet never names another row in zero_entry, is_zero_entry, erase_empty_row "
            "or in an entry range; swap_rows itself is called with every pair because the code has explicit branches for unknown rows",
            "get_row(r) is only called when the row container has an entry for r; a row without entry must be a zero row of the model",
            "compressed variant: columns inserted empty are singleton classes (null representative); a class emptied by an addition stays one class",
            "self addition add_to(i, i) is documented neither way and is not generated",
            "small scope: at most 3 rows, 3 columns, characteristics 2, 3, 5",
        ],
        "runs": {"quick": runs("quick"), "thorough": runs("thorough")},
    }
