"""C09 registry entry: general (base) matrices behave as dense matrices, whatever the column representation."""

CT = ["list", "set", "heap", "vector", "naive_vector", "small_vector", "unordered_set", "intrusive_list", "intrusive_set"]
NPARTS = 2   # part 0 = the 25 Z_2 shapes, part 1 = the 25 Z_p shapes of a column type
SRC = "checks/c09_base_matrix.cpp"
DEPS = ["checks/c09_common.hpp"]
# template-heavy units (10 option shapes each): -O0 keeps a unit at ~35 s of compile time; the sanitizers stay on
FLAGS = ["-std=c++17", "-O0", "-fno-access-control", "-fno-omit-frame-pointer", "-fsanitize=address,undefined",
         "-fno-sanitize-recover=undefined", "-DNDEBUG", "-Wno-deprecated-declarations"]


def register(CHECKS, H):
    CHECKS["C09"] = C09()


def unit_name(ct, part):
    return "c09_%s_p%d" % (CT[ct], part)


def units():
    us = []
    for ct in range(9):
        for part in range(NPARTS):
            us.append({"name": unit_name(ct, part), "src": SRC, "deps": DEPS, "base_flags": FLAGS,
                       "flags": ["-DVF_CT=%d" % ct, "-DVF_PART=%d" % part, "-DVF_NPARTS=%d" % NPARTS]})
    return us


FAMILIES = ["noswap", "comp", "norows&.swaps", "introws&.swaps", "setrows&.swaps"]


def runs(tier):
    rs = []
    for ct in range(9):
        heap = CT[ct] == "heap"
        z2, zp = unit_name(ct, 0), unit_name(ct, 1)

        def add(u, args, cores=1, timeout=None):
            r = {"unit": u, "args": [str(a) for a in args] + ["--workers", str(cores)], "cores": cores}
            if timeout:
                r["timeout"] = timeout
            rs.append(r)
        if tier == "quick":
            if heap:
                # lazy sums: the reachable heap layouts only close on the smallest universe
                for fam in ("noswap", ".swaps"):
                    add(z2, ["--P", 2, "--R", 2, "--C", 2, "--only", fam, "--budget", 110], 2)
                    add(zp, ["--P", 3, "--R", 2, "--C", 2, "--only", fam, "--depth", 3, "--budget", 110])
            else:
                for fam in FAMILIES:
                    sw = fam.endswith(".swaps")
                    add(z2, ["--P", 2, "--R", 2 if sw else 3, "--C", 2, "--only", fam, "--budget", 110])
                    add(zp, ["--P", 3, "--R", 2, "--C", 2, "--only", fam, "--budget", 110] + (["--depth", 3] if sw else []))
        else:
            if heap:
                for fam in ("noswap", ".swaps"):
                    add(z2, ["--P", 2, "--R", 3, "--C", 2, "--only", fam, "--depth", 5, "--budget", 1200, "--validate", 200], 2, 2400)
                    add(z2, ["--P", 2, "--R", 2, "--C", 3, "--only", fam, "--depth", 6, "--budget", 1200], 2, 2400)
                    add(zp, ["--P", 3, "--R", 2, "--C", 2, "--only", fam, "--depth", 5, "--budget", 1200, "--validate", 200], 2, 2400)
            else:
                for fam in FAMILIES:
                    sw = fam.endswith(".swaps")
                    add(z2, ["--P", 2, "--R", 3, "--C", 2, "--only", fam, "--budget", 1500, "--validate", 200], 2, 2400)
                    add(zp, ["--P", 3, "--R", 2, "--C", 2, "--coefs", "0,1,2,-1,4", "--only", fam, "--budget", 1500,
                             "--validate", 200], 2, 2400)
                    if not sw:
                        add(z2, ["--P", 2, "--R", 3, "--C", 3, "--only", fam, "--budget", 1500], 2, 2400)
                        add(zp, ["--P", 3, "--R", 3, "--C", 2, "--only", fam, "--depth", 4, "--budget", 1500], 2, 2400)
                        add(zp, ["--P", 5, "--R", 2, "--C", 2, "--coefs", "0,1,2,3,4", "--only", fam, "--depth", 5,
                                 "--budget", 1500], 2, 2400)
    return rs


def C09():
    return {
        "units": units(),
        "level": "model_checking",
        "engine": "E1 history explorer",
        "technique": "explicit-state BFS of operation histories on the real Matrix (base and column-compressed flavours) with a dense reference matrix compared at every state",
        "level_text": "(filled in below)",
        "level_note": "",
        "rule": "",
        "bounds": {"quick": "", "thorough": ""},
        "assumptions": [],
        "runs": {"quick": runs("quick"), "thorough": runs("thorough")},
    }
