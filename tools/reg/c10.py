"""C10 registry entry: coefficient fields implement exact modular arithmetic."""


def register(CHECKS, H):
    CHECKS["C10"] = C10()


SRC = "checks/c10_fields.cpp"
DEPS = ["checks/c10_common.hpp"]
GMP = ["-lgmpxx", "-lgmp"]
# a few small-multi-field paths divide by zero; the harness turns the hardware trap into a mismatch of its own class
# and goes on enumerating, so UBSan's own (fatal) report of that one kind is switched off in those units
NO_DIV0 = ["-fno-sanitize=integer-divide-by-zero"]


def unit(name, part, extra=()):
    return {"name": name, "src": SRC, "flags": ["-DC10_PART=%d" % part] + list(extra), "deps": DEPS, "libs": GMP}


def C10():
  units = [
      unit("c10_zp", 1),
      unit("c10_zpct0", 2, ["-DC10_CT_SET=0"]),
      unit("c10_zpct1", 2, ["-DC10_CT_SET=1"]),
      unit("c10_mf", 3),
      unit("c10_mfs", 4, NO_DIV0),
      unit("c10_mfct", 5),
      unit("c10_mfsct0", 6, ["-DC10_CT_SET=0"] + NO_DIV0),
      unit("c10_mfsct1", 6, ["-DC10_CT_SET=1"] + NO_DIV0),
      unit("c10_mfsct2", 6, ["-DC10_CT_SET=2"] + NO_DIV0),
  ]
  return {
    "units": units,
    "level": "model_checking",
    "engine": "E2 bounded-exhaustive input enumeration",
    "technique": ("exhaustive enumeration of (class, characteristic or prime range, operands, sub-product Q) on the real coefficient "
                  "classes; every public arithmetic method / operator compared with exact integer arithmetic (__int128 or GMP "
                  "integers) reduced afterwards; partial inverse and partial identity checked prime by prime"),
    "level_text": ("all 17 coefficient classes (Z_2, Z_p, multi-field; element / shared / operators / small variants; the two cohomology "
                   "classes) are driven through every public arithmetic entry point for every operand tuple of the stated scope: all "
                   "triples for small characteristics, all pairs for medium ones, the boundary operand cube, every x for the inverse, "
                   "every x and every sub-product Q for the partial inverse, integer conversions around 0, +-P, +-2P and the ends of "
                   "each integer type. This is exhaustive inside the bound; characteristics and ranges outside the listed ones are not "
                   "covered"),
    "level_note": ("trusted: the 60-line integer oracle (floor modulus on __int128 / GMP mpz, trial-division primes), g++/ASan/UBSan; "
                   "shared-characteristic classes are exercised as histories initialize(p1) .. initialize(p2) inside one process, the "
                   "replay case carries the previous characteristic; the re-ranging histories (depth 4: set A, ask, set B, ask) use a "
                   "fresh object each"),
    "rule": ("one evaluation = one public call (or operator expression) on the real class compared with the integer oracle; "
             "distinct inputs = (class, characteristic, operand tuple[, Q]); non-trivial = tuples where a reduction really happens "
             "(sum >= P, a < b, product >= P), raw integers outside [0,P), refused characteristics, partial inverses with T != Q or "
             "Q != P, partial identities with Q != P"),
    "bounds": {
        "quick": ("Z_p run-time classes and Field_Zp: every prime <= 1009 plus 32749, 46337, 65521 (boundary operand cube, every x for "
                  "the inverse, conversions), all operand triples for p <= 47, all pairs for p <= 257, full conversion interval "
                  "[-2p-1,2p+1] for p <= 61; compile-time Zp_field_element: 22 primes (2..47, 251, 257, 32749, 32771, 46337, 65519, "
                  "65521); refusal of every non-prime <= 1000 and 8 larger composites; Z_2 classes: all triples over 5 unsigned types; "
                  "multi-fields: every range [a,b] <= 48 with product <= 2310 (all x, all sub-products Q; all triples for P <= 35, all "
                  "pairs for P <= 210) plus [2,13], [2,23], [3,29], [3,30], [2,37], [2,47], [2,100], [2,541], [65519,65521], "
                  "[65519,65539], [32749,32771] with boundary / structured operands wherever the product fits the element type (all "
                  "three small run-time classes and the compile-time one up to P = 3234846615 >= 2^31); re-ranging histories on the "
                  "five run-time multi-field classes: one object (or the shared static state) set to range A, asked a partial "
                  "identity or partial inverse for Q, changed to range B (set_characteristic / assignment / swap / initialize), "
                  "asked again for the same Q - every ordered pair (A,B) of the prime-ended ranges with product <= 2310, every "
                  "common sub-product Q, both request kinds before and after"),
        "thorough": ("as quick with all triples for p <= 211 (run-time classes, Field_Zp) and for the compile-time primes <= 257, all "
                     "pairs for every prime <= 1009, full conversion interval for p <= 257, boundary primes 32749, 32771, 46337, "
                     "65519, 65521; multi-fields: all triples for P <= 110 (GMP classes) / P <= 210 (native small classes), all pairs "
                     "for P <= 2310 (native small classes) / P <= 1155 (the three GMP classes and the cohomology Multi_field)"),
    },
    "assumptions": [
        "documented preconditions only: fused methods marked 'not overflow safe' are called only when the exact value fits the "
        "element type; signed raw integers are only used with types able to hold the characteristic; the small multi-field "
        "classes are set to every listed range whose product fits the element type (P < 2^32 for unsigned int, P >= 2^31 "
        "included), their fused 'not overflow safe' methods only where the exact value fits; elements do not "
        "survive a change of a shared characteristic; inverse of 0 in a field is not compared",
        "small scope: primes <= 1009 plus 5 boundary primes below 2^16; prime ranges with product <= 2310 plus 11 larger ones",
        "non-default Unsigned_integer_type of the compile-time classes (Zp_field_element<p,U>, Multi_field_element_with_small_"
        "characteristics<a,b,U>): get_inverse, get_partial_inverse, the identities and get_partial_multiplicative_identity do not "
        "compile there (they name the default-type class), so those families are checked on constructors / conversions, "
        "+ - * (element and raw operands), == !=, assignment, swap, move, cast and get_characteristic only; the evidence counter "
        "groups_without_get_inverse_identities_partial(...) counts them",
    ],
    "runs": {
        "quick": [
            {"unit": "c10_zp", "shards": 5, "cores": 1},
            {"unit": "c10_zpct0", "cores": 1},
            {"unit": "c10_zpct1", "cores": 1},
            {"unit": "c10_mf", "shards": 3, "cores": 1},
            {"unit": "c10_mfs", "cores": 1},
            {"unit": "c10_mfct", "cores": 1},
            {"unit": "c10_mfsct0", "cores": 1},
            {"unit": "c10_mfsct1", "cores": 1},
            {"unit": "c10_mfsct2", "cores": 1},
        ],
        "thorough": [
            {"unit": "c10_zp", "args": ["--t3", "211"], "shards": 5, "cores": 1, "timeout": 2400},
            {"unit": "c10_zpct0", "cores": 1, "timeout": 2400},
            {"unit": "c10_zpct1", "args": ["--t3", "257"], "cores": 1, "timeout": 2400},
            {"unit": "c10_mf", "args": ["--m2", "1155"], "shards": 6, "cores": 1, "timeout": 2400},
            {"unit": "c10_mfs", "args": ["--m3", "210"], "shards": 3, "cores": 1, "timeout": 2400},
            {"unit": "c10_mfct", "args": ["--m2", "1155"], "shards": 3, "cores": 1, "timeout": 2400},
            {"unit": "c10_mfsct0", "args": ["--m3", "210"], "cores": 1, "timeout": 2400},
            {"unit": "c10_mfsct1", "args": ["--m3", "210"], "cores": 1, "timeout": 2400},
            {"unit": "c10_mfsct2", "cores": 1, "timeout": 2400},
        ],
    },
  }
