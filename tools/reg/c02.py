"""C02 registry entry."""


def register(CHECKS, H):
    units = [{"name": "c02_opt%d" % i, "src": "checks/c02_persistent_cohomology.cpp", "flags": ["-DVF_OPT=%d" % i],
              "libs": ["-lgmpxx", "-lgmp"], "deps": ["checks/st_common.hpp"]} for i in (0, 3)]
    quick = []
    for u in ("c02_opt0", "c02_opt3"):
        quick.append({"unit": u, "args": ["--part", "simplicial", "--nverts", "3", "--F", "0,1,2,3"]})
        quick.append({"unit": u, "args": ["--part", "simplicial", "--nverts", "4", "--F", "0,1"], "shards": 2})
    quick.append({"unit": "c02_opt0", "args": ["--part", "hasse", "--nverts", "3", "--F", "0,1,2"]})
    quick.append({"unit": "c02_opt0", "args": ["--part", "delta", "--maxt", "1"], "shards": 6})
    # one vertex, two loops, two triangles: the smallest scope with Z/2 and Z/3 torsion interacting in the multi-field
    # (a seeded change in the partial inverse only showed here)
    quick.append({"unit": "c02_opt0", "args": ["--part", "delta", "--maxv", "1", "--maxe", "2", "--maxt", "2"], "shards": 2})
    quick.append({"unit": "c02_opt0", "args": ["--part", "surfaces"], "shards": 2})
    # forests on 6 vertices, edges entering one at a time: union-find merges of components of rank >= 2 (seed C02_4)
    quick.append({"unit": "c02_opt0", "args": ["--part", "forest", "--nverts", "6", "--maxe", "5"], "shards": 8})
    thorough = []
    for u in ("c02_opt0", "c02_opt3"):
        thorough.append({"unit": u, "args": ["--part", "simplicial", "--nverts", "4", "--F", "0,1,2"], "shards": 8,
                         "timeout": 3000})
    thorough.append({"unit": "c02_opt0", "args": ["--part", "hasse", "--nverts", "4", "--F", "0,1"], "shards": 2})
    thorough.append({"unit": "c02_opt0", "args": ["--part", "delta", "--maxt", "2"], "shards": 16, "timeout": 3000})
    thorough.append({"unit": "c02_opt0", "args": ["--part", "surfaces"], "shards": 8, "timeout": 3000})
    for u in ("c02_opt0", "c02_opt3"):
        thorough.append({"unit": u, "args": ["--part", "forest", "--nverts", "6", "--maxe", "5"], "shards": 8, "timeout": 3000})
    CHECKS["C02"] = {
        "units": units,
        "level": "model_checking",
        "engine": "E2 bounded-exhaustive input enumeration",
        "technique": "exhaustive enumeration of all small filtered complexes x fields x options on the real Persistent_cohomology, compared with an independent column reduction over Z_p",
        "level_text": ("every monotone filtered simplicial complex on <= 4 vertices (quick: 4 values on 3 vertices, 2 on 4; thorough: 3 values "
                       "on 4 vertices), every small Delta-complex-like Hasse complex (<= 2 vertices, <= 3 edges incl. loops, <= 2 "
                       "triangles; contains Z/2 and Z/3 torsion) in every filtration order, every sequence of <= 5 distinct edges forming a forest on 6 labelled vertices (edges entering one at a time, two vertex birth orders), and RP^2 / the 7-vertex torus under "
                       "every lower-star filtration, for fields Z_p (p in 2,3 quick; 2..11 and 46337 thorough), multi-field ranges, "
                       "min_interval_length in {-1,0,1,2} and both values of persistence_dim_max; all read interfaces compared"),
        "level_note": "trusted: ref::persistence (60-line dense column reduction), GMP; small scope only - large complexes are not covered",
        "rule": ("each case = one filtered complex; on it the real engine is run for every (field, min_interval_length, "
                 "persistence_dim_max) combination (ev.transitions counts engine runs) and get_persistent_pairs, betti numbers, "
                 "persistent betti numbers, intervals_in_dimension and output_diagram are compared with the oracle on the order "
                 "exposed by filtration_simplex_range; non-trivial = complex of dimension >= 1 (resp. with a triangle)"),
        "bounds": {"quick": "3 vertices x values {0..3}; 4 vertices x values {0,1}; delta complexes with <= 1 triangle, and with 1 vertex, <= 2 loops, <= 2 triangles; RP^2/torus with vertex values in {0,1} and all 720 orders of RP^2; forests: 6 vertices, <= 5 edges, every edge order",
                   "thorough": "4 vertices x values {0,1,2} (153 367 complexes, 2 option sets); delta complexes with <= 2 triangles; surfaces with values {0,1,2} and all vertex orders; forests as in quick, both option sets"},
        "assumptions": ["filtration values are small integers", "Delta-complex-like Hasse complexes (loops, repeated faces) are accepted input: the engine only uses boundary_simplex_range"],
        "runs": {"quick": quick, "thorough": thorough},
    }
