"""C20 registry entry: Coxeter / Freudenthal-Kuhn triangulations (permutahedral representation, point location)."""


def register(CHECKS, H):
    CHECKS["C20"] = C20()


def C20():
    src = "checks/c20_coxeter.cpp"
    deps = ["checks/c20_common.hpp"]
    comb = "c20_comb"   # vertex/face/coface ranges, is_face_of           (no Eigen: builds in ~12 s)
    geom = "c20_geom"   # locate_point, cartesian_coordinates, barycenter  (Eigen + boost graph: ~45-60 s)
    return {
        "units": [
            {"name": comb, "src": src, "flags": ["-DVF_PART=1"], "deps": deps},
            {"name": geom, "src": src, "flags": ["-DVF_PART=2"], "deps": deps},
        ],
        "level": "model_checking",
        "engine": "E2 bounded-exhaustive input enumeration",
        "technique": ("exhaustive enumeration of every simplex around a lattice vertex (every base vertex of a small box x every "
                      "ordered set partition) and of every point of a rational grid / its 1e-10 and 1e-8 perturbations, executed "
                      "on the real Permutahedral_representation / Freudenthal_triangulation / Coxeter_triangulation and compared "
                      "with a definition-level reference of the Freudenthal-Kuhn triangulation in exact integer arithmetic"),
        "level_text": ("every simplex of every dimension with base vertex in {-1,0,1}^d, d <= 4 (thorough: also d = 5 with base in "
                       "{-1,0}^5), is observed through every read interface and compared with the chain-in-a-unit-cube definition "
                       "of the triangulation (faces = all vertex subsets, cofaces = brute-force supersets, is_face_of = vertex-set "
                       "inclusion for every pair); every point of the grid (1/6)Z^d in [-1,2]^d, of the 3^d-1 sign patterns of "
                       "1e-10 / 1e-8 perturbations around a coarser grid, and every simplex barycentre is located under 7 affine "
                       "maps x 3 scales and compared with exact rational point location. Small scope: nothing is claimed for "
                       "d > 5 or for ill-conditioned matrices"),
        "level_note": ("trusted: the ~250-line RefFK reference (c20_common.hpp) and the exact-rational point locator in the harness, "
                       "g++/ASan/UBSan; the harness reads the linear map back through matrix()/offset() (for Coxeter_triangulation "
                       "this is the only source of the map; its A~_d shape is checked separately)"),
        "rule": ("E2: one case = one simplex (all of vertex_range, face_range(k) for every k, facet_range, coface_range(l) for every "
                 "l, cofacet_range, is_face_of against the whole universe, face<->coface converse) or one located point (locate_point "
                 "[+ cartesian_coordinates of every vertex + barycenter for barycentre cases]); states = distinct cases; "
                 "transitions = API calls whose result was compared; distinct_nontrivial = simplex cases whose partition has >= 2 "
                 "parts and a part of size >= 2 (part merging and splitting both exercised) + located points whose exact carrier "
                 "has dimension < d (tie / tolerance branch of locate_point executed)"),
        "bounds": {
            "quick": ("combinatorics: d=1..4, base vertex in {-1,0,1}^d, all ordered set partitions of {0..d} (541 for d=4; the 150 "
                      "canonical ones get the full face/coface/is_face_of treatment, the others vertex_range/face_range only); "
                      "is_face_of for all ordered pairs (d<=3) / all pairs with one simplex based at 0 (d=4). "
                      "geometry: 7 affine maps x scales {1,0.5,3}; d=1..3: grid (1/6)Z^d in [-1,2]^d, perturbations +-1e-10 and "
                      "+-1e-8 (all sign patterns) around {-1,-1/2,0,1/3,1/2,1}^d, all barycentres; d=4: grid in [-1/2,3/2]^4, "
                      "perturbations around {-1/2,0,1/3,1}^4, all barycentres"),
            "thorough": ("combinatorics: quick scope with is_face_of on ALL ordered pairs of the d=4 universe (147.6 M), plus d=5 "
                         "with base vertex in {-1,0}^5 (all 4683 partitions, 1082 canonical). geometry: d=1..4 full grid "
                         "(1/6)Z^d in [-1,2]^d and the 6-value perturbation base; d=5: grid in [-1/2,3/2]^5, perturbations "
                         "around {-1/2,0,1/3,1}^5, barycentres of simplices based in {-1,0}^5"),
        },
        "assumptions": [
            "documented preconditions only: partition = ordered set partition of {0..d}; 0<=k<=dim for face_range, dim<=l<=d for "
            "coface_range, dim>0 for facet_range, dim<d for cofacet_range; invertible matrix; point of d coordinates",
            "coface_range / cofacet_range / is_face_of are only called on canonical representations (d in the last part): the coface "
            "iterator itself rejects anything else as 'not a permutahedral representation' and is_face_of would index vertex[d]",
            "tolerance reading of locate_point: a barycentric weight <= 5e-10 is negligible (must be dropped), >= 5e-9 is significant "
            "(must be kept); generated points never have a weight in between (documented/implemented tolerance 1e-9)",
            "parts of a located simplex are compared as sets (locate_point returns them unsorted; operator== is order-sensitive)",
            "small scope: d <= 4 (5 in the thorough tier), well-conditioned matrices with small integer / half-integer entries",
        ],
        "runs": {
            "quick": [
                {"unit": comb, "args": ["--dims", "1,2,3", "--pairs", "all"], "cores": 1},
                {"unit": comb, "args": ["--dims", "4", "--pairs", "base0"], "shards": 5, "cores": 1},
                {"unit": geom, "args": ["--dims", "1,2,3"], "shards": 2, "cores": 1},
                {"unit": geom, "args": ["--dims", "4", "--grid", "-3,9", "--pbase", "-3,0,2,6"], "shards": 6, "cores": 1},
            ],
            "thorough": [
                {"unit": comb, "args": ["--dims", "1,2,3", "--pairs", "all"], "cores": 1, "timeout": 1200},
                {"unit": comb, "args": ["--dims", "4", "--pairs", "all"], "shards": 6, "cores": 1, "timeout": 2400},
                {"unit": comb, "args": ["--dims", "5", "--bases", "-1,0", "--ubox", "-1,0", "--pairs", "base0"],
                 "shards": 10, "cores": 1, "timeout": 2400},
                {"unit": geom, "args": ["--dims", "1,2,3"], "shards": 2, "cores": 1, "timeout": 1200},
                {"unit": geom, "args": ["--dims", "4"], "shards": 6, "cores": 1, "timeout": 2400},
                {"unit": geom, "args": ["--dims", "5", "--grid", "-3,9", "--pbase", "-3,0,2,6", "--bbox", "-1,0"],
                 "shards": 10, "cores": 1, "timeout": 2400},
            ],
        },
    }
