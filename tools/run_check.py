#!/usr/bin/env python3
"""Build (by content hash of /repo headers), run, aggregate and report one property check.

  python3 tools/run_check.py C01 --tier quick|thorough
  python3 tools/run_check.py C01 --replay replays/C01/<file>.json
  python3 tools/run_check.py --build-all            (setup: build every unit for the current tree)

Exit 0: property held on everything explored (KNOWN-FINDING lines may be printed).
Exit 1: "VIOLATION property=<id> replay=<path>" printed.
Exit 2: engine error (build failure, non-reproducible mismatch, harness timeout) - never a verdict on the code.
"""
import concurrent.futures as cf
import glob
import hashlib
import json
import os
import re
import subprocess
import sys
import time

VERIF = os.path.dirname(os.path.dirname(os.path.abspath(__file__)))
REPO = os.environ.get("VERIF_REPO", "/repo")
sys.path.insert(0, os.path.join(VERIF, "tools"))
from registry import CHECKS, COMMON_FLAGS  # noqa: E402

BUILD = os.path.join(VERIF, "build")
NCPU = os.cpu_count() or 4


def include_dirs():
    return sorted(glob.glob(os.path.join(REPO, "src", "*", "include")))


_repo_hash = None


def repo_hash():
    global _repo_hash
    if _repo_hash is None:
        h = hashlib.sha256()
        for d in include_dirs():
            for root, dirs, files in os.walk(d):
                dirs.sort()
                for f in sorted(files):
                    p = os.path.join(root, f)
                    h.update(p.encode())
                    with open(p, "rb") as fh:
                        h.update(fh.read())
        _repo_hash = h.hexdigest()
    return _repo_hash


def engine_hash():
    h = hashlib.sha256()
    for p in sorted(glob.glob(os.path.join(VERIF, "engine", "*"))):
        with open(p, "rb") as fh:
            h.update(p.encode())
            h.update(fh.read())
    return h.hexdigest()


def unit_cmd(unit):
    cxx = unit.get("cxx", "g++")
    flags = list(unit.get("base_flags", COMMON_FLAGS)) + list(unit.get("flags", []))
    incs = ["-I" + os.path.join(VERIF, "engine")] + ["-I" + d for d in include_dirs()]
    incs += ["-isystem", "/usr/include/eigen3"]
    src = os.path.join(VERIF, unit["src"])
    libs = list(unit.get("libs", []))
    return cxx, flags, incs, src, libs


def unit_binary(unit):
    cxx, flags, incs, src, libs = unit_cmd(unit)
    h = hashlib.sha256()
    h.update(repo_hash().encode())
    h.update(engine_hash().encode())
    with open(src, "rb") as fh:
        h.update(fh.read())
    for extra in unit.get("deps", []):
        with open(os.path.join(VERIF, extra), "rb") as fh:
            h.update(fh.read())
    h.update(" ".join([cxx] + flags + libs).encode())
    return os.path.join(BUILD, "bin", "%s-%s" % (unit["name"], h.hexdigest()[:16]))


def build_unit(unit):
    out = unit_binary(unit)
    if os.path.exists(out):
        try:
            os.utime(out)  # mark as in use: the eviction below goes by age
        except OSError:
            pass
        return out, None
    os.makedirs(os.path.dirname(out), exist_ok=True)
    cxx, flags, incs, src, libs = unit_cmd(unit)
    tmp = out + ".tmp%d" % os.getpid()
    cmd = [cxx] + flags + incs + [src, "-o", tmp] + libs
    t0 = time.time()
    p = subprocess.run(cmd, stdout=subprocess.PIPE, stderr=subprocess.STDOUT, text=True)
    if p.returncode != 0:
        try:
            os.unlink(tmp)
        except OSError:
            pass
        return None, "build of %s failed (%s):\n%s" % (unit["name"], " ".join(cmd), p.stdout[-6000:])
    os.rename(tmp, out)
    # keep at most 2 binaries per unit name - but never evict one used in the last 6 hours: a concurrent run against
    # another checkout (VERIF_REPO) or another tier may still be executing it
    olds = sorted(glob.glob(os.path.join(BUILD, "bin", unit["name"] + "-????????????????")), key=os.path.getmtime)
    for o in olds[:-2]:
        try:
            if time.time() - os.path.getmtime(o) > 6 * 3600:
                os.unlink(o)
        except OSError:
            pass
    return out, "built %s in %.1fs" % (unit["name"], time.time() - t0)


def build_units(units):
    bins = {}
    errs = []
    with cf.ThreadPoolExecutor(max_workers=NCPU) as ex:
        futs = {ex.submit(build_unit, u): u for u in units}
        for f in cf.as_completed(futs):
            u = futs[f]
            out, msg = f.result()
            if out is None:
                errs.append(msg)
            else:
                bins[u["name"]] = out
                if msg:
                    print("[build] " + msg, flush=True)
    return bins, errs


def run_proc(binary, args, log, timeout):
    env = dict(os.environ)
    env["ASAN_OPTIONS"] = "detect_leaks=0:abort_on_error=1:halt_on_error=1:allocator_may_return_null=1:detect_stack_use_after_return=0"
    env["UBSAN_OPTIONS"] = "print_stacktrace=1:halt_on_error=1:abort_on_error=1"
    env["TSAN_OPTIONS"] = "halt_on_error=0:report_signal_unsafe=0"
    t0 = time.time()
    with open(log, "w") as lf:
        try:
            p = subprocess.run([binary] + args, stdout=subprocess.PIPE, stderr=lf, text=True, timeout=timeout, env=env,
                               cwd=VERIF, errors="replace")
            rc, out = p.returncode, p.stdout
        except subprocess.TimeoutExpired as e:
            rc, out = -999, (e.stdout.decode(errors="replace") if isinstance(e.stdout, bytes) else (e.stdout or ""))
    return rc, out, time.time() - t0


def parse_output(out):
    mism, crashes, stats = [], [], []
    for line in out.splitlines():
        try:
            if line.startswith("MISMATCH "):
                mism.append(json.loads(line[9:]))
            elif line.startswith("CRASH "):
                crashes.append(json.loads(line[6:]))
            elif line.startswith("STATS "):
                stats.append(json.loads(line[6:]))
        except json.JSONDecodeError:
            m = re.search(r'"cls":"([^"]*)"', line)
            c = re.search(r'"case":"([^"]*)"', line)
            rec = {"cls": m.group(1) if m else "unparsed", "case": c.group(1) if c else "", "detail": line[:3000]}
            (mism if line.startswith("MISMATCH") else crashes).append(rec)
    return mism, crashes, stats


def load_findings():
    p = os.path.join(VERIF, "known_findings.json")
    if not os.path.exists(p):
        return []
    with open(p) as fh:
        return json.load(fh).get("findings", [])


def match_finding(findings, prop, cls):
    for f in findings:
        if f.get("property") == prop and f.get("status") == "open" and re.fullmatch(f["match_cls"], cls):
            return f
    return None


def expand_runs(check, tier, bins):
    procs = []
    for r in check["runs"][tier]:
        shards = r.get("shards", 1)
        for s in range(shards):
            args = ["--tier", tier] + list(r.get("args", []))
            if shards > 1:
                args += ["--shard", "%d/%d" % (s, shards)]
            procs.append({"unit": r["unit"], "binary": bins[r["unit"]], "args": args, "cores": r.get("cores", 1),
                          "timeout": r.get("timeout", 600 if tier == "quick" else 3000)})
    return procs


def replay_case(binary, base_args, case, log):
    args = [a for a in base_args]
    # drop shard selection when replaying
    if "--shard" in args:
        i = args.index("--shard")
        del args[i:i + 2]
    rc, out, _ = run_proc(binary, args + ["--replay-case", case], log, 300)
    mism, crashes, _ = parse_output(out)
    return sorted(set([m["cls"] for m in mism] + ["CRASH:" + c.get("kind", "?") for c in crashes])), rc


def main():
    import argparse
    ap = argparse.ArgumentParser()
    ap.add_argument("prop", nargs="?")
    ap.add_argument("--tier", default=os.environ.get("VERIF_TIER", "quick"))
    ap.add_argument("--replay")
    ap.add_argument("--build-all", action="store_true")
    ap.add_argument("--no-evidence", action="store_true")
    a = ap.parse_args()
    seed = int(os.environ.get("VERIF_SEED", "0") or 0)

    if a.build_all:
        units = {}
        for cid, c in CHECKS.items():
            for u in c["units"]:
                units[u["name"]] = u
        bins, errs = build_units(list(units.values()))
        for e in errs:
            print("ENGINE-ERROR " + e)
        print("built %d units, %d errors" % (len(bins), len(errs)))
        return 2 if errs else 0

    prop = a.prop
    check = CHECKS[prop]
    t0 = time.time()
    bins, errs = build_units(check["units"])
    if errs:
        for e in errs:
            print("ENGINE-ERROR " + e)
        return 2

    os.makedirs(os.path.join(BUILD, "logs"), exist_ok=True)

    if a.replay:
        with open(a.replay) as fh:
            rp = json.load(fh)
        clss, rc = replay_case(bins[rp["unit"]], rp["args"], rp["case"], os.path.join(BUILD, "logs", prop + "-replay.err"))
        print("replay of %s: classes=%s rc=%d" % (a.replay, clss, rc))
        if clss:
            print("VIOLATION property=%s replay=%s" % (prop, a.replay))
            return 1
        return 0

    tier = a.tier
    procs = expand_runs(check, tier, bins)
    results = []
    # simple scheduler honouring 'cores'
    procs_sorted = sorted(range(len(procs)), key=lambda i: -procs[i]["cores"])
    running = {}
    free = NCPU
    with cf.ThreadPoolExecutor(max_workers=max(1, len(procs))) as ex:
        pending = list(procs_sorted)
        done_results = {}
        while pending or running:
            launched = False
            for i in list(pending):
                c = min(procs[i]["cores"], NCPU)
                if c <= free or not running:
                    free -= c
                    log = os.path.join(BUILD, "logs", "%s-%s-%d.err" % (prop, tier, i))
                    args = procs[i]["args"] + ["--seed", str(seed)]
                    fut = ex.submit(run_proc, procs[i]["binary"], args, log, procs[i]["timeout"])
                    running[fut] = (i, c, log)
                    pending.remove(i)
                    launched = True
            if running:
                done, _ = cf.wait(list(running.keys()), return_when=cf.FIRST_COMPLETED)
                for f in done:
                    i, c, log = running.pop(f)
                    free += c
                    done_results[i] = (f.result(), log)
        for i in range(len(procs)):
            results.append((procs[i], done_results[i][0], done_results[i][1]))

    findings = load_findings()
    agg = {"counters": {}, "max": {}, "distinct": {}, "samples": [], "mismatches": 0}
    violations = []   # (proc, record)
    known = {}
    engine_errors = []
    for proc, (rc, out, wall), log in results:
        mism, crashes, stats = parse_output(out)
        for st in stats:
            for k, v in st["counters"].items():
                agg["counters"][k] = agg["counters"].get(k, 0) + v
            for k, v in st["max"].items():
                agg["max"][k] = max(agg["max"].get(k, 0), v)
            for k, v in st["distinct"].items():
                agg["distinct"][k] = agg["distinct"].get(k, 0) + v
            for s in st["samples"]:
                if len(agg["samples"]) < 12:
                    agg["samples"].append(s)
            agg["mismatches"] += st["mismatches"]
        for m in mism:
            f = match_finding(findings, prop, m["cls"])
            if f:
                known.setdefault(f["id"], [f, 0, m])
                known[f["id"]][1] += 1
            else:
                violations.append((proc, m))
        for c in crashes:
            cls = "CRASH:" + c.get("kind", "?")
            f = match_finding(findings, prop, cls)
            if f:
                known.setdefault(f["id"], [f, 0, c])
                known[f["id"]][1] += 1
            else:
                violations.append((proc, {"cls": cls, "case": c.get("case", ""), "detail": "see " + log}))
        if rc == -999:
            engine_errors.append("harness %s %s exceeded its hard time limit (%ds)" % (proc["unit"], proc["args"], proc["timeout"]))
        elif rc != 0 and not crashes and not mism:
            tail = ""
            try:
                with open(log) as fh:
                    tail = fh.read()[-3000:]
            except OSError:
                pass
            violations.append((proc, {"cls": "CRASH:exit%d" % rc, "case": "(unknown: process died without breadcrumb)",
                                      "detail": tail}))
        elif not stats and rc == 0:
            engine_errors.append("harness %s produced no STATS" % proc["unit"])

    wall = time.time() - t0
    C = agg["counters"]
    # mismatch classes counted by the harness beyond the first five printed per class are already in mismatches
    confirmed = []
    incomplete_notes = []
    os.makedirs(os.path.join(VERIF, "replays", prop), exist_ok=True)
    seen_cls = set()
    for proc, m in violations:
        key = (proc["unit"], m["cls"])
        if key in seen_cls:
            continue
        seen_cls.add(key)
        # replay before report (twice)
        ok = True
        if not m["case"].startswith("(unknown"):
            for k in range(2):
                clss, rc = replay_case(proc["binary"], proc["args"], m["case"],
                                       os.path.join(BUILD, "logs", "%s-replaycheck.err" % prop))
                if m["cls"] not in clss:
                    ok = False
        if not ok:
            if m["cls"] == "CRASH:TIMEOUT":
                # a case that ran out of its watchdog under load but completes when replayed alone: the exploration is
                # incomplete (never called exhaustive), not a verdict on the code and not a nondeterminism of the engine
                incomplete_notes.append("watchdog expired on case %s but it completes when replayed alone" % m["case"][:300])
                continue
            engine_errors.append("mismatch %s not reproduced by replay of case %s" % (m["cls"], m["case"][:300]))
            continue
        hid = hashlib.sha1((proc["unit"] + m["cls"] + m["case"]).encode()).hexdigest()[:10]
        path = os.path.join(VERIF, "replays", prop, "%s-%s.json" % (re.sub(r"[^A-Za-z0-9_.-]+", "_", m["cls"])[:60], hid))
        with open(path, "w") as fh:
            json.dump({"property": prop, "unit": proc["unit"], "args": proc["args"], "case": m["case"], "cls": m["cls"],
                       "detail": m["detail"], "tier": tier}, fh, indent=1)
        confirmed.append((m, path))

    for fid, (f, n, m) in sorted(known.items()):
        print("KNOWN-FINDING: property=%s %s [%s; %d occurrence(s) this run; e.g. case %s]" % (prop, f["what"], fid, n, m.get("case", "")[:200]))

    states = int(C.get("ev.states", 0))
    transitions = int(C.get("ev.transitions", 0))
    traces = int(C.get("ev.traces", 0))
    evals = int(C.get("ev.evaluations", transitions))
    nontrivial = int(C.get("ev.nontrivial", states))
    incomplete = int(C.get("ev.incomplete", 0)) + len(incomplete_notes)
    ev = {
        "property_id": prop,
        "tier": tier,
        "seed": seed,
        "level": check.get("level", "model_checking"),
        "coverage": {
            "states": states,
            "transitions": transitions,
            "traces_validated_against_impl": traces,
            "evaluations": evals,
            "distinct_nontrivial": nontrivial,
            "rule": check["rule"],
            "samples": agg["samples"] or ["(none)"],
            "exhaustive": bool(incomplete == 0 and not engine_errors),
            "bounds": check.get("bounds", {}).get(tier, ""),
            "counters": {k: v for k, v in sorted(C.items())},
            "max": agg["max"],
            "distinct_values": agg["distinct"],
            "known_findings_seen": {fid: n for fid, (f, n, m) in known.items()},
            "processes": len(procs),
            "repo_headers_sha256": repo_hash(),
        },
        "assumptions": check.get("assumptions", []),
        "wall_s": round(wall, 2),
        "violations": len(confirmed),
    }
    if not a.no_evidence:
        os.makedirs(os.path.join(VERIF, "evidence"), exist_ok=True)
        with open(os.path.join(VERIF, "evidence", prop + ".json"), "w") as fh:
            json.dump(ev, fh, indent=1)
    print("%s %s: states=%d transitions=%d traces=%d evaluations=%d nontrivial=%d exhaustive=%s known=%d violations=%d wall=%.1fs"
          % (prop, tier, states, transitions, traces, evals, nontrivial, ev["coverage"]["exhaustive"], len(known),
             len(confirmed), wall), flush=True)
    for e in incomplete_notes:
        print("INCOMPLETE " + e)
    for e in engine_errors:
        print("ENGINE-ERROR " + e)
    if confirmed:
        for m, path in confirmed:
            print("  mismatch class %s: %s" % (m["cls"], m["detail"][:400]))
            print("VIOLATION property=%s replay=%s" % (prop, path))
        return 1
    if engine_errors:
        return 2
    return 0


if __name__ == "__main__":
    try:
        rc = main()
    except SystemExit:
        raise
    except BaseException as e:  # a failure of the machinery itself is never reported as exit 1 (= violation)
        import traceback
        traceback.print_exc()
        print("ENGINE-ERROR runner failed: %r" % (e,), flush=True)
        rc = 2
    sys.exit(rc)
