#!/usr/bin/env python3
"""Generate MANIFEST.json from tools/registry.py (claimed checks) + properties.jsonl (everything else -> not_applicable)."""
import json, os, sys
VERIF = os.path.dirname(os.path.dirname(os.path.abspath(__file__)))
sys.path.insert(0, os.path.join(VERIF, "tools"))
from registry import CHECKS, PENDING_REASON, NOT_APPLICABLE, CLAIMED  # noqa

props = [json.loads(l) for l in open(os.path.join(VERIF, "properties.jsonl"))]
checks = []
na = []
for p in props:
    pid = p["id"]
    c = CHECKS.get(pid)
    if c and pid in CLAIMED:
        checks.append({
            "property_id": pid,
            "quick_cmd": "python3 tools/run_check.py %s --tier quick" % pid,
            "thorough_cmd": "python3 tools/run_check.py %s --tier thorough" % pid,
            "evidence_file": "evidence/%s.json" % pid,
            "replay_cmd_template": "python3 tools/run_check.py %s --replay {path}" % pid,
            "engine": c.get("engine", "E1/E2 explicit-state explorer on the real code"),
            "level_claimed": {"category": c.get("level", "model_checking"), "text": c["level_text"],
                              "design_ref": c.get("design_ref", "DESIGN.md section 4 " + pid)},
            "level_note": c["level_note"],
            "technique": c["technique"],
        })
    else:
        na.append({"property_id": pid, "reason": NOT_APPLICABLE.get(pid, PENDING_REASON)})
m = {
    "version": 1,
    "setup_cmd": "python3 tools/run_check.py --build-all",
    "hooks": {
        "guard": "GUDHI_VERIF_HOOKS",
        "enable": "no source hooks exist: harnesses instantiate the header-only templates directly (g++ -fno-access-control, "
                  "ASan+UBSan) against /repo/src/*/include of the current working tree; the guard name is reserved only",
        "baseline_off_cmd": "cmake --build /repo/_build -j16 && ctest --test-dir /repo/_build -j8 --timeout 900",
        "source_commits": [],
        "add_only": True,
    },
    "engines": [
        {"name": "E1 history explorer", "path": "engine/explorer.hpp",
         "serves_properties": sorted(k for k, c in CHECKS.items() if "E1" in c.get("engine", "")),
         "kind_free_text": "level-synchronous BFS over operation histories executed on fresh real objects, canonical-key dedup, forked workers"},
        {"name": "E2 bounded-exhaustive input enumeration", "path": "checks/",
         "serves_properties": sorted(k for k, c in CHECKS.items() if "E2" in c.get("engine", "")),
         "kind_free_text": "complete enumeration of a small input scope, each input executed on the real code and compared with an independent oracle"},
        {"name": "E3 preemption-bounded scheduler", "path": "engine/sched.hpp", "serves_properties": ["C15"],
         "kind_free_text": "cooperative futex hand-off scheduler whose scheduling points are the replaced global operator new/delete; iterative context bounding (0, 1, 2 preemptions), every schedule in a forked child under a watchdog, compared with the sequential result; a free-running ThreadSanitizer build of the same bodies as a separate detector"},
    ],
    "checks": checks,
    "not_applicable": na,
    "notes": "All checks rebuild from /repo's current headers (content hash) before running. See DESIGN.md.",
}
json.dump(m, open(os.path.join(VERIF, "MANIFEST.json"), "w"), indent=1)
print("MANIFEST.json: %d checks, %d not_applicable" % (len(checks), len(na)))
