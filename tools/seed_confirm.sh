#!/bin/bash
# Confirm a seeded change delivered in /tmp/seed_out/<ID> and run the checks of its property against it.
#   tools/seed_confirm.sh C01_1 C01 ["extra check ids"]
# Uses the scratch worktree /tmp/seedwt (full test build of the current /repo HEAD) - never /repo itself, because other
# jobs may be reading /repo's headers at the same time.
set -u
ID=$1; PROP=$2; EXTRA=${3:-}
SRC=/tmp/seed_out/$ID
WT=/tmp/seedwt
OUT=/verif/seeded/$ID
mkdir -p $OUT
cp $SRC/patch.diff $SRC/demo.cpp $SRC/demo_build.sh $OUT/ 2>/dev/null
cp $SRC/notes.md $OUT/notes.md 2>/dev/null
cd $WT && git checkout -q -- . && git apply $SRC/patch.diff || { echo "PATCH DOES NOT APPLY"; exit 1; }
echo "== building tests with the change"
( cd $WT/_build && nice -n 5 cmake --build . -j 8 > $OUT/build.log 2>&1; echo "build rc=$?" ; ctest -j8 --timeout 900 > $OUT/ctest_with_change.log 2>&1 ; grep -E "tests passed|tests failed" $OUT/ctest_with_change.log; grep -A4 "The following tests FAILED" $OUT/ctest_with_change.log )
echo "== demo with the change (expect failure)"
( cd $OUT && timeout 600 bash ./demo_build.sh $WT > demo_with_change.log 2>&1; echo "demo rc with change=$?" )
echo "== checks against the changed tree"
touch $OUT/.stamp
for c in $PROP $EXTRA; do
  ( cd /verif && VERIF_REPO=$WT timeout 3000 python3 tools/run_check.py $c --tier quick --no-evidence > $OUT/check_$c.log 2>&1; echo "check $c rc=$?"; grep -E "VIOLATION|KNOWN|ENGINE|^C[0-9]+ quick" $OUT/check_$c.log | cut -c1-300 | head -8 )
done
for c in $PROP $EXTRA; do mkdir -p $OUT/replays; find /verif/replays/$c -newer $OUT/.stamp -type f -exec mv {} $OUT/replays/ \; 2>/dev/null; done
rm -f $OUT/.stamp
# a seeded change can reproduce the class of a repaired finding, whose committed replay file then has the same name: restore it
git -C /verif checkout -- replays 2>/dev/null
cd $WT && git checkout -q -- .
echo "== demo without the change (expect success)"
( cd $OUT && timeout 600 bash ./demo_build.sh /repo > demo_without_change.log 2>&1; echo "demo rc without change=$?" )
rm -f /verif/replays/*/*seedtmp* 2>/dev/null
