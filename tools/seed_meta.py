#!/usr/bin/env python3
"""Write seeded/<id>/meta.json from the logs left by seed_confirm.sh.  usage: seed_meta.py ID PROP "needs" "what" """
import json, os, re, sys
sid, prop, needs, what = sys.argv[1:5]
d = os.path.join('/verif/seeded', sid)
def rd(f):
    try: return open(os.path.join(d, f), errors='replace').read()
    except OSError: return ''
ct = rd('ctest_with_change.log')
m = re.search(r'(\d+)% tests passed, (\d+) tests failed out of (\d+)', ct)
failed = re.findall(r'^\s+\d+ - (\S+) \(', ct, re.M)
checks = {}
for f in sorted(os.listdir(d)):
    if f.startswith('check_') and f.endswith('.log'):
        t = rd(f)
        cid = f[6:-4]
        classes = sorted(set(re.findall(r'mismatch class ([^:]+:[^ ]+?):? ', t)))
        checks[cid] = {"violations_reported": len(re.findall(r'^VIOLATION', t, re.M)), "summary": (re.findall(r'^C\d+ quick:.*$', t, re.M) or [''])[0],
                       "mismatch_classes": [c.rstrip(':') for c in classes][:12], "detected": bool(re.search(r'^VIOLATION', t, re.M))}
meta = {
    "id": sid, "breaks_property": prop, "what_the_change_is": what, "needs_to_manifest": needs,
    "confirmed_by_lead": {
        "scratch_worktree": "/tmp/seedwt (full test build of /repo HEAD, patch applied, incremental rebuild)",
        "repository_tests_with_change": {"failed": failed, "summary": m.group(0) if m else "?",
                                         "note": "Edge_collapse_utilities_diff_persistence and Persistence_heat_maps_test_unit fail on the pristine tree too (BASELINE always_fail)"},
        "demo_with_change_rc": (re.findall(r'.*', rd('demo_with_change.log')) and None),
        "commands": ["tools/seed_confirm.sh %s %s" % (sid, prop)],
    },
    "checks_run_against_it": checks,
}
# demo return codes are printed by seed_confirm.sh to stdout; store the logs' tails instead
meta["confirmed_by_lead"]["demo_with_change_tail"] = rd('demo_with_change.log')[-400:]
meta["confirmed_by_lead"]["demo_without_change_tail"] = rd('demo_without_change.log')[-200:]
del meta["confirmed_by_lead"]["demo_with_change_rc"]
json.dump(meta, open(os.path.join(d, 'meta.json'), 'w'), indent=1)
print(json.dumps({k: v["detected"] for k, v in checks.items()}))
