#!/usr/bin/env python3
"""Regenerate section 11 of DESIGN.md (as-built scope per property) from tools/reg/*.py."""
import os, sys
V = os.path.dirname(os.path.dirname(os.path.abspath(__file__)))
sys.path.insert(0, os.path.join(V, 'tools'))
from registry import CHECKS, CLAIMED
B, E = "<!-- SEC11-BEGIN -->", "<!-- SEC11-END -->"
out = [B, "", "## 11. Per property, as built (generated from tools/reg/*.py by tools/gen_design_sec11.py; section 4 is the original plan)", ""]
for pid in sorted(CHECKS):
    c = CHECKS[pid]
    out.append("### %s%s" % (pid, "" if pid in CLAIMED else " (check exists, not yet claimed in MANIFEST.json)"))
    out.append("* **Engine / technique.** %s - %s" % (c.get("engine", "?"), c.get("technique", "")))
    b = c.get("bounds", {})
    out.append("* **Quick bound.** %s" % b.get("quick", ""))
    out.append("* **Thorough bound.** %s" % b.get("thorough", ""))
    out.append("* **Build units.** %s" % ", ".join(u["name"] for u in c["units"]))
    if c.get("assumptions"):
        out.append("* **Assumed (documented preconditions / scope).** " + " | ".join(c["assumptions"]))
    out.append("")
out.append(E)
p = os.path.join(V, 'DESIGN.md')
s = open(p).read()
if B in s:
    s = s[:s.index(B)] + "\n".join(out) + s[s.index(E) + len(E):]
else:
    s = s.rstrip("\n") + "\n\n" + "\n".join(out) + "\n"
open(p, 'w').write(s)
print("section 11 written (%d properties)" % len(CHECKS))
