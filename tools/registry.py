"""Registry of checks: build units and the runs of each tier.  Read by run_check.py."""

COMMON_FLAGS = [
    "-std=c++17", "-O1", "-g1", "-fno-access-control", "-fno-omit-frame-pointer",
    "-fsanitize=address,undefined", "-fno-sanitize-recover=undefined",
    "-DNDEBUG", "-Wno-deprecated-declarations",
]

ST_OPTS = ["default", "full_featured", "minimal", "fast_persistence", "fast_cofaces", "stable", "stable_fast_cofaces",
           "short_vertex"]


def st_units(prefix, src, extra=()):
    return [{"name": "%s_opt%d" % (prefix, i), "src": src, "flags": ["-DVF_OPT=%d" % i] + list(extra),
             "deps": ["checks/st_common.hpp"]} for i in range(len(ST_OPTS))]


CHECKS = {}
PENDING_REASON = "no check registered yet in this round (construction in progress, see DESIGN.md section 6); not a claim that model checking cannot apply"
NOT_APPLICABLE = {}
# checks reviewed by the lead and registered in MANIFEST.json (a reg/*.py file alone does not claim a property)
CLAIMED = ["C01", "C02", "C03", "C04", "C05", "C06", "C07", "C08", "C09", "C10", "C11", "C12", "C13", "C14", "C15", "C16", "C17", "C18", "C19", "C20"]


import glob as _glob
import importlib.util as _ilu
import os as _os

HELPERS = {"st_units": st_units, "ST_OPTS": ST_OPTS, "COMMON_FLAGS": COMMON_FLAGS}
for _p in sorted(_glob.glob(_os.path.join(_os.path.dirname(_os.path.abspath(__file__)), "reg", "c*.py"))):
    _spec = _ilu.spec_from_file_location("reg_" + _os.path.basename(_p)[:-3], _p)
    _m = _ilu.module_from_spec(_spec)
    _spec.loader.exec_module(_m)
    _m.register(CHECKS, HELPERS)
