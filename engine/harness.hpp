// Common harness support for every check binary: argument parsing, breadcrumb of the case being executed,
// crash / sanitizer / timeout capture, mismatch reporting, counters and samples.
//
// Output protocol on stdout (one record per line, each written with a single write(2)):
//   MISMATCH {"cls":..., "case":..., "detail":...}
//   CRASH {"kind":..., "case":...}
//   STATS {...}
// The python runner (tools/run_check.py) aggregates these lines.
#ifndef VF_HARNESS_HPP
#define VF_HARNESS_HPP

#include <algorithm>
#include <csignal>
#include <cstdint>
#include <cstdio>
#include <cstdlib>
#include <cstring>
#include <exception>
#include <map>
#include <set>
#include <sstream>
#include <string>
#include <vector>
#include <fcntl.h>
#include <sys/time.h>
#include <sys/wait.h>
#include <unistd.h>

namespace vf {

inline std::string json_escape(const std::string& s) {
  std::string o;
  o.reserve(s.size() + 8);
  for (unsigned char c : s) {
    switch (c) {
      case '"': o += "\\\""; break;
      case '\\': o += "\\\\"; break;
      case '\n': o += "\\n"; break;
      case '\t': o += "\\t"; break;
      case '\r': o += "\\r"; break;
      default:
        if (c < 0x20) { char b[8]; snprintf(b, sizeof b, "\\u%04x", c); o += b; }
        else o += (char)c;
    }
  }
  return o;
}

struct Args {
  std::string tier = "quick";
  int shard = 0, nshards = 1;
  std::string replay;   // a case string to replay (from a replay file), empty if none
  std::string config;   // optional configuration selector
  long seed = 0;
  double deadline_s = 1e18;  // soft deadline for the whole process (seconds since start)
  std::map<std::string, std::string> kv;
  bool thorough() const { return tier == "thorough"; }
  std::string get(const std::string& k, const std::string& d = "") const {
    auto it = kv.find(k);
    return it == kv.end() ? d : it->second;
  }
  long geti(const std::string& k, long d) const {
    auto it = kv.find(k);
    return it == kv.end() ? d : atol(it->second.c_str());
  }
};

inline Args parse_args(int argc, char** argv) {
  Args a;
  for (int i = 1; i < argc; ++i) {
    std::string s = argv[i];
    auto next = [&]() -> std::string { return (i + 1 < argc) ? std::string(argv[++i]) : std::string(); };
    if (s == "--tier") a.tier = next();
    else if (s == "--shard") { std::string v = next(); sscanf(v.c_str(), "%d/%d", &a.shard, &a.nshards); }
    else if (s == "--replay-case") a.replay = next();
    else if (s == "--config") a.config = next();
    else if (s == "--seed") a.seed = atol(next().c_str());
    else if (s == "--deadline") a.deadline_s = atof(next().c_str());
    else if (s.rfind("--", 0) == 0) { std::string k = s.substr(2); a.kv[k] = next(); }
  }
  return a;
}

// ---------------------------------------------------------------------------------------------------------------
// breadcrumb + crash capture
// ---------------------------------------------------------------------------------------------------------------
static char g_case[8192] = "(none)";
static volatile int g_case_timeout = 20;  // seconds per case
static bool g_in_case = false;
static volatile bool g_probe_child = false;  // set in a forked probe: crashes are the parent's observation, stay silent

inline void emit_line(const std::string& line) {
  std::string l = line;
  if (l.size() > 3900) { l.resize(3900); l += "...\"}"; }
  l += "\n";
  ssize_t r = write(1, l.data(), l.size());
  (void)r;
}

inline void set_case(const std::string& c) {
  size_t n = std::min(c.size(), sizeof(g_case) - 1);
  memcpy(g_case, c.data(), n);
  g_case[n] = 0;
  g_in_case = true;
  // watchdog: g_case_timeout seconds of CPU time of this process (immune to machine load), and a generous wall-clock
  // limit for a case that blocks without consuming CPU
  struct itimerval tv;
  memset(&tv, 0, sizeof tv);
  tv.it_value.tv_sec = g_case_timeout;
  setitimer(ITIMER_PROF, &tv, nullptr);
  alarm(g_case_timeout * 30);
}
inline void end_case() {
  g_in_case = false;
  struct itimerval tv;
  memset(&tv, 0, sizeof tv);
  setitimer(ITIMER_PROF, &tv, nullptr);
  alarm(0);
}

inline void crash_out(const char* kind) {
  if (g_probe_child) return;
  // async-signal-safe-ish: only write(2) on preformatted buffers
  static char buf[9000];
  size_t p = 0;
  auto put = [&](const char* s) { while (*s && p < sizeof(buf) - 2) buf[p++] = *s++; };
  put("CRASH {\"kind\":\"");
  put(kind);
  put("\",\"case\":\"");
  for (const char* s = g_case; *s && p < sizeof(buf) - 8; ++s) {
    if (*s == '"' || *s == '\\') buf[p++] = '\\';
    buf[p++] = (*s == '\n') ? ' ' : *s;
  }
  put("\"}\n");
  ssize_t r = write(1, buf, p);
  (void)r;
}

inline void on_signal(int sig) {
  const char* k = "signal";
  switch (sig) {
    case SIGSEGV: k = "SIGSEGV"; break;
    case SIGABRT: k = "SIGABRT"; break;
    case SIGFPE: k = "SIGFPE"; break;
    case SIGBUS: k = "SIGBUS"; break;
    case SIGILL: k = "SIGILL"; break;
    case SIGALRM: k = "TIMEOUT"; break;
    case SIGPROF: k = "TIMEOUT"; break;
  }
  crash_out(k);
  _exit(g_probe_child ? 77 : ((sig == SIGALRM || sig == SIGPROF) ? 4 : 3));
}

inline void on_terminate() {
  std::string what = "terminate";
  if (auto e = std::current_exception()) {
    try { std::rethrow_exception(e); }
    catch (const std::exception& ex) { what = std::string("uncaught exception: ") + ex.what(); }
    catch (...) { what = "uncaught non-std exception"; }
  }
  std::string k;
  for (char c : what) k += (c == '"' || c == '\\' || c == '\n') ? ' ' : c;
  crash_out(k.c_str());
  _exit(3);
}

inline void install_handlers() {
  for (int s : {SIGSEGV, SIGABRT, SIGFPE, SIGBUS, SIGILL, SIGALRM, SIGPROF}) signal(s, on_signal);
  std::set_terminate(on_terminate);
}

// ---------------------------------------------------------------------------------------------------------------
// counters, samples, mismatches
// ---------------------------------------------------------------------------------------------------------------
struct Stats {
  std::map<std::string, long long> c;          // additive counters
  std::map<std::string, long long> mx;         // max counters
  std::map<std::string, std::set<std::string>> sets;  // small distinct-value sets (merged by union, capped)
  std::vector<std::string> samples;
  std::map<std::string, long long> mism_by_class;
  long long mismatches = 0;
  void add(const std::string& k, long long v = 1) { c[k] += v; }
  void maxi(const std::string& k, long long v) { auto& r = mx[k]; if (v > r) r = v; }
  void distinct(const std::string& k, const std::string& v, size_t cap = 100000) {
    auto& s = sets[k];
    if (s.size() < cap) s.insert(v);
  }
  void sample(const std::string& s, size_t cap = 6) { if (samples.size() < cap) samples.push_back(s); }
};

inline Stats& stats() { static Stats s; return s; }

inline void mismatch(const std::string& cls, const std::string& detail) {
  Stats& s = stats();
  s.mismatches++;
  long long& n = s.mism_by_class[cls];
  n++;
  if (n <= 5) {
    emit_line("MISMATCH {\"cls\":\"" + json_escape(cls) + "\",\"case\":\"" + json_escape(g_case) +
              "\",\"detail\":\"" + json_escape(detail) + "\"}");
  }
}

inline std::string stats_json(const Stats& s) {
  std::ostringstream o;
  o << "{\"counters\":{";
  bool f = true;
  for (auto& kv : s.c) { o << (f ? "" : ",") << "\"" << json_escape(kv.first) << "\":" << kv.second; f = false; }
  o << "},\"max\":{";
  f = true;
  for (auto& kv : s.mx) { o << (f ? "" : ",") << "\"" << json_escape(kv.first) << "\":" << kv.second; f = false; }
  o << "},\"distinct\":{";
  f = true;
  for (auto& kv : s.sets) { o << (f ? "" : ",") << "\"" << json_escape(kv.first) << "\":" << kv.second.size(); f = false; }
  o << "},\"mismatch_classes\":{";
  f = true;
  for (auto& kv : s.mism_by_class) { o << (f ? "" : ",") << "\"" << json_escape(kv.first) << "\":" << kv.second; f = false; }
  o << "},\"mismatches\":" << s.mismatches << ",\"samples\":[";
  f = true;
  for (auto& x : s.samples) { o << (f ? "" : ",") << "\"" << json_escape(x) << "\""; f = false; }
  o << "]}";
  return o.str();
}

inline void finish() {
  end_case();
  std::string l = "STATS " + stats_json(stats()) + "\n";
  size_t off = 0;
  while (off < l.size()) {
    ssize_t r = write(1, l.data() + off, l.size() - off);
    if (r <= 0) break;
    off += (size_t)r;
  }
}

// Runs f(i) for i = from..to-1 in forked children that stay silent on crashes. result[i-from] is the value f returned
// (any char other than '!'), or '!' if the child died while executing f(i) (sanitizer report, signal, timeout, exit).
// One child handles as many consecutive indices as it survives, so a run without deaths costs a single fork.
template <class Fn>
inline std::string probe_range(size_t from, size_t to, Fn&& f, int timeout_s = 10) {
  std::string result;
  size_t next = from;
  while (next < to) {
    fflush(stdout);
    int fds[2];
    if (pipe(fds) != 0) return result;
    pid_t pid = fork();
    if (pid == 0) {
      g_probe_child = true;
      close(fds[0]);
      int fd = open("/dev/null", O_WRONLY);
      if (fd >= 0) dup2(fd, 2);
      for (size_t i = next; i < to; ++i) {
        alarm(timeout_s);
        char c = '?';
        try { c = f(i); } catch (...) { c = 'E'; }
        if (write(fds[1], &c, 1) != 1) _exit(78);
      }
      _exit(0);
    }
    close(fds[1]);
    char c;
    size_t got = 0;
    while (read(fds[0], &c, 1) == 1) { result += c; ++got; }
    close(fds[0]);
    int st = 0;
    waitpid(pid, &st, 0);
    next += got;
    if (next < to) { result += '!'; ++next; }  // the child died inside f(next)
  }
  return result;
}

// small helpers ---------------------------------------------------------------------------------------------------
template <class T>
inline std::string join(const T& v, const char* sep = ",") {
  std::ostringstream o;
  bool f = true;
  for (auto& x : v) { if (!f) o << sep; o << x; f = false; }
  return o.str();
}
inline std::vector<int> parse_ints(const std::string& s, char sep = ',') {
  std::vector<int> r;
  std::string cur;
  for (char ch : s) {
    if (ch == sep) { if (!cur.empty()) r.push_back(atoi(cur.c_str())); cur.clear(); }
    else cur += ch;
  }
  if (!cur.empty()) r.push_back(atoi(cur.c_str()));
  return r;
}
inline std::map<std::string, std::string> parse_kv(const std::string& s, char sep = ';') {
  std::map<std::string, std::string> m;
  size_t i = 0;
  while (i < s.size()) {
    size_t j = s.find(sep, i);
    if (j == std::string::npos) j = s.size();
    std::string item = s.substr(i, j - i);
    size_t e = item.find('=');
    if (e != std::string::npos) m[item.substr(0, e)] = item.substr(e + 1);
    i = j + 1;
  }
  return m;
}

inline double now_s() {
  struct timespec ts;
  clock_gettime(CLOCK_MONOTONIC, &ts);
  return ts.tv_sec + ts.tv_nsec * 1e-9;
}

}  // namespace vf

// AddressSanitizer calls this (weak hook) right before it reports an error.
extern "C" __attribute__((used, visibility("default"))) void __asan_on_error() { vf::crash_out("ASAN"); }

#endif
