// E1: explicit-state, level-synchronous breadth-first exploration of operation histories executed on the REAL
// implementation.  A state is the history that reaches it, replayed on a fresh object; states are merged on a
// canonical key supplied by the driver (reference-model state + implementation-internal state).
//
// Driver concept:
//   std::vector<int> enabled(const std::vector<int>& hist);   ops enabled after hist (from the reference model only)
//   std::string      run(const std::vector<int>& hist);       execute hist on a fresh implementation object AND on the
//                                                             model, compare the complete observable state after the
//                                                             last op (vf::mismatch on difference), return the key
//   std::string      describe(const std::vector<int>& hist);  replayable, human-readable case string
//
// Parallelism: each BFS level is split over forked workers (copy-on-write view of the frontier and of the seen-set);
// workers write candidate (history, key) records to scratch files; the parent merges them in deterministic order.
#ifndef VF_EXPLORER_HPP
#define VF_EXPLORER_HPP

#include "harness.hpp"

#include <sys/stat.h>
#include <sys/wait.h>
#include <unordered_set>

namespace vf {

struct ExploreCfg {
  int max_depth = 1000;          // depth bound (number of operations); closure may be reached before it
  int workers = 4;
  double deadline_s = 1e18;      // absolute (vf::now_s() scale)
  long max_states = 50000000;    // safety cap
  int validate_per_level = 0;    // merge validation: merged histories per level whose successors are re-executed
  std::string scratch = "build/scratch";
  std::string tag = "";          // prefix for counters
};

struct ExploreResult {
  long long states = 0, transitions = 0, merged = 0, validated = 0;
  int completed_depth = 0;  // all histories of length <= completed_depth were executed
  bool closed = false;      // reachable key set reached a fixpoint: every finite history is covered
  bool failed = false;      // a worker crashed / timed out
  bool deadline_hit = false;
};

namespace detail {
inline void put_u32(FILE* f, uint32_t v) { fwrite(&v, 4, 1, f); }
inline bool get_u32(FILE* f, uint32_t& v) { return fread(&v, 4, 1, f) == 1; }

inline void write_stats_file(const std::string& path, const Stats& s) {
  FILE* f = fopen(path.c_str(), "w");
  if (!f) return;
  for (auto& kv : s.c) fprintf(f, "c\t%s\t%lld\n", kv.first.c_str(), kv.second);
  for (auto& kv : s.mx) fprintf(f, "m\t%s\t%lld\n", kv.first.c_str(), kv.second);
  for (auto& kv : s.sets) for (auto& v : kv.second) fprintf(f, "d\t%s\t%s\n", kv.first.c_str(), v.c_str());
  for (auto& kv : s.mism_by_class) fprintf(f, "x\t%s\t%lld\n", kv.first.c_str(), kv.second);
  for (auto& v : s.samples) {
    std::string t = v;
    for (auto& ch : t) if (ch == '\n' || ch == '\t') ch = ' ';
    fprintf(f, "s\t%s\n", t.c_str());
  }
  fclose(f);
}
inline void merge_stats_file(const std::string& path, Stats& s) {
  FILE* f = fopen(path.c_str(), "r");
  if (!f) return;
  char* line = nullptr;
  size_t cap = 0;
  ssize_t n;
  while ((n = getline(&line, &cap, f)) > 0) {
    if (line[n - 1] == '\n') line[--n] = 0;
    std::string l(line);
    if (l.size() < 3) continue;
    char t = l[0];
    size_t a = l.find('\t', 2);
    std::string k = l.substr(2, a == std::string::npos ? std::string::npos : a - 2);
    std::string v = a == std::string::npos ? "" : l.substr(a + 1);
    if (t == 'c') s.c[k] += atoll(v.c_str());
    else if (t == 'm') { auto& r = s.mx[k]; long long x = atoll(v.c_str()); if (x > r) r = x; }
    else if (t == 'd') s.distinct(k, v);
    else if (t == 'x') { s.mism_by_class[k] += atoll(v.c_str()); s.mismatches += atoll(v.c_str()); }
    else if (t == 's') s.sample(l.substr(2));
  }
  free(line);
  fclose(f);
}
}  // namespace detail

template <class Driver>
ExploreResult explore(Driver& d, const ExploreCfg& cfg) {
  struct Entry { std::vector<int> hist; bool validate_only; };
  ExploreResult res;
  std::unordered_set<std::string> seen;
  std::vector<Entry> frontier;

  std::string dir = cfg.scratch + "/" + std::to_string((long)getpid());
  mkdir(cfg.scratch.c_str(), 0777);
  mkdir(dir.c_str(), 0777);

  {  // root state
    std::vector<int> h;
    set_case(d.describe(h));
    std::string k = d.run(h);
    end_case();
    seen.insert(k);
    frontier.push_back({h, false});
    res.states = 1;
  }

  int W = std::max(1, cfg.workers);
  for (int depth = 0; depth < cfg.max_depth + 1; ++depth) {
    bool real = false;
    for (auto& e : frontier) if (!e.validate_only) real = true;
    if (frontier.empty()) { res.closed = true; break; }
    // if only validation entries are left: run them, then the reachable key set is closed
    bool last_level_validation_only = !real;
    if (depth == cfg.max_depth) {
      // depth bound reached: only run pending validation entries
      std::vector<Entry> v;
      for (auto& e : frontier) if (e.validate_only) v.push_back(e);
      frontier.swap(v);
      if (frontier.empty()) break;
      last_level_validation_only = true;
    }
    fflush(stdout);
    std::vector<pid_t> pids;
    for (int w = 0; w < W; ++w) {
      pid_t pid = fork();
      if (pid == 0) {
        stats() = Stats();
        std::string fn = dir + "/w" + std::to_string(w) + ".bin";
        FILE* f = fopen(fn.c_str(), "wb");
        std::unordered_set<std::string> local;
        long long trans = 0, merged = 0, validated = 0;
        int vleft = cfg.validate_per_level;
        bool incomplete = false;
        for (size_t j = (size_t)w; j < frontier.size(); j += (size_t)W) {
          if (now_s() > cfg.deadline_s) { incomplete = true; break; }
          const Entry& e = frontier[j];
          std::vector<int> ops = d.enabled(e.hist);
          std::vector<int> h = e.hist;
          h.push_back(0);
          for (size_t oi = 0; oi < ops.size(); ++oi) {
            h.back() = ops[oi];
            set_case(d.describe(h));
            std::string k = d.run(h);
            end_case();
            if (e.validate_only) { validated++; continue; }
            trans++;
            bool is_new = !seen.count(k) && !local.count(k);
            if (is_new) local.insert(k);
            if (is_new || vleft > 0) {
              if (!is_new) { vleft--; }
              detail::put_u32(f, (uint32_t)j);
              detail::put_u32(f, (uint32_t)oi);
              detail::put_u32(f, (uint32_t)ops[oi]);
              detail::put_u32(f, is_new ? 1u : 0u);
              detail::put_u32(f, (uint32_t)k.size());
              fwrite(k.data(), 1, k.size(), f);
            }
            if (!is_new) merged++;
          }
        }
        fclose(f);
        stats().add(cfg.tag + "transitions", trans);
        stats().add(cfg.tag + "validated_successors", validated);
        if (incomplete) stats().add(cfg.tag + "incomplete_workers", 1);
        detail::write_stats_file(dir + "/w" + std::to_string(w) + ".stats", stats());
        _exit(0);
      }
      pids.push_back(pid);
    }
    bool failed = false;
    for (pid_t p : pids) {
      int st = 0;
      waitpid(p, &st, 0);
      if (!WIFEXITED(st) || WEXITSTATUS(st) != 0) failed = true;
    }
    // merge
    struct Rec { uint32_t j, oi, op, is_new; std::string key; };
    std::vector<Rec> recs;
    long long before_trans = stats().c[cfg.tag + "transitions"];
    long long before_inc = stats().c[cfg.tag + "incomplete_workers"];
    for (int w = 0; w < W; ++w) {
      std::string fn = dir + "/w" + std::to_string(w) + ".bin";
      FILE* f = fopen(fn.c_str(), "rb");
      if (f) {
        uint32_t j, oi, op, nw, kl;
        while (detail::get_u32(f, j) && detail::get_u32(f, oi) && detail::get_u32(f, op) && detail::get_u32(f, nw) &&
               detail::get_u32(f, kl)) {
          std::string k(kl, '\0');
          if (kl && fread(&k[0], 1, kl, f) != kl) break;
          recs.push_back({j, oi, op, nw, std::move(k)});
        }
        fclose(f);
      }
      unlink(fn.c_str());
      std::string sf = dir + "/w" + std::to_string(w) + ".stats";
      detail::merge_stats_file(sf, stats());
      unlink(sf.c_str());
    }
    long long level_trans = stats().c[cfg.tag + "transitions"] - before_trans;
    bool incomplete = stats().c[cfg.tag + "incomplete_workers"] != before_inc;
    if (failed) { res.failed = true; break; }
    if (incomplete) { res.deadline_hit = true; break; }
    std::sort(recs.begin(), recs.end(), [](const Rec& a, const Rec& b) {
      return a.j != b.j ? a.j < b.j : a.oi < b.oi;
    });
    std::vector<Entry> next;
    int vtaken = 0;
    long long new_states = 0;
    for (auto& r : recs) {
      std::vector<int> h = frontier[r.j].hist;
      h.push_back((int)r.op);
      if (r.is_new && seen.insert(r.key).second) {
        next.push_back({std::move(h), false});
        new_states++;
      } else if (vtaken < cfg.validate_per_level) {
        next.push_back({std::move(h), true});
        vtaken++;
      }
    }
    res.transitions += level_trans;
    res.states += new_states;
    res.merged += level_trans - new_states;
    if (!last_level_validation_only) res.completed_depth = depth + 1;
    stats().maxi(cfg.tag + "frontier_max", (long long)next.size());
    if (new_states > 0) stats().sample(d.describe(next.front().hist), 12);
    frontier.swap(next);
    if ((long)seen.size() > cfg.max_states) { res.deadline_hit = true; break; }
    if (last_level_validation_only) { if (!real) res.closed = true; break; }
    if (frontier.empty()) { res.closed = true; break; }
  }
  res.validated = stats().c[cfg.tag + "validated_successors"];
  rmdir(dir.c_str());
  stats().add(cfg.tag + "states", res.states);
  stats().add(cfg.tag + "merged", res.merged);
  stats().maxi(cfg.tag + "completed_depth", res.completed_depth);
  stats().add(cfg.tag + "closed", res.closed ? 1 : 0);
  stats().add(cfg.tag + "deadline_hit", res.deadline_hit ? 1 : 0);
  return res;
}

}  // namespace vf

#endif
