// Reference models (no GUDHI code): filtered abstract simplicial complex, textbook persistence by column reduction
// over Z_p on an explicit signed boundary matrix, clique enumeration.  Deliberately boring.
#ifndef VF_REF_COMPLEX_HPP
#define VF_REF_COMPLEX_HPP

#include <algorithm>
#include <cmath>
#include <limits>
#include <map>
#include <set>
#include <sstream>
#include <string>
#include <tuple>
#include <vector>

namespace ref {

using Simplex = std::vector<int>;  // sorted increasing, no duplicates

inline Simplex norm(Simplex s) {
  std::sort(s.begin(), s.end());
  s.erase(std::unique(s.begin(), s.end()), s.end());
  return s;
}
inline bool subset(const Simplex& a, const Simplex& b) {  // a subseteq b (both sorted)
  return std::includes(b.begin(), b.end(), a.begin(), a.end());
}
inline std::vector<Simplex> facets_of(const Simplex& s) {  // codimension-1 faces, i-th one omits s[i]
  std::vector<Simplex> r;
  if (s.size() <= 1) return r;
  for (size_t i = 0; i < s.size(); ++i) {
    Simplex f;
    for (size_t j = 0; j < s.size(); ++j) if (j != i) f.push_back(s[j]);
    r.push_back(f);
  }
  return r;
}
inline std::vector<Simplex> nonempty_subsets(const Simplex& s) {
  std::vector<Simplex> r;
  size_t n = s.size();
  for (unsigned m = 1; m < (1u << n); ++m) {
    Simplex f;
    for (size_t i = 0; i < n; ++i) if (m >> i & 1) f.push_back(s[i]);
    r.push_back(f);
  }
  return r;
}
inline std::string str(const Simplex& s) {
  std::ostringstream o;
  o << "[";
  for (size_t i = 0; i < s.size(); ++i) o << (i ? " " : "") << s[i];
  o << "]";
  return o.str();
}

struct Complex {
  std::map<Simplex, double> s;  // simplex -> filtration value

  bool has(const Simplex& x) const { return s.count(x) != 0; }
  double filt(const Simplex& x) const { return s.at(x); }
  bool empty() const { return s.empty(); }
  int dimension() const {
    int d = -1;
    for (auto& kv : s) d = std::max(d, (int)kv.first.size() - 1);
    return d;
  }
  std::vector<int> vertices() const {
    std::vector<int> v;
    for (auto& kv : s) if (kv.first.size() == 1) v.push_back(kv.first[0]);
    return v;
  }
  bool facets_present(const Simplex& x) const {
    for (auto& f : facets_of(x)) if (!has(f)) return false;
    return true;
  }
  double max_facet_filt(const Simplex& x) const {
    double m = -std::numeric_limits<double>::infinity();
    for (auto& f : facets_of(x)) m = std::max(m, filt(f));
    return m;
  }
  double min_coface_filt(const Simplex& x) const {  // min over proper cofaces, +inf if none
    double m = std::numeric_limits<double>::infinity();
    for (auto& kv : s) if (kv.first.size() > x.size() && subset(x, kv.first)) m = std::min(m, kv.second);
    return m;
  }
  bool is_maximal(const Simplex& x) const {
    for (auto& kv : s) if (kv.first.size() > x.size() && subset(x, kv.first)) return false;
    return true;
  }
  std::vector<Simplex> cofaces(const Simplex& x, int codim) const {  // codim 0: star (x itself included)
    std::vector<Simplex> r;
    for (auto& kv : s) {
      if (!subset(x, kv.first)) continue;
      if (codim == 0 || (int)kv.first.size() == (int)x.size() + codim) r.push_back(kv.first);
    }
    return r;
  }
  // documented rule: a new simplex takes the value, an existing one keeps the smaller
  void insert_one(const Simplex& x, double f) {
    auto it = s.find(x);
    if (it == s.end()) s[x] = f;
    else it->second = std::min(it->second, f);
  }
  void insert_with_faces(const Simplex& x, double f) {
    for (auto& y : nonempty_subsets(x)) insert_one(y, f);
  }
  void remove_star(const Simplex& x) {
    for (auto it = s.begin(); it != s.end();) {
      if (subset(x, it->first)) it = s.erase(it);
      else ++it;
    }
  }
  bool prune_above_filtration(double t) {
    bool m = false;
    for (auto it = s.begin(); it != s.end();) {
      if (it->second > t) { it = s.erase(it); m = true; }
      else ++it;
    }
    return m;
  }
  bool prune_above_dimension(int d) {
    bool m = false;
    for (auto it = s.begin(); it != s.end();) {
      if ((int)it->first.size() - 1 > d) { it = s.erase(it); m = true; }
      else ++it;
    }
    return m;
  }
  bool is_complex() const {
    for (auto& kv : s) for (auto& f : facets_of(kv.first)) if (!has(f)) return false;
    return true;
  }
  bool is_monotone() const {
    for (auto& kv : s) for (auto& f : facets_of(kv.first)) if (has(f) && filt(f) > kv.second) return false;
    return true;
  }
  std::string key() const {
    std::ostringstream o;
    for (auto& kv : s) {
      for (int v : kv.first) o << v << ".";
      o << ":" << kv.second << ";";
    }
    return o.str();
  }
  // the filtration order GUDHI documents: by value, ties by "reverse lexicographic order" (vertex lists read from
  // the largest vertex down, shorter prefix first)
  static bool revlex_less(const Simplex& a, const Simplex& b) {
    auto ia = a.rbegin(), ib = b.rbegin();
    while (ia != a.rend() && ib != b.rend()) {
      if (*ia != *ib) return *ia < *ib;
      ++ia; ++ib;
    }
    return ia == a.rend() && ib != b.rend();
  }
  std::vector<Simplex> filtration_order() const {
    std::vector<Simplex> v;
    for (auto& kv : s) v.push_back(kv.first);
    std::sort(v.begin(), v.end(), [&](const Simplex& a, const Simplex& b) {
      double fa = filt(a), fb = filt(b);
      if (fa != fb) return fa < fb;
      return revlex_less(a, b);
    });
    return v;
  }
};

// -------------------------------------------------------------------------------------------------------------------
// persistence by left-to-right column reduction over Z_p (homology algorithm, dense int columns)
// -------------------------------------------------------------------------------------------------------------------
struct Cell {
  int dim;
  std::vector<std::pair<int, int>> bd;  // (index of an earlier cell, integer coefficient)
};
struct Pair {
  int dim, birth, death;  // indices into the cell list; death = -1 for an essential class
  bool operator<(const Pair& o) const { return std::tie(dim, birth, death) < std::tie(o.dim, o.birth, o.death); }
  bool operator==(const Pair& o) const { return dim == o.dim && birth == o.birth && death == o.death; }
};

inline int mod_inv(int a, int p) {
  a %= p; if (a < 0) a += p;
  long long r = 1, b = a, e = p - 2;
  while (e) { if (e & 1) r = r * b % p; b = b * b % p; e >>= 1; }
  return (int)r;
}

inline std::vector<Pair> persistence(const std::vector<Cell>& cells, int p) {
  int n = (int)cells.size();
  std::vector<std::vector<int>> col(n);
  std::vector<int> low(n, -1), owner(n, -1);
  std::vector<Pair> out;
  std::vector<char> paired(n, 0);
  for (int j = 0; j < n; ++j) {
    std::vector<int>& c = col[j];
    c.assign(n, 0);
    for (auto& e : cells[j].bd) { c[e.first] = ((c[e.first] + e.second) % p + p) % p; }
    for (;;) {
      int l = -1;
      for (int i = j - 1; i >= 0; --i) if (c[i]) { l = i; break; }
      if (l < 0) break;
      int o = owner[l];
      if (o < 0) { low[j] = l; owner[l] = j; break; }
      // c -= (c[l]/col[o][l]) * col[o]
      long long coef = (long long)c[l] * mod_inv(col[o][l], p) % p;
      for (int i = 0; i <= l; ++i) c[i] = (int)(((c[i] - coef * col[o][i]) % p + p) % p);
    }
    if (low[j] >= 0) { out.push_back({cells[low[j]].dim, low[j], j}); paired[j] = paired[low[j]] = 1; }
  }
  for (int j = 0; j < n; ++j) if (!paired[j]) out.push_back({cells[j].dim, j, -1});
  std::sort(out.begin(), out.end());
  return out;
}

// cells of a simplicial complex listed in a given order (faces must precede cofaces)
inline std::vector<Cell> cells_of(const std::vector<Simplex>& order) {
  std::map<Simplex, int> idx;
  std::vector<Cell> cells;
  for (size_t i = 0; i < order.size(); ++i) idx[order[i]] = (int)i;
  for (auto& s : order) {
    Cell c;
    c.dim = (int)s.size() - 1;
    auto fs = facets_of(s);
    for (size_t i = 0; i < fs.size(); ++i) c.bd.push_back({idx.at(fs[i]), (i % 2 == 0) ? 1 : -1});
    cells.push_back(c);
  }
  return cells;
}

// rank of a matrix over Z_p (rows as vectors)
inline int rank_mod_p(std::vector<std::vector<int>> m, int p) {
  int r = 0;
  if (m.empty()) return 0;
  size_t cols = m[0].size();
  for (size_t c = 0; c < cols && r < (int)m.size(); ++c) {
    int piv = -1;
    for (size_t i = r; i < m.size(); ++i) if (((m[i][c] % p) + p) % p) { piv = (int)i; break; }
    if (piv < 0) continue;
    std::swap(m[r], m[piv]);
    int inv = mod_inv(m[r][c], p);
    for (size_t i = 0; i < m.size(); ++i) {
      if ((int)i == r) continue;
      long long f = (long long)(((m[i][c] % p) + p) % p) * inv % p;
      if (!f) continue;
      for (size_t k = c; k < cols; ++k) m[i][k] = (int)((((m[i][k] - f * m[r][k]) % p) + p) % p);
    }
    ++r;
  }
  return r;
}

// all cliques of a graph given as adjacency (vertex list + edge set), up to max_vertices vertices
inline std::vector<Simplex> cliques(const std::vector<int>& verts, const std::set<std::pair<int, int>>& edges,
                                    int max_vertices) {
  std::vector<Simplex> r;
  size_t n = verts.size();
  for (unsigned m = 1; m < (1u << n); ++m) {
    if (__builtin_popcount(m) > max_vertices) continue;
    Simplex s;
    for (size_t i = 0; i < n; ++i) if (m >> i & 1) s.push_back(verts[i]);
    bool ok = true;
    for (size_t i = 0; i < s.size() && ok; ++i)
      for (size_t j = i + 1; j < s.size(); ++j)
        if (!edges.count({s[i], s[j]})) { ok = false; break; }
    if (ok) r.push_back(s);
  }
  return r;
}

}  // namespace ref

#endif
