// E3: preemption-bounded systematic scheduler for threads that each own their objects.
// GUDHI has no locks/atomics to hook, so the scheduling points are the global operator new / operator delete (replaced
// in this translation unit): every allocation or deallocation inside a library call is a point where the running
// thread may be pre-empted.  One runnable thread at a time (futex hand-off).  The explorer (iterative context
// bounding, DFS over choice prefixes) runs every schedule in a forked child under a watchdog.
//
// Include this header in exactly one translation unit.
#ifndef VF_SCHED_HPP
#define VF_SCHED_HPP

#include "harness.hpp"

#include <atomic>
#include <functional>
#include <linux/futex.h>
#include <new>
#include <pthread.h>
#include <sys/syscall.h>

namespace sch {

constexpr int MAXT = 4;
constexpr int MAXP = 20000;

struct Point {
  signed char running;       // thread at the point (-1: at a thread end)
  unsigned char nenabled;    // number of enabled threads (canonical order: running first if enabled, then ascending)
  unsigned char chosen;      // index into the canonical order
  unsigned char running_enabled;
};

static int g_n = 0;
static std::atomic<int> g_current{-1};
static bool g_active = false;
static thread_local int t_id = -1;
static thread_local bool t_in = false;
static bool g_done[MAXT];
static int g_prefix[MAXP];
static int g_prefix_len = 0;
static Point g_points[MAXP];
static int g_npoints = 0;
static bool g_diverged = false;

inline void futex_wait(std::atomic<int>* a, int val) { syscall(SYS_futex, (int*)a, FUTEX_WAIT, val, nullptr, nullptr, 0); }
inline void futex_wake(std::atomic<int>* a) { syscall(SYS_futex, (int*)a, FUTEX_WAKE, 1 << 30, nullptr, nullptr, 0); }

inline void wait_turn(int me) {
  for (;;) {
    int c = g_current.load(std::memory_order_acquire);
    if (c == me) return;
    futex_wait(&g_current, c);
  }
}
inline void hand_to(int other) {
  g_current.store(other, std::memory_order_release);
  futex_wake(&g_current);
}

// canonical list of enabled threads; returns count
inline int enabled_list(int running, bool running_enabled, int* out) {
  int k = 0;
  if (running_enabled) out[k++] = running;
  for (int i = 0; i < g_n; ++i) if (!g_done[i] && !(running_enabled && i == running)) out[k++] = i;
  return k;
}

inline int decide(int running, bool running_enabled, int* list, int n) {
  int choice = 0;
  if (g_npoints < g_prefix_len) {
    choice = g_prefix[g_npoints];
    if (choice >= n) { g_diverged = true; choice = 0; }
  }
  if (g_npoints < MAXP) {
    g_points[g_npoints] = {(signed char)(running_enabled ? running : -1), (unsigned char)n, (unsigned char)choice, (unsigned char)running_enabled};
  }
  g_npoints++;
  return list[choice];
}

inline void sched_point() {
  if (!g_active || t_id < 0 || t_in) return;
  t_in = true;
  int list[MAXT];
  int n = enabled_list(t_id, true, list);
  if (n > 1) {
    int next = decide(t_id, true, list, n);
    if (next != t_id) { hand_to(next); wait_turn(t_id); }
  }
  t_in = false;
}

inline void thread_end() {
  t_in = true;
  g_done[t_id] = true;
  int list[MAXT];
  int n = enabled_list(t_id, false, list);
  if (n == 0) { hand_to(-2); return; }   // everybody finished: wake the controller
  int next = n == 1 ? list[0] : decide(t_id, false, list, n);
  hand_to(next);
}

struct Body { std::function<void()> fn; int id; };
inline void* trampoline(void* p) {
  Body* b = (Body*)p;
  t_id = b->id;
  wait_turn(b->id);
  b->fn();
  thread_end();
  return nullptr;
}

// Runs the bodies under the schedule given by prefix (then default choices). Must be called in a fresh process.
inline void run_schedule(std::vector<std::function<void()>>& bodies, const std::vector<int>& prefix) {
  g_n = (int)bodies.size();
  g_prefix_len = (int)std::min<size_t>(prefix.size(), MAXP);
  for (int i = 0; i < g_prefix_len; ++i) g_prefix[i] = prefix[i];
  g_npoints = 0;
  for (int i = 0; i < MAXT; ++i) g_done[i] = false;
  std::vector<Body> bs(g_n);
  std::vector<pthread_t> th(g_n);
  g_current.store(-1);
  for (int i = 0; i < g_n; ++i) { bs[i] = {bodies[i], i}; pthread_create(&th[i], nullptr, trampoline, &bs[i]); }
  g_active = true;
  hand_to(0);
  // controller waits for the end
  for (;;) {
    int c = g_current.load(std::memory_order_acquire);
    if (c == -2) break;
    futex_wait(&g_current, c);
  }
  g_active = false;
  for (int i = 0; i < g_n; ++i) pthread_join(th[i], nullptr);
}

}  // namespace sch

// ---- scheduling points: every allocation / deallocation ----------------------------------------------------------
void* operator new(std::size_t n) { sch::sched_point(); void* p = malloc(n ? n : 1); if (!p) throw std::bad_alloc(); return p; }
void* operator new[](std::size_t n) { sch::sched_point(); void* p = malloc(n ? n : 1); if (!p) throw std::bad_alloc(); return p; }
void operator delete(void* p) noexcept { sch::sched_point(); free(p); }
void operator delete[](void* p) noexcept { sch::sched_point(); free(p); }
void operator delete(void* p, std::size_t) noexcept { sch::sched_point(); free(p); }
void operator delete[](void* p, std::size_t) noexcept { sch::sched_point(); free(p); }
void* operator new(std::size_t n, const std::nothrow_t&) noexcept { sch::sched_point(); return malloc(n ? n : 1); }
void* operator new[](std::size_t n, const std::nothrow_t&) noexcept { sch::sched_point(); return malloc(n ? n : 1); }
void operator delete(void* p, const std::nothrow_t&) noexcept { sch::sched_point(); free(p); }
void operator delete[](void* p, const std::nothrow_t&) noexcept { sch::sched_point(); free(p); }
static inline void* vf_aligned(std::size_t n, std::size_t al) { void* p = nullptr; if (al < sizeof(void*)) al = sizeof(void*); if (posix_memalign(&p, al, n ? n : 1)) return nullptr; return p; }
void* operator new(std::size_t n, std::align_val_t al) { sch::sched_point(); void* p = vf_aligned(n, (std::size_t)al); if (!p) throw std::bad_alloc(); return p; }
void* operator new[](std::size_t n, std::align_val_t al) { sch::sched_point(); void* p = vf_aligned(n, (std::size_t)al); if (!p) throw std::bad_alloc(); return p; }
void* operator new(std::size_t n, std::align_val_t al, const std::nothrow_t&) noexcept { sch::sched_point(); return vf_aligned(n, (std::size_t)al); }
void* operator new[](std::size_t n, std::align_val_t al, const std::nothrow_t&) noexcept { sch::sched_point(); return vf_aligned(n, (std::size_t)al); }
void operator delete(void* p, std::align_val_t) noexcept { sch::sched_point(); free(p); }
void operator delete[](void* p, std::align_val_t) noexcept { sch::sched_point(); free(p); }
void operator delete(void* p, std::size_t, std::align_val_t) noexcept { sch::sched_point(); free(p); }
void operator delete[](void* p, std::size_t, std::align_val_t) noexcept { sch::sched_point(); free(p); }
void operator delete(void* p, std::align_val_t, const std::nothrow_t&) noexcept { sch::sched_point(); free(p); }
void operator delete[](void* p, std::align_val_t, const std::nothrow_t&) noexcept { sch::sched_point(); free(p); }

namespace sch {

struct ExploreStats { long long schedules = 0, points_max = 0, hangs = 0, crashes = 0, diverged = 0, outcomes_differ = 0; std::set<std::string> outcomes; };

// Executes one schedule in a forked child. outcome: string produced by `collect` after all threads finished.
struct RunResult { bool ok; bool hang; bool diverged; std::string outcome; std::vector<Point> points; };
inline RunResult run_in_child(const std::function<std::vector<std::function<void()>>()>& make_bodies,
                              const std::function<std::string()>& collect, const std::vector<int>& prefix, int timeout_s) {
  RunResult r{false, false, false, "", {}};
  int fds[2];
  if (pipe(fds) != 0) return r;
  fflush(stdout);
  pid_t pid = fork();
  if (pid == 0) {
    close(fds[0]);
    vf::g_probe_child = true;
    alarm(timeout_s);
    auto bodies = make_bodies();
    run_schedule(bodies, prefix);
    std::string out = collect();
    uint32_t np = (uint32_t)std::min(g_npoints, MAXP), ol = (uint32_t)out.size(), dv = g_diverged ? 1 : 0;
    bool w = write(fds[1], &np, 4) == 4 && write(fds[1], &dv, 4) == 4 && write(fds[1], g_points, np * sizeof(Point)) == (ssize_t)(np * sizeof(Point)) &&
             write(fds[1], &ol, 4) == 4 && write(fds[1], out.data(), ol) == (ssize_t)ol;
    _exit(w ? 0 : 5);
  }
  close(fds[1]);
  auto rd = [&](void* b, size_t n) { size_t o = 0; while (o < n) { ssize_t k = read(fds[0], (char*)b + o, n - o); if (k <= 0) return false; o += (size_t)k; } return true; };
  uint32_t np = 0, dv = 0, ol = 0;
  bool good = rd(&np, 4) && rd(&dv, 4);
  if (good) { r.points.resize(np); good = rd(r.points.data(), np * sizeof(Point)) && rd(&ol, 4); }
  if (good) { r.outcome.resize(ol); good = ol == 0 || rd(&r.outcome[0], ol); }
  close(fds[0]);
  int st = 0;
  waitpid(pid, &st, 0);
  r.ok = good && WIFEXITED(st) && WEXITSTATUS(st) == 0;
  r.hang = (WIFEXITED(st) && WEXITSTATUS(st) == 77) || WIFSIGNALED(st);
  r.diverged = dv != 0;
  return r;
}

// Iterative context bounding: every schedule with at most `bound` preemptions.
inline void explore(const std::function<std::vector<std::function<void()>>()>& make_bodies, const std::function<std::string()>& collect,
                    int bound, const std::string& expected, const std::string& tag, ExploreStats& st, double deadline_s, bool& complete) {
  std::vector<std::vector<int>> stack;
  stack.push_back({});
  complete = true;
  while (!stack.empty()) {
    if (vf::now_s() > deadline_s) { complete = false; break; }
    std::vector<int> prefix = stack.back();
    stack.pop_back();
    std::string cs = tag + ";schedule=" + vf::join(prefix);
    vf::set_case(cs);
    RunResult r = run_in_child(make_bodies, collect, prefix, 5);
    if (!r.ok) {
      // re-run alone with a longer limit before calling it a hang / crash
      RunResult r2 = run_in_child(make_bodies, collect, prefix, 40);
      if (!r2.ok) {
        st.hangs++;
        vf::mismatch("C15:threads:schedule-crashed-or-hung", cs);
        vf::end_case();
        continue;
      }
      r = r2;
    }
    vf::end_case();
    st.schedules++;
    st.points_max = std::max<long long>(st.points_max, (long long)r.points.size());
    if (r.diverged) { st.diverged++; vf::mismatch("C15:threads:ENGINE-replay-divergence", cs); continue; }
    st.outcomes.insert(r.outcome);
    if (r.outcome != expected) { st.outcomes_differ++; vf::mismatch("C15:threads:result-differs-from-sequential", cs + " got " + r.outcome.substr(0, 300)); }
    // children: alternatives at every point after the prefix
    int pre = 0;
    std::vector<int> choices;
    for (size_t i = 0; i < r.points.size(); ++i) {
      const Point& p = r.points[i];
      if (i >= prefix.size()) {
        int cost = pre + (p.running_enabled ? 1 : 0);
        if (cost <= bound) {
          for (int alt = 1; alt < p.nenabled; ++alt) {
            std::vector<int> c(choices);
            c.push_back(alt);
            stack.push_back(c);
          }
        }
      }
      if (p.running_enabled && p.chosen != 0) pre++;
      choices.push_back(p.chosen);
    }
  }
}

}  // namespace sch

#endif
