// C09 - general matrices behave as dense matrices, whatever the column representation.
// E1 explicit-state exploration (with closure) of the real Gudhi::persistence_matrix::Matrix in its "base matrix"
// flavours.  One binary = one column type (-DVF_CT=0..8) and one slice (-DVF_PART / -DVF_NPARTS) of the 50 option
// shapes {Z_2,Z_p} x ({no rows, 4 row-access kinds} x {vector,map container} x {swaps off,on}  +  compression x 5).
#include "c09_common.hpp"

#ifndef VF_CT
#define VF_CT 0
#endif
#ifndef VF_PART
#define VF_PART 0
#endif
#ifndef VF_NPARTS
#define VF_NPARTS 1
#endif

using namespace c09;

static constexpr Column_types kColumnTypes[9] = {
    Column_types::LIST,          Column_types::SET,          Column_types::HEAP,
    Column_types::VECTOR,        Column_types::NAIVE_VECTOR, Column_types::SMALL_VECTOR,
    Column_types::UNORDERED_SET, Column_types::INTRUSIVE_LIST, Column_types::INTRUSIVE_SET};
static constexpr Column_types CT = kColumnTypes[VF_CT];
static constexpr int NVARIANTS = 50;

// shape of variant v
struct VShape {
  bool z2, ra, remrow, intr, mapc, swaps, comp;
};
static constexpr VShape vshape(int v) {
  VShape s{};
  s.z2 = (v % 2) == 0;
  int t = v / 2;  // 0..24
  int rav = 0;
  if (t < 20) { rav = t / 4; s.mapc = ((t % 4) / 2) == 1; s.swaps = (t % 2) == 1; s.comp = false; }
  else { rav = t - 20; s.mapc = false; s.swaps = false; s.comp = true; }
  s.ra = rav != 0;
  s.remrow = (rav == 2 || rav == 3);
  s.intr = (rav == 2 || rav == 4);
  return s;
}
static constexpr bool vvalid(int v) {
  VShape s = vshape(v);
  if (CT == Column_types::HEAP && (s.ra || s.comp)) return false;  // documented: heap has neither row access nor compression
  return true;
}

static Shape to_shape(int v) {
  VShape s = vshape(v);
  Shape r;
  r.z2 = s.z2; r.ra = s.ra; r.remrow = s.remrow; r.intr = s.intr; r.mapc = s.mapc; r.swaps = s.swaps; r.comp = s.comp;
  std::ostringstream n;
  n << ct_name(CT) << (s.z2 ? ".z2" : ".zp") << (s.comp ? ".comp" : ".base")
    << (!s.ra ? ".norows" : (s.intr ? ".introws" : ".setrows")) << (s.ra ? (s.remrow ? "_map" : "_vec") : "")
    << (s.comp ? "" : (s.mapc ? ".mapc" : ".vecc")) << (s.comp ? "" : (s.swaps ? ".swaps" : ".noswap"));
  r.name = n.str();
  return r;
}

// ---------------------------------------------------------------------------------------------------------------
struct Reporter {
  bool quiet = false;
  bool diverged = false;
  std::string cfg;
  void bad(const std::string& cls, const std::string& detail) {
    diverged = true;
    if (!quiet) vf::mismatch(cls, cfg + " " + detail);
  }
};

template <class O>
struct Driver {
  using M = Gudhi::persistence_matrix::Matrix<O>;
  using Entry = typename M::Matrix_entry;
  using ERep = typename M::Entry_representative;
  static constexpr bool Z2 = O::is_z2;
  static constexpr bool RA = O::has_row_access;
  static constexpr bool COMP = O::has_column_compression;
  static constexpr bool SWAPS = O::has_column_and_row_swaps;
  static constexpr bool MAPC = O::has_map_column_container;
  static constexpr bool REMROW = O::has_removable_rows;

  Rules rules;
  mutable Reporter rep;

  // ------------------------------------------------------------------------------------------------ model side
  Model model_after(const std::vector<int>& hist, size_t n) const {
    Model m;
    for (size_t i = 0; i < n; ++i) rules.apply(m, rules.ops[hist[i]]);
    return m;
  }
  std::vector<int> enabled(const std::vector<int>& hist) const {
    std::vector<int> r;
    if (!hist.empty()) {
      // a state whose last transition disagreed with the model is not expanded (its successors would be compared with
      // a model the implementation has already left)
      Reporter saved = rep;
      rep.quiet = true;
      rep.diverged = false;
      run(hist);
      bool d = rep.diverged;
      rep = saved;
      if (d) return r;
    }
    Model m = model_after(hist, hist.size());
    for (size_t i = 0; i < rules.ops.size(); ++i) if (rules.enabled(m, rules.ops[i])) r.push_back((int)i);
    return r;
  }
  std::string describe(const std::vector<int>& hist) const {
    std::ostringstream o;
    o << "cfg=" << rules.S.name << ";R=" << rules.U.R << ";C=" << rules.U.C << ";P=" << rules.U.P
      << ";coefs=" << vf::join(rules.U.coefs) << ";ops=" << vf::join(hist) << ";text=";
    for (int c : hist) o << rules.op_text(rules.ops[c]) << " ";
    return o.str();
  }

  // --------------------------------------------------------------------------------------- implementation side
  std::vector<ERep> make_column(const Dense& d) const {
    std::vector<ERep> c;
    for (int r = 0; r < (int)d.size(); ++r) {
      if (!d[r]) continue;
      if constexpr (Z2) c.push_back((unsigned)r);
      else c.push_back(ERep((unsigned)r, (typename M::Element)d[r]));
    }
    return c;
  }
  std::vector<Entry> make_range(const Dense& d) const {
    std::vector<Entry> c;
    for (int r = 0; r < (int)d.size(); ++r) {
      if (!d[r]) continue;
      Entry e((unsigned)r);
      if constexpr (!Z2) e.set_element((typename M::Element)d[r]);
      c.push_back(e);
    }
    return c;
  }

  void apply_impl(M& m, const Op& o) const {
    const Universe& U = rules.U;
    unsigned a = (unsigned)o.a, b = (unsigned)o.b;
    switch (o.k) {
      case INS: m.insert_column(make_column(U.contents[o.c])); break;
      case INS_AT: if constexpr (!RA && !COMP) m.insert_column(make_column(U.contents[o.c]), b); break;
      case REM_LAST: if constexpr (!COMP) m.remove_last(); break;
      case REM_COL: if constexpr (MAPC && !COMP) m.remove_column(a); break;
      case ADD: m.add_to(a, b); break;
      case ADD_R: m.add_to(make_range(U.contents[o.c]), b); break;
      case MTA: m.multiply_target_and_add_to(a, o.q, b); break;
      case MTA_R: m.multiply_target_and_add_to(make_range(U.contents[o.c]), o.q, b); break;
      case MSA: m.multiply_source_and_add_to(o.q, a, b); break;
      case MSA_R: m.multiply_source_and_add_to(o.q, make_range(U.contents[o.c]), b); break;
      case ZERO_E: if constexpr (!COMP) m.zero_entry(a, b); break;
      case ZERO_C: if constexpr (!COMP) m.zero_column(a); break;
      case SWAP_R: if constexpr (SWAPS && !COMP) m.swap_rows(a, b); break;
      case SWAP_C: if constexpr (SWAPS && !COMP) m.swap_columns(a, b); break;
      case ERASE_ROW: m.erase_empty_row(a); break;
      case TOUCH: (void)m.get_column(a); break;
      default: break;
    }
  }

  // internal representation of one column (storage order, lazy state)
  template <class Col>
  static void column_internals(const Col& c, std::ostringstream& o) {
    for (auto it = c.column_.begin(); it != c.column_.end(); ++it) {
      const Entry* e;
      if constexpr (CT == Column_types::INTRUSIVE_LIST || CT == Column_types::INTRUSIVE_SET) e = &*it;
      else e = *it;
      o << e->get_row_index();
      if constexpr (!Z2) o << ":" << (unsigned)e->get_element();
      if constexpr (RA) o << "@" << e->get_column_index();
      o << ",";
    }
    if constexpr (CT == Column_types::HEAP) o << "p" << c.insertsSinceLastPrune_;
    if constexpr (CT == Column_types::VECTOR) {
      std::vector<unsigned> er(c.erasedValues_.begin(), c.erasedValues_.end());
      std::sort(er.begin(), er.end());
      o << "e" << vf::join(er);
    }
  }

  template <class Dict>
  static void dict_str(const Dict& d, std::ostringstream& o) {
    if constexpr (MAPC) {
      std::vector<std::pair<unsigned, unsigned>> v(d.begin(), d.end());
      std::sort(v.begin(), v.end());
      for (auto& kv : v) o << kv.first << ">" << kv.second << ",";
    } else {
      for (size_t i = 0; i < d.size(); ++i) o << d[i] << ",";
    }
  }

  void rows_internals(M& m, std::ostringstream& o) const {
    if constexpr (RA) {
      auto* rows = m.matrix_.rows_;
      o << "|rows:";
      auto one = [&](unsigned r, const typename M::Row& row) {
        std::vector<std::string> es;
        for (const auto& e : row) {
          std::ostringstream s;
          s << e.get_column_index() << "." << e.get_row_index();
          if constexpr (!Z2) s << "." << (unsigned)e.get_element();
          es.push_back(s.str());
        }
        std::sort(es.begin(), es.end());
        o << r << "{" << vf::join(es) << "}";
      };
      if constexpr (REMROW) { for (auto& kv : *rows) one(kv.first, kv.second); }
      else { for (size_t r = 0; r < rows->size(); ++r) one((unsigned)r, (*rows)[r]); }
    }
  }

  std::string internals(M& m) const {
    std::ostringstream o;
    auto& B = m.matrix_;
    if constexpr (!COMP) {
      o << "|n" << B.nextInsertIndex_ << "|";
      if constexpr (MAPC) {
        std::vector<unsigned> idx;
        for (auto& kv : B.matrix_) idx.push_back(kv.first);
        std::sort(idx.begin(), idx.end());
        for (unsigned i : idx) { o << i << "("; column_internals(B.matrix_.at(i), o); o << ")"; }
      } else {
        for (size_t i = 0; i < B.matrix_.size(); ++i) { o << "("; column_internals(B.matrix_[i], o); o << ")"; }
      }
      if constexpr (SWAPS) {
        o << "|s" << (int)B.rowSwapped_ << " i2r:";
        dict_str(B.indexToRow_, o);
        o << " r2i:";
        dict_str(B.rowToIndex_, o);
      }
    } else {
      o << "|n" << B.nextColumnIndex_ << "|uf:";
      for (auto p : B.columnClasses_.parent) o << p << ",";
      o << "/";
      for (auto r : B.columnClasses_.rank) o << (int)r << ",";
      o << "|";
      for (size_t i = 0; i < B.repToColumn_.size(); ++i) {
        if (B.repToColumn_[i] == nullptr) { o << "-"; continue; }
        o << "(r" << B.repToColumn_[i]->get_rep() << ":";
        column_internals(*B.repToColumn_[i], o);
        o << ")";
      }
    }
    rows_internals(m, o);
    return o.str();
  }

  // ------------------------------------------------------------------------------------------------ observation
  void observe(M& m, const Model& mod, const std::string& last) const {
    const Universe& U = rules.U;
    const Shape& S = rules.S;
    auto cls = [&](const std::string& observer) { return "C09:" + observer + ":" + last; };
    auto ctx = [&]() { return " model=" + mod.key() + " impl=" + internals(m); };

    // ---- phase A: readers that do not force the lazy row permutation
    unsigned want_n = (unsigned)((S.mapc && !S.comp) ? mod.cols.size() : mod.next);
    unsigned got_n = m.get_number_of_columns();
    vf::stats().add("cmp.get_number_of_columns");
    if (got_n != want_n) rep.bad(cls("get_number_of_columns"), "got " + std::to_string(got_n) + " want " + std::to_string(want_n) + ctx());
    for (auto& kv : mod.cols) {
      unsigned i = (unsigned)kv.first;
      bool wz = rules.is_zero(kv.second);
      bool gz = m.is_zero_column(i);
      vf::stats().add("cmp.is_zero_column");
      if (gz != wz) rep.bad(cls("is_zero_column"), "column " + std::to_string(i) + " got " + std::to_string(gz) + " want " + std::to_string(wz) + ctx());
      for (int r = 0; r < U.R; ++r) {
        if (S.swaps && !mod.known.count(r)) continue;
        bool we = kv.second[r] == 0;
        bool ge = m.is_zero_entry(i, (unsigned)r);
        vf::stats().add("cmp.is_zero_entry");
        if (ge != we) rep.bad(cls("is_zero_entry"), "(" + std::to_string(i) + "," + std::to_string(r) + ") got " + std::to_string(ge) + " want " + std::to_string(we) + ctx());
      }
    }
    // ---- phase B: contents (get_column applies the pending row permutation)
    for (auto& kv : mod.cols) {
      unsigned i = (unsigned)kv.first;
      auto& col = m.get_column(i);
      auto got = col.get_content(U.R);
      Dense g(got.begin(), got.end());
      vf::stats().add("cmp.get_content");
      if (g != kv.second) rep.bad(cls("get_content"), "column " + std::to_string(i) + " got " + dense_str(g) + " want " + dense_str(kv.second) + ctx());
      auto got2 = col.get_content();
      Dense g2(got2.begin(), got2.end());
      Dense w2 = kv.second;
      while (!w2.empty() && w2.back() == 0) w2.pop_back();
      vf::stats().add("cmp.get_content_default_length");
      if (g2 != w2) rep.bad(cls("get_content_default_length"), "column " + std::to_string(i) + " got " + dense_str(g2) + " want " + dense_str(w2) + ctx());
    }
    if constexpr (COMP) {
      // identical non-zero columns share one representative object, different columns do not
      for (auto& a : mod.cols) for (auto& b : mod.cols) {
        if (a.first >= b.first) continue;
        if (rules.is_zero(a.second) || rules.is_zero(b.second)) continue;
        bool same = &m.get_column((unsigned)a.first) == &m.get_column((unsigned)b.first);
        vf::stats().add("cmp.shared_representative");
        if (same != (a.second == b.second))
          rep.bad(cls("shared_representative"), "columns " + std::to_string(a.first) + "," + std::to_string(b.first) + " share=" + std::to_string(same) + ctx());
      }
    }
    // ---- phase C: the entry readers again, now that the permutation has been applied
    if constexpr (SWAPS) {
      for (auto& kv : mod.cols) {
        unsigned i = (unsigned)kv.first;
        for (int r = 0; r < U.R; ++r) {
          if (!mod.known.count(r)) continue;
          bool we = kv.second[r] == 0;
          bool ge = m.is_zero_entry(i, (unsigned)r);
          vf::stats().add("cmp.is_zero_entry_after_get_column");
          if (ge != we) rep.bad(cls("is_zero_entry_after_get_column"), "(" + std::to_string(i) + "," + std::to_string(r) + ") got " + std::to_string(ge) + " want " + std::to_string(we) + ctx());
        }
        bool wz = rules.is_zero(kv.second);
        bool gz = m.is_zero_column(i);
        if (gz != wz) rep.bad(cls("is_zero_column_after_get_column"), "column " + std::to_string(i) + " got " + std::to_string(gz) + " want " + std::to_string(wz) + ctx());
      }
    }
    // ---- rows
    if constexpr (RA) {
      auto* rows = m.matrix_.rows_;
      for (int r = 0; r < U.R; ++r) {
        if (mod.cols.empty()) break;
        if constexpr (!COMP) (void)m.get_column((unsigned)mod.cols.begin()->first);  // rows are ordered by any get_column / get_row
        bool present;
        if constexpr (REMROW) present = rows->count((unsigned)r) > 0;
        else present = (size_t)r < rows->size();
        std::vector<std::pair<int, int>> want;  // (column, value)
        for (auto& kv : mod.cols) if (kv.second[r]) want.push_back({kv.first, kv.second[r]});
        vf::stats().add("cmp.get_row");
        if (!present) {
          vf::stats().add("rows.absent_from_container");
          if (!want.empty()) rep.bad(cls("get_row:row_missing"), "row " + std::to_string(r) + " has no container entry" + ctx());
          continue;
        }
        const auto& row = m.get_row((unsigned)r);
        std::vector<std::pair<int, int>> got;
        bool rowidx_ok = true;
        for (const auto& e : row) {
          int v = 1;
          if constexpr (!Z2) v = (int)e.get_element();
          got.push_back({(int)e.get_column_index(), v});
          if ((int)e.get_row_index() != r) rowidx_ok = false;
        }
        std::sort(got.begin(), got.end());
        auto pr = [](const std::vector<std::pair<int, int>>& v) {
          std::string s;
          for (auto& p : v) s += "(" + std::to_string(p.first) + ":" + std::to_string(p.second) + ")";
          return s;
        };
        if (!rowidx_ok) rep.bad(cls("get_row:entry_row_index"), "row " + std::to_string(r) + " lists an entry of another row" + ctx());
        if constexpr (!COMP) {
          if (got != want) rep.bad(cls("get_row"), "row " + std::to_string(r) + " got " + pr(got) + " want " + pr(want) + ctx());
        } else {
          // one entry per class with a non-zero value in this row; its column index is a member of that class
          std::map<int, int> class_val;
          for (auto& w : want) class_val[mod.cls.at(w.first)] = w.second;
          std::set<int> seen_cls;
          bool ok = got.size() == class_val.size();
          for (auto& g : got) {
            auto it = mod.cls.find(g.first);
            if (it == mod.cls.end() || !class_val.count(it->second) || class_val[it->second] != g.second || !seen_cls.insert(it->second).second) ok = false;
          }
          if (!ok) rep.bad(cls("get_row"), "row " + std::to_string(r) + " got " + pr(got) + " want one entry per class of " + pr(want) + ctx());
        }
      }
    }
  }

  // executes hist on a fresh matrix; compares the whole observable state after the last operation
  std::string execute(const std::vector<int>& hist) const {
    const Universe& U = rules.U;
    M m(0u, (typename M::Characteristic)U.P);
    Model mod;
    std::string last = "initial";
    try {
      for (size_t i = 0; i < hist.size(); ++i) {
        const Op& o = rules.ops[hist[i]];
        rules.apply(mod, o);
        apply_impl(m, o);
        last = kind_name[o.k];
      }
      std::string key = mod.key() + internals(m);
      observe(m, mod, last);
      return key;
    } catch (const std::exception& e) {
      std::string w = e.what();
      std::string k = w.find("at") != std::string::npos || w.find("range") != std::string::npos ? "out_of_range" : "other";
      rep.bad("C09:exception:" + k + ":" + last, std::string("exception '") + w + "' model=" + mod.key());
      return "BAD";
    }
  }

  std::string run(const std::vector<int>& hist) const {
    rep.cfg = rules.S.name;
    if (!hist.empty()) {
      Model before = model_after(hist, hist.size() - 1);
      const Op& o = rules.ops[hist.back()];
      std::string why = rules.risky(before, o);
      if (!why.empty()) {
        vf::stats().add("probe." + why);
        bool q = rep.quiet, d = rep.diverged;
        std::string res = vf::probe_range(0, 1, [&](size_t) { rep.quiet = true; execute(hist); return 'k'; }, 5);
        rep.quiet = q;
        rep.diverged = d;
        if (res != "k") {
          vf::stats().add("probe_died." + why);
          rep.bad(std::string("C09:crash:") + kind_name[o.k] + ":" + why,
                  "the process died (sanitizer report, signal or endless loop) executing the last operation; model before=" + before.key());
          return "BAD";
        }
      }
    }
    bool was = rep.diverged;
    rep.diverged = false;
    std::string key = execute(hist);
    bool d = rep.diverged;
    rep.diverged = was || d;
    if (!rep.quiet) {
      vf::stats().add("observations");
      if (!hist.empty()) vf::stats().add(std::string("op.") + kind_name[rules.ops[hist.back()].k]);
    }
    return d ? "BAD" : key;
  }
};

// ---------------------------------------------------------------------------------------------------------------
struct RunArgs {
  Universe U;
  int depth = -1;  // -1: closure required
  int workers = 2;
  int validate = 0;
  double deadline = 1e18;
  std::string only;       // substring filter on configuration names
  std::string replay_cfg; // replay: configuration name
  std::vector<int> replay_ops;
  bool failed = false;
  int configs = 0;
};

template <int V>
void run_variant(RunArgs& A) {
  constexpr VShape s = vshape(V);
  using O = Opt<s.z2, CT, s.ra, s.remrow, s.intr, s.mapc, s.swaps, s.comp>;
  Shape S = to_shape(V);
  if (s.z2 != (A.U.P == 2)) return;
  if (!A.only.empty() && S.name.find(A.only) == std::string::npos) return;
  if (!A.replay_cfg.empty() && S.name != A.replay_cfg) return;
  Driver<O> d;
  d.rules.U = A.U;
  d.rules.S = S;
  d.rules.build_alphabet();
  A.configs++;
  if (!A.replay_cfg.empty()) {
    for (size_t n = 0; n <= A.replay_ops.size(); ++n) {
      std::vector<int> p(A.replay_ops.begin(), A.replay_ops.begin() + n);
      vf::set_case(d.describe(p));
      d.run(p);
      vf::end_case();
    }
    return;
  }
  vf::ExploreCfg cfg;
  cfg.max_depth = A.depth < 0 ? 1000 : A.depth;
  cfg.workers = A.workers;
  cfg.deadline_s = A.deadline;
  cfg.validate_per_level = A.validate;
  cfg.scratch = "build/scratch";
  vf::ExploreResult r = vf::explore(d, cfg);
  vf::Stats& st = vf::stats();
  st.add("ev.states", r.states);
  st.add("ev.transitions", r.transitions);
  st.add("ev.traces", r.transitions + 1 + r.validated);
  st.add("ev.evaluations", r.transitions + 1 + r.validated);
  st.add("ev.nontrivial", r.states);
  bool complete = r.closed || (A.depth >= 0 && r.completed_depth >= A.depth && !r.deadline_hit && !r.failed);
  if (!complete) { st.add("ev.incomplete", 1); st.add("incomplete." + S.name, 1); }
  st.add("configs");
  if (r.closed) st.add("configs_closed");
  st.maxi("depth." + S.name, r.completed_depth);
  st.add("states." + S.name, r.states);
  st.maxi("alphabet_max", (long long)d.rules.ops.size());
  if (r.failed) A.failed = true;
}

template <int V>
void dispatch(RunArgs& A) {
  if constexpr (V < NVARIANTS) {
    if constexpr ((V % VF_NPARTS) == VF_PART && vvalid(V)) run_variant<V>(A);
    dispatch<V + 1>(A);
  }
}

int main(int argc, char** argv) {
  vf::Args a = vf::parse_args(argc, argv);
  vf::install_handlers();
  double t0 = vf::now_s();
  RunArgs A;
  A.U.R = (int)a.geti("R", 3);
  A.U.C = (int)a.geti("C", 2);
  A.U.P = (int)a.geti("P", 2);
  A.U.coefs = vf::parse_ints(a.get("coefs", A.U.P == 2 ? "0,1" : "0,1,2"));
  A.depth = (int)a.geti("depth", -1);
  A.workers = (int)a.geti("workers", 2);
  A.validate = (int)a.geti("validate", 0);
  A.only = a.get("only", "");
  A.deadline = t0 + (double)a.geti("budget", 120);
  if (!a.replay.empty()) {
    auto kv = vf::parse_kv(a.replay);
    A.replay_cfg = kv["cfg"];
    A.U.R = atoi(kv["R"].c_str());
    A.U.C = atoi(kv["C"].c_str());
    A.U.P = atoi(kv["P"].c_str());
    A.U.coefs = vf::parse_ints(kv["coefs"]);
    A.replay_ops = vf::parse_ints(kv["ops"]);
  }
  A.U.init();
  dispatch<0>(A);
  vf::finish();
  return A.failed ? 3 : 0;
}
