// C09 - general matrices behave as dense matrices, whatever the column representation.
// E1 explicit-state exploration (with closure) of the real Gudhi::persistence_matrix::Matrix in its "base matrix"
// flavours.  One binary = one column type (-DVF_CT=0..8) and one slice (-DVF_PART / -DVF_NPARTS) of the 50 option
// shapes {Z_2,Z_p} x ({no rows, 4 row-access kinds} x {vector,map container} x {swaps off,on}  +  compression x 5).
//
// Every history is executed on a fresh Matrix inside an "executor" child of the exploring process (request/answer over
// a pipe): a sanitizer abort, a signal or an endless loop inside the library is then one more observation of that
// history (class C09:crash:...) and the exploration goes on.  The executor answers with the canonical key of the state
// and with every disagreement between the real matrix and the dense reference model.
#include "c09_common.hpp"

#include <sys/mman.h>
#include <sys/wait.h>
#include <unistd.h>

#ifndef VF_CT
#define VF_CT 0
#endif
#ifndef VF_PART
#define VF_PART 0
#endif
#ifndef VF_NPARTS
#define VF_NPARTS 1
#endif
#ifndef VF_SEL
#define VF_SEL(s) true
#endif

using namespace c09;

static constexpr Column_types kColumnTypes[9] = {
    Column_types::LIST,          Column_types::SET,          Column_types::HEAP,
    Column_types::VECTOR,        Column_types::NAIVE_VECTOR, Column_types::SMALL_VECTOR,
    Column_types::UNORDERED_SET, Column_types::INTRUSIVE_LIST, Column_types::INTRUSIVE_SET};
static constexpr Column_types CT = kColumnTypes[VF_CT];
static constexpr int NVARIANTS = 50;

struct VShape {
  bool z2, ra, remrow, intr, mapc, swaps, comp;
};
static constexpr VShape vshape(int v) {
  VShape s{};
  s.z2 = (v % 2) == 0;
  int t = v / 2;  // 0..24
  int rav = 0;
  if (t < 20) { rav = t / 4; s.mapc = ((t % 4) / 2) == 1; s.swaps = (t % 2) == 1; s.comp = false; }
  else { rav = t - 20; s.mapc = false; s.swaps = false; s.comp = true; }
  s.ra = rav != 0;
  s.remrow = (rav == 2 || rav == 3);
  s.intr = (rav == 2 || rav == 4);
  return s;
}
static constexpr bool vvalid(int v) {
  VShape s = vshape(v);
  if (!(VF_SEL(s))) return false;  // development aid: compile a subset of the shapes
  if (CT == Column_types::HEAP && (s.ra || s.comp)) return false;  // documented: heap has neither row access nor compression
  return true;
}

static Shape to_shape(int v) {
  VShape s = vshape(v);
  Shape r;
  r.z2 = s.z2; r.ra = s.ra; r.remrow = s.remrow; r.intr = s.intr; r.mapc = s.mapc; r.swaps = s.swaps; r.comp = s.comp;
  std::ostringstream n;
  n << ct_name(CT) << (s.z2 ? ".z2" : ".zp") << (s.comp ? ".comp" : ".base")
    << (!s.ra ? ".norows" : (s.intr ? ".introws" : ".setrows")) << (s.ra ? (s.remrow ? "_map" : "_vec") : "")
    << (s.comp ? "" : (s.mapc ? ".mapc" : ".vecc")) << (s.comp ? "" : (s.swaps ? ".swaps" : ".noswap"));
  r.name = n.str();
  return r;
}

// ---------------------------------------------------------------------------------------------------------------
enum { N_NCOLS, N_ZCOL, N_ZENT, N_CONTENT, N_CONTENT_DEF, N_SHARED, N_ZENT2, N_ROW, N_ROW_ABSENT, N_CMP };
static const char* cmp_name[N_CMP] = {"cmp.get_number_of_columns", "cmp.is_zero_column", "cmp.is_zero_entry", "cmp.get_content",
                                      "cmp.get_content_default_length", "cmp.shared_representative",
                                      "cmp.is_zero_entry_after_get_column", "cmp.get_row", "rows.absent_from_container"};

struct Finding {
  std::string cls, detail;
};
// facts about the internal state used to name the situation in which a disagreement was seen
struct Facts {
  bool rowSwapped = false;     // a lazy permutation is pending
  bool mapsIdentity = true;    // both swap maps are the identity on their domain
  bool staleColIndex = false;  // row access: a column (or one of its entries) does not carry the index of its position
  bool erasedAny = false;      // vector column: some lazily erased row recorded
  bool erasedAbsent = false;   // vector column: a recorded erased row has no entry in the column
  bool heapViolated = false;   // heap column: the array is not a heap
  bool reorderUnsafe = false;  // a reorder looping over 0..number_of_columns-1 would leave the containers
  bool mapsBroken = false;     // the two swap maps are not inverse of each other
  bool knownRowLost = false;   // map container: a row the model knows to be registered has no key in indexToRow_
  std::string str() const {
    std::string s = "rows_swapped=0 maps_identity=0 stale_column_index=0 erased=0 erased_absent=0 not_heap=0 reorder_unsafe=0 maps_broken=0 known_row_lost=0";
    bool v[9] = {rowSwapped, mapsIdentity, staleColIndex, erasedAny, erasedAbsent, heapViolated, reorderUnsafe, mapsBroken, knownRowLost};
    int k = 0;
    for (auto& c : s) if (c == '=') { (&c)[1] = v[k++] ? '1' : '0'; }
    return s;
  }
  void parse(const std::string& s) {
    bool* v[9] = {&rowSwapped, &mapsIdentity, &staleColIndex, &erasedAny, &erasedAbsent, &heapViolated, &reorderUnsafe, &mapsBroken, &knownRowLost};
    int k = 0;
    for (size_t i = 0; i + 1 < s.size() && k < 9; ++i) if (s[i] == '=') *v[k++] = s[i + 1] == '1';
  }
};
struct Outcome {
  std::string key = "BAD";
  bool diverged = false;
  std::vector<Finding> findings;
  long long ncmp[N_CMP] = {0};
};

// ---- tiny framing for the executor pipe
static bool write_all(int fd, const void* p, size_t n) {
  const char* c = (const char*)p;
  while (n) { ssize_t w = write(fd, c, n); if (w <= 0) return false; c += w; n -= (size_t)w; }
  return true;
}
static bool read_all(int fd, void* p, size_t n) {
  char* c = (char*)p;
  while (n) { ssize_t r = read(fd, c, n); if (r <= 0) return false; c += r; n -= (size_t)r; }
  return true;
}
static bool put_str(int fd, const std::string& s) {
  uint32_t n = (uint32_t)s.size();
  return write_all(fd, &n, 4) && write_all(fd, s.data(), n);
}
static bool get_str(int fd, std::string& s) {
  uint32_t n;
  if (!read_all(fd, &n, 4) || n > (1u << 24)) return false;
  s.assign(n, '\0');
  return n == 0 || read_all(fd, &s[0], n);
}

static bool g_keep_executor_stderr = false;

// Shared between the exploring processes of one configuration (anonymous shared mapping): the number of transitions that
// left the model so far, and its value at the start of every BFS level.  Once a level starts with more than g_limit
// such transitions the configuration is not expanded further (the run is already a failure; it is then reported as
// incomplete, never as exhaustive).  The value at a level start does not depend on the scheduling of the workers.
struct Shared {
  long diverged;
  long at_level[128];
};
static Shared* g_shared = nullptr;
static long g_limit = 300;
static void shared_reset() {
  if (!g_shared) g_shared = (Shared*)mmap(nullptr, sizeof(Shared), PROT_READ | PROT_WRITE, MAP_SHARED | MAP_ANONYMOUS, -1, 0);
  if (g_shared == MAP_FAILED) { g_shared = nullptr; return; }
  g_shared->diverged = 0;
  for (long& v : g_shared->at_level) v = -1;
}
static bool too_many_disagreements(size_t depth) {
  if (!g_shared || depth >= 128) return false;
  long v = __atomic_load_n(&g_shared->at_level[depth], __ATOMIC_SEQ_CST);
  if (v < 0) {
    long cur = __atomic_load_n(&g_shared->diverged, __ATOMIC_SEQ_CST), expected = -1;
    if (__atomic_compare_exchange_n(&g_shared->at_level[depth], &expected, cur, false, __ATOMIC_SEQ_CST, __ATOMIC_SEQ_CST)) v = cur;
    else v = expected;
  }
  return v > g_limit;
}

template <class O>
struct Driver {
  using M = Gudhi::persistence_matrix::Matrix<O>;
  using Entry = typename M::Matrix_entry;
  using ERep = typename M::Entry_representative;
  static constexpr bool Z2 = O::is_z2;
  static constexpr bool RA = O::has_row_access;
  static constexpr bool COMP = O::has_column_compression;
  static constexpr bool SWAPS = O::has_column_and_row_swaps;
  static constexpr bool MAPC = O::has_map_column_container;
  static constexpr bool REMROW = O::has_removable_rows;
  static constexpr bool INTR = O::has_intrusive_rows;

  Rules rules;

  // ------------------------------------------------------------------------------------------------ model side
  Model model_after(const std::vector<int>& hist, size_t n) const {
    Model m;
    for (size_t i = 0; i < n; ++i) rules.apply(m, rules.ops[hist[i]]);
    return m;
  }
  std::string describe(const std::vector<int>& hist) const {
    std::ostringstream o;
    o << "cfg=" << rules.S.name << ";R=" << rules.U.R << ";C=" << rules.U.C << ";P=" << rules.U.P
      << ";coefs=" << vf::join(rules.U.coefs) << ";ops=" << vf::join(hist) << ";text=";
    for (int c : hist) o << rules.op_text(rules.ops[c]) << " ";
    return o.str();
  }

  // --------------------------------------------------------------------------------------- implementation side
  std::vector<ERep> make_column(const Dense& d) const {
    std::vector<ERep> c;
    for (int r = 0; r < (int)d.size(); ++r) {
      if (!d[r]) continue;
      if constexpr (Z2) c.push_back((unsigned)r);
      else c.push_back(ERep((unsigned)r, (typename M::Element)d[r]));
    }
    return c;
  }
  std::vector<Entry> make_range(const Dense& d) const {
    std::vector<Entry> c;
    for (int r = 0; r < (int)d.size(); ++r) {
      if (!d[r]) continue;
      Entry e((unsigned)r);
      if constexpr (!Z2) e.set_element((typename M::Element)d[r]);
      c.push_back(e);
    }
    return c;
  }

  void apply_impl(M& m, const Op& o) const {
    const Universe& U = rules.U;
    unsigned a = (unsigned)o.a, b = (unsigned)o.b;
    switch (o.k) {
      case INS: m.insert_column(make_column(U.contents[o.c])); break;
      case INS_AT: if constexpr (!RA && !COMP) m.insert_column(make_column(U.contents[o.c]), b); break;
      case REM_LAST: if constexpr (!COMP) m.remove_last(); break;
      case REM_COL: if constexpr (MAPC && !COMP) m.remove_column(a); break;
      case ADD: m.add_to(a, b); break;
      case ADD_R: m.add_to(make_range(U.contents[o.c]), b); break;
      case MTA: m.multiply_target_and_add_to(a, o.q, b); break;
      case MTA_R: m.multiply_target_and_add_to(make_range(U.contents[o.c]), o.q, b); break;
      case MSA: m.multiply_source_and_add_to(o.q, a, b); break;
      case MSA_R: m.multiply_source_and_add_to(o.q, make_range(U.contents[o.c]), b); break;
      case ZERO_E: if constexpr (!COMP) m.zero_entry(a, b); break;
      case ZERO_C: if constexpr (!COMP) m.zero_column(a); break;
      case SWAP_R: if constexpr (SWAPS && !COMP) m.swap_rows(a, b); break;
      case SWAP_C: if constexpr (SWAPS && !COMP) m.swap_columns(a, b); break;
      case ERASE_ROW: m.erase_empty_row(a); break;
      case TOUCH: (void)m.get_column(a); break;
      default: break;
    }
  }

  template <class It>
  static const Entry* entry_of(const It& it) {
    if constexpr (CT == Column_types::INTRUSIVE_LIST || CT == Column_types::INTRUSIVE_SET) return &*it;
    else return *it;
  }

  // internal representation of one column (storage order, lazy state)
  template <class Col>
  static void column_internals(const Col& c, std::ostringstream& o) {
    for (auto it = c.column_.begin(); it != c.column_.end(); ++it) {
      const Entry* e = entry_of(it);
      o << e->get_row_index();
      if constexpr (!Z2) o << ":" << (unsigned)e->get_element();
      if constexpr (RA) o << "@" << e->get_column_index();
      o << ",";
    }
    if constexpr (RA) o << "i" << c.get_column_index();
    if constexpr (CT == Column_types::HEAP) o << "p" << c.insertsSinceLastPrune_;
    if constexpr (CT == Column_types::VECTOR) {
      std::vector<unsigned> er(c.erasedValues_.begin(), c.erasedValues_.end());
      std::sort(er.begin(), er.end());
      o << "e" << vf::join(er);
    }
  }

  template <class Col>
  static void column_facts(const Col& c, unsigned position, Facts& f) {
    std::vector<unsigned> rows;
    for (auto it = c.column_.begin(); it != c.column_.end(); ++it) {
      const Entry* e = entry_of(it);
      rows.push_back(e->get_row_index());
      if constexpr (RA) if (e->get_column_index() != position) f.staleColIndex = true;
    }
    if constexpr (RA) if (!rows.empty() && c.get_column_index() != position) f.staleColIndex = true;
    if constexpr (CT == Column_types::HEAP) if (!std::is_heap(rows.begin(), rows.end())) f.heapViolated = true;
    if constexpr (CT == Column_types::VECTOR) {
      for (unsigned r : c.erasedValues_) {
        f.erasedAny = true;
        if (std::find(rows.begin(), rows.end(), r) == rows.end()) f.erasedAbsent = true;
      }
    }
  }

  Facts facts(M& m, const Model& mod) const {
    Facts f;
    if constexpr (!COMP) {
      auto& B = m.matrix_;
      if constexpr (MAPC) { for (auto& kv : B.matrix_) column_facts(kv.second, kv.first, f); }
      else { for (size_t i = 0; i < B.matrix_.size(); ++i) column_facts(B.matrix_[i], (unsigned)i, f); }
      if constexpr (SWAPS) {
        f.rowSwapped = B.rowSwapped_;
        if constexpr (MAPC) {
          for (auto& kv : B.indexToRow_) if (kv.first != kv.second) f.mapsIdentity = false;
          for (auto& kv : B.rowToIndex_) if (kv.first != kv.second) f.mapsIdentity = false;
          if (B.indexToRow_.size() != B.rowToIndex_.size()) f.mapsBroken = true;
          for (auto& kv : B.indexToRow_) {
            auto it = B.rowToIndex_.find(kv.second);
            if (it == B.rowToIndex_.end() || it->second != kv.first) f.mapsBroken = true;
          }
          for (int r : mod.known) if (!B.indexToRow_.count((unsigned)r)) f.knownRowLost = true;
        } else {
          for (size_t i = 0; i < B.indexToRow_.size(); ++i)
            if (B.indexToRow_[i] >= B.rowToIndex_.size() || B.rowToIndex_[B.indexToRow_[i]] != i) f.mapsBroken = true;
          for (size_t i = 0; i < B.indexToRow_.size(); ++i) if (B.indexToRow_[i] != i) f.mapsIdentity = false;
          for (size_t i = 0; i < B.rowToIndex_.size(); ++i) if (B.rowToIndex_[i] != i) f.mapsIdentity = false;
          if (B.rowToIndex_.size() != B.indexToRow_.size()) f.mapsIdentity = false;
          if (B.indexToRow_.size() < B.nextInsertIndex_ || B.rowToIndex_.size() < B.nextInsertIndex_) f.reorderUnsafe = true;
          if (B.matrix_.size() < B.nextInsertIndex_) f.reorderUnsafe = true;
        }
        if constexpr (MAPC) {
          for (unsigned i = 0; i < B.matrix_.size(); ++i) if (!B.matrix_.count(i)) f.reorderUnsafe = true;
        }
      }
    }
    return f;
  }

  template <class Dict>
  static void dict_str(const Dict& d, std::ostringstream& o) {
    if constexpr (MAPC) {
      std::vector<std::pair<unsigned, unsigned>> v(d.begin(), d.end());
      std::sort(v.begin(), v.end());
      for (auto& kv : v) o << kv.first << ">" << kv.second << ",";
    } else {
      for (size_t i = 0; i < d.size(); ++i) o << d[i] << ",";
    }
  }

  void rows_internals(M& m, std::ostringstream& o) const {
    if constexpr (RA) {
      auto* rows = m.matrix_.rows_;
      o << "|rows:";
      auto one = [&](unsigned r, const typename M::Row& row) {
        std::vector<std::string> es;
        for (const auto& e : row) {
          std::ostringstream s;
          s << e.get_column_index() << "." << e.get_row_index();
          if constexpr (!Z2) s << "." << (unsigned)e.get_element();
          es.push_back(s.str());
        }
        std::sort(es.begin(), es.end());
        o << r << "{" << vf::join(es) << "}";
      };
      if constexpr (REMROW) { for (auto& kv : *rows) one(kv.first, kv.second); }
      else { for (size_t r = 0; r < rows->size(); ++r) one((unsigned)r, (*rows)[r]); }
    }
  }

  std::string internals(M& m) const {
    std::ostringstream o;
    auto& B = m.matrix_;
    if constexpr (!COMP) {
      o << "|n" << B.nextInsertIndex_ << "|";
      if constexpr (MAPC) {
        std::vector<unsigned> idx;
        for (auto& kv : B.matrix_) idx.push_back(kv.first);
        std::sort(idx.begin(), idx.end());
        for (unsigned i : idx) { o << i << "("; column_internals(B.matrix_.at(i), o); o << ")"; }
      } else {
        for (size_t i = 0; i < B.matrix_.size(); ++i) { o << "("; column_internals(B.matrix_[i], o); o << ")"; }
      }
      if constexpr (SWAPS) {
        o << "|s" << (int)B.rowSwapped_ << " i2r:";
        dict_str(B.indexToRow_, o);
        o << " r2i:";
        dict_str(B.rowToIndex_, o);
      }
    } else {
      o << "|n" << B.nextColumnIndex_ << "|uf:";
      for (auto p : B.columnClasses_.parent) o << p << ",";
      o << "/";
      for (auto r : B.columnClasses_.rank) o << (int)r << ",";
      o << "|";
      for (size_t i = 0; i < B.repToColumn_.size(); ++i) {
        if (B.repToColumn_[i] == nullptr) { o << "-"; continue; }
        o << "(r" << B.repToColumn_[i]->get_rep() << ":";
        column_internals(*B.repToColumn_[i], o);
        o << ")";
      }
    }
    rows_internals(m, o);
    return o.str();
  }

  // Names the situation in which a disagreement was observed, so that different root causes get different classes.
  // pre = facts before the last operation, post = facts at the moment of the observation (== pre for a death).
  std::string situation(const Op* o, const Model& before, const Facts& pre, const Facts& post, bool abnormal) const {
    const Shape& S = rules.S;
    if (!o) return "initial_state";
    std::string nopath = rules.risky(before, *o);
    if (S.comp && !nopath.empty()) return nopath;
    bool range_op = o->k == ADD_R || o->k == MTA_R || o->k == MSA_R;
    bool col_op = o->k == ADD || o->k == MTA || o->k == MSA;
    bool target_zero = (range_op || col_op) && before.cols.count(o->b) && rules.is_zero(before.cols.at(o->b));
    bool target_emptied = (o->k == MTA || o->k == MTA_R) && rules.U.mod(o->q) == 0;
    if (S.swaps) {
      if (pre.knownRowLost || post.knownRowLost) return "swap_rows_with_row_unknown_to_the_maps";
      if (pre.mapsBroken || (!pre.rowSwapped && !pre.mapsIdentity)) return "reorder_bounded_by_number_of_columns";  // left behind by an earlier reorder
      if (abnormal && o->k == INS_AT && !S.mapc && pre.rowSwapped) return "insert_column_at_counted_before_pending_reorder";
      if (abnormal && (pre.rowSwapped || post.rowSwapped || o->k == SWAP_R || o->k == SWAP_C) && (pre.reorderUnsafe || post.reorderUnsafe))
        return "reorder_bounded_by_number_of_columns";
      if (range_op && pre.rowSwapped && !pre.mapsIdentity) return "entry_range_rows_not_translated_under_pending_row_swap";
      if (!post.rowSwapped && (!post.mapsIdentity || post.mapsBroken)) return "reorder_bounded_by_number_of_columns";
      if (CT == Column_types::VECTOR && (pre.erasedAbsent || post.erasedAbsent)) return "vector_column_zeroed_absent_entry_recorded_as_erased";
      if (S.ra && (pre.staleColIndex || post.staleColIndex || o->k == SWAP_C))
        return S.intr ? "column_index_outdated_after_swap_columns" : "set_rows_after_swap_columns";
      if (!nopath.empty()) return nopath;
    }
    if (CT == Column_types::HEAP) {
      if (pre.heapViolated || post.heapViolated) return "heap_column_not_a_heap_after_range_copied_into_empty_column";
      if ((o->k == MSA || o->k == MSA_R) && target_zero) return "heap_column_multiply_source_and_add_into_empty_column";
    }
    if (CT == Column_types::VECTOR) {
      if (pre.erasedAbsent || post.erasedAbsent) return "vector_column_zeroed_absent_entry_recorded_as_erased";
      if (pre.erasedAny && col_op && (target_zero || target_emptied)) return "vector_column_lazily_erased_source_copied_into_empty_column";
      if (pre.erasedAny || post.erasedAny) return "vector_column_lazily_erased_entry";
    }
    return std::string("unclassified_") + kind_name[o->k];
  }

  // ------------------------------------------------------------------------------------------------ observation
  void observe(M& m, const Model& mod, Outcome& out, const std::function<std::string()>& sit) const {
    const Universe& U = rules.U;
    const Shape& S = rules.S;
    std::string sit_cache;
    auto bad = [&](const std::string& observer, const std::string& detail) {
      if (sit_cache.empty()) sit_cache = sit();
      out.diverged = true;
      // observer groups: "rows" = get_row; "content" = every reader of columns and entries
      std::string cls = std::string("C09:") + (observer == "get_row" ? "rows" : "content") + ":" + sit_cache;
      for (auto& f : out.findings) if (f.cls == cls) return;  // the first disagreement of a class is the one reported
      out.findings.push_back({cls, S.name + " " + observer + ": " + detail + " model=" + mod.key() + " impl=" + internals(m)});
    };
    long long* ncmp = out.ncmp;

    // ---- phase A: readers that do not force the lazy row permutation
    unsigned want_n = (unsigned)((S.mapc && !S.comp) ? mod.cols.size() : mod.next);
    unsigned got_n = m.get_number_of_columns();
    ncmp[N_NCOLS]++;
    if (got_n != want_n) bad("get_number_of_columns", "got " + std::to_string(got_n) + " want " + std::to_string(want_n));
    for (auto& kv : mod.cols) {
      unsigned i = (unsigned)kv.first;
      bool wz = rules.is_zero(kv.second);
      bool gz = m.is_zero_column(i);
      ncmp[N_ZCOL]++;
      if (gz != wz) bad("is_zero_column", "column " + std::to_string(i) + " got " + std::to_string(gz) + " want " + std::to_string(wz));
      for (int r = 0; r < U.R; ++r) {
        if (S.swaps && !mod.known.count(r)) continue;
        bool we = kv.second[r] == 0;
        bool ge = m.is_zero_entry(i, (unsigned)r);
        ncmp[N_ZENT]++;
        if (ge != we) bad("is_zero_entry", "(" + std::to_string(i) + "," + std::to_string(r) + ") got " + std::to_string(ge) + " want " + std::to_string(we));
      }
    }
    // ---- phase B: contents (get_column applies the pending row permutation)
    for (auto& kv : mod.cols) {
      unsigned i = (unsigned)kv.first;
      auto& col = m.get_column(i);
      auto got = col.get_content(U.R);
      Dense g(got.begin(), got.end());
      ncmp[N_CONTENT]++;
      if (g != kv.second) bad("get_content", "column " + std::to_string(i) + " got " + dense_str(g) + " want " + dense_str(kv.second));
      auto got2 = col.get_content();
      Dense g2(got2.begin(), got2.end());
      Dense w2 = kv.second;
      while (!w2.empty() && w2.back() == 0) w2.pop_back();
      ncmp[N_CONTENT_DEF]++;
      if (g2 != w2) bad("get_content_default_length", "column " + std::to_string(i) + " got '" + dense_str(g2) + "' want '" + dense_str(w2) + "'");
    }
    if constexpr (COMP) {
      // identical non-zero columns share one representative object, different columns do not
      for (auto& a : mod.cols) for (auto& b : mod.cols) {
        if (a.first >= b.first) continue;
        if (rules.is_zero(a.second) || rules.is_zero(b.second)) continue;
        bool same = &m.get_column((unsigned)a.first) == &m.get_column((unsigned)b.first);
        ncmp[N_SHARED]++;
        if (same != (a.second == b.second))
          bad("shared_representative", "columns " + std::to_string(a.first) + "," + std::to_string(b.first) + " share=" + std::to_string(same));
      }
    }
    // ---- phase C: the entry readers again, now that the permutation has been applied
    if constexpr (SWAPS) {
      for (auto& kv : mod.cols) {
        unsigned i = (unsigned)kv.first;
        for (int r = 0; r < U.R; ++r) {
          if (!mod.known.count(r)) continue;
          bool we = kv.second[r] == 0;
          bool ge = m.is_zero_entry(i, (unsigned)r);
          ncmp[N_ZENT2]++;
          if (ge != we) bad("is_zero_entry_after_get_column", "(" + std::to_string(i) + "," + std::to_string(r) + ") got " + std::to_string(ge) + " want " + std::to_string(we));
        }
        bool wz = rules.is_zero(kv.second);
        bool gz = m.is_zero_column(i);
        if (gz != wz) bad("is_zero_column_after_get_column", "column " + std::to_string(i) + " got " + std::to_string(gz) + " want " + std::to_string(wz));
      }
    }
    // ---- rows
    if constexpr (RA) {
      auto* rows = m.matrix_.rows_;
      for (int r = 0; r < U.R; ++r) {
        if (mod.cols.empty()) break;
        bool present;
        if constexpr (REMROW) present = rows->count((unsigned)r) > 0;
        else present = (size_t)r < rows->size();
        std::vector<std::pair<int, int>> want;  // (column, value)
        for (auto& kv : mod.cols) if (kv.second[r]) want.push_back({kv.first, kv.second[r]});
        ncmp[N_ROW]++;
        if (!present) {
          // a row the container has never seen (or that was erased as empty) can only be a zero row
          ncmp[N_ROW_ABSENT]++;
          if (!want.empty()) bad("get_row", "row " + std::to_string(r) + " has no container entry");
          continue;
        }
        const auto& row = m.get_row((unsigned)r);
        std::vector<std::pair<int, int>> got;
        bool rowidx_ok = true;
        for (const auto& e : row) {
          int v = 1;
          if constexpr (!Z2) v = (int)e.get_element();
          got.push_back({(int)e.get_column_index(), v});
          if ((int)e.get_row_index() != r) rowidx_ok = false;
        }
        std::sort(got.begin(), got.end());
        auto pr = [](const std::vector<std::pair<int, int>>& v) {
          std::string s;
          for (auto& p : v) s += "(" + std::to_string(p.first) + ":" + std::to_string(p.second) + ")";
          return s;
        };
        if (!rowidx_ok) bad("get_row", "row " + std::to_string(r) + " lists an entry whose row index is another row");
        if constexpr (!COMP) {
          if (got != want) bad("get_row", "row " + std::to_string(r) + " got " + pr(got) + " want " + pr(want));
        } else {
          // one entry per class with a non-zero value in this row; its column index is a member of that class
          std::map<int, int> class_val;
          for (auto& w : want) class_val[mod.cls.at(w.first)] = w.second;
          std::set<int> seen_cls;
          bool ok = got.size() == class_val.size();
          for (auto& g : got) {
            auto it = mod.cls.find(g.first);
            if (it == mod.cls.end() || !class_val.count(it->second) || class_val[it->second] != g.second || !seen_cls.insert(it->second).second) ok = false;
          }
          if (!ok) bad("get_row", "row " + std::to_string(r) + " got " + pr(got) + " want one entry per class of " + pr(want));
        }
      }
    }
  }

  // executes hist on a fresh matrix; compares the whole observable state after the last operation.
  // pre_fd >= 0: the facts before the last operation are written there first (the caller needs them if we die).
  Outcome execute(const std::vector<int>& hist, int pre_fd) const {
    const Universe& U = rules.U;
    Outcome out;
    M m(0u, (typename M::Characteristic)U.P);
    Model mod, before;
    Facts pre;
    const Op* last = nullptr;
    bool in_last = false;
    try {
      for (size_t i = 0; i < hist.size(); ++i) {
        const Op& o = rules.ops[hist[i]];
        if (i + 1 == hist.size()) {
          before = mod;
          pre = facts(m, mod);
          last = &o;
          if (pre_fd >= 0) { put_str(pre_fd, pre.str()); pre_fd = -1; }
          in_last = true;
        }
        rules.apply(mod, o);
        apply_impl(m, o);
      }
      if (pre_fd >= 0) put_str(pre_fd, pre.str());
      in_last = false;
      out.key = mod.key() + internals(m);
      observe(m, mod, out, [&]() { return situation(last, before, pre, facts(m, mod), false); });
    } catch (const std::exception& e) {
      if (pre_fd >= 0) put_str(pre_fd, pre.str());
      out.diverged = true;
      std::string sit = situation(last, before, pre, facts(m, mod), true);
      out.findings.push_back({"C09:exception:" + sit, rules.S.name + " exception '" + e.what() + "' " + (in_last ? "in the last operation" : "while reading the state") +
                                                          " model=" + mod.key()});
    }
    if (out.diverged) out.key = "BAD";
    return out;
  }

  // ------------------------------------------------------------------------------------------------- executor
  mutable pid_t srv_pid = -1, srv_owner = -1;
  mutable int srv_in = -1, srv_out = -1;  // we write requests to srv_in, read answers from srv_out

  void serve(int rfd, int wfd) const {
    vf::g_probe_child = true;
    if (!g_keep_executor_stderr) {
      int fd = open("/dev/null", O_WRONLY);
      if (fd >= 0) dup2(fd, 2);
    }
    for (;;) {
      uint32_t n;
      if (!read_all(rfd, &n, 4)) _exit(0);
      std::vector<int> hist(n);
      if (n && !read_all(rfd, hist.data(), 4 * (size_t)n)) _exit(0);
      alarm(10);
      Outcome out = execute(hist, wfd);
      alarm(0);
      uint32_t nf = (uint32_t)out.findings.size();
      uint32_t d = out.diverged;
      bool ok = put_str(wfd, out.key) && write_all(wfd, &d, 4) && write_all(wfd, &nf, 4);
      for (auto& f : out.findings) ok = ok && put_str(wfd, f.cls) && put_str(wfd, f.detail);
      ok = ok && write_all(wfd, out.ncmp, sizeof(out.ncmp));
      if (!ok) _exit(0);
    }
  }
  void stop_server() const {
    if (srv_in >= 0) close(srv_in);
    if (srv_out >= 0) close(srv_out);
    if (srv_pid > 0 && srv_owner == getpid()) { int st; waitpid(srv_pid, &st, 0); }
    srv_pid = -1; srv_in = srv_out = -1;
  }
  bool start_server() const {
    if (srv_pid > 0 && srv_owner != getpid()) {  // inherited from the process that forked us: not ours
      close(srv_in); close(srv_out);
      srv_pid = -1; srv_in = srv_out = -1;
    }
    if (srv_pid > 0) return true;
    int req[2], ans[2];
    if (pipe(req) != 0 || pipe(ans) != 0) return false;
    fflush(stdout);
    pid_t p = fork();
    if (p < 0) return false;
    if (p == 0) {
      close(req[1]); close(ans[0]);
      serve(req[0], ans[1]);
      _exit(0);
    }
    close(req[0]); close(ans[1]);
    srv_pid = p; srv_owner = getpid(); srv_in = req[1]; srv_out = ans[0];
    return true;
  }

  // returns false if the executor died while executing hist; pre is filled when it got as far as the last operation
  bool remote(const std::vector<int>& hist, Outcome& out, Facts& pre, bool& got_pre) const {
    got_pre = false;
    if (!start_server()) { fprintf(stderr, "cannot start the executor\n"); _exit(9); }
    uint32_t n = (uint32_t)hist.size();
    bool ok = write_all(srv_in, &n, 4) && (n == 0 || write_all(srv_in, hist.data(), 4 * (size_t)n));
    std::string ps;
    if (ok && get_str(srv_out, ps)) { pre.parse(ps); got_pre = true; } else ok = false;
    uint32_t d = 0, nf = 0;
    ok = ok && get_str(srv_out, out.key) && read_all(srv_out, &d, 4) && read_all(srv_out, &nf, 4) && nf < 1000;
    if (ok) {
      out.diverged = d != 0;
      out.findings.resize(nf);
      for (auto& f : out.findings) ok = ok && get_str(srv_out, f.cls) && get_str(srv_out, f.detail);
      ok = ok && read_all(srv_out, out.ncmp, sizeof(out.ncmp));
    }
    if (!ok) stop_server();
    return ok;
  }

  std::string crash_situation(const Model& before, const Op& o, bool got_pre, const Facts& pre) const {
    std::string r = rules.risky(before, o);
    if (!r.empty()) return r;
    if (!got_pre) return "while_replaying_the_prefix";
    std::string s = situation(&o, before, pre, pre, true);
    return s;
  }

  mutable std::map<std::string, int> deaths;  // per certain-crash situation, in this process

  // one transition: returns the canonical key ("BAD" when the implementation left the model)
  std::string step(const std::vector<int>& hist, bool quiet, bool& diverged) const {
    diverged = false;
    Model before;
    const Op* o = nullptr;
    std::string why;
    if (!hist.empty()) {
      before = model_after(hist, hist.size() - 1);
      o = &rules.ops[hist.back()];
      why = rules.risky(before, *o);
      // a situation without a dedicated code path in which the executor already died three times in this process is
      // counted, not executed again and again (each death costs a sanitizer report and a new executor)
      if (!why.empty() && deaths[why] >= 3) {
        if (!quiet) vf::stats().add("not_executed.assumed_crash." + why);
        diverged = true;
        return "BAD";
      }
    }
    Outcome out;
    Facts pre;
    bool got_pre = false;
    if (!remote(hist, out, pre, got_pre)) {
      diverged = true;
      std::string sit = o ? crash_situation(before, *o, got_pre, pre) : "initial_state";
      deaths[sit]++;
      if (!quiet) {
        if (g_shared) __atomic_add_fetch(&g_shared->diverged, 1, __ATOMIC_SEQ_CST);
        vf::stats().add("executor_died." + sit);
        vf::mismatch("C09:crash:" + sit, rules.S.name + " the process died (sanitizer report, signal or endless loop) executing " +
                                             (o ? rules.op_text(*o) : std::string("nothing")) + "; model before=" + before.key() +
                                             " facts before=" + (got_pre ? pre.str() : "?"));
      }
      return "BAD";
    }
    diverged = out.diverged;
    if (!quiet) {
      if (diverged && g_shared) __atomic_add_fetch(&g_shared->diverged, 1, __ATOMIC_SEQ_CST);
      for (auto& f : out.findings) vf::mismatch(f.cls, f.detail);
      for (int i = 0; i < N_CMP; ++i) if (out.ncmp[i]) vf::stats().add(cmp_name[i], out.ncmp[i]);
      vf::stats().add("observations");
      if (o) vf::stats().add(std::string("op.") + kind_name[o->k]);
      if (!why.empty()) vf::stats().add("executed.no_dedicated_path." + why);
    }
    return out.key;
  }

  std::string run(const std::vector<int>& hist) const {
    bool d;
    return step(hist, false, d);
  }
  std::vector<int> enabled(const std::vector<int>& hist) const {
    std::vector<int> r;
    if (too_many_disagreements(hist.size())) {
      vf::stats().add("stopped.states_not_expanded_after_" + std::to_string(g_limit) + "_disagreements");
      return r;
    }
    if (!hist.empty()) {
      // a state whose last transition disagreed with the model is not expanded (its successors would be compared with
      // a model the implementation has already left)
      bool d;
      step(hist, true, d);
      if (d) return r;
    }
    Model m = model_after(hist, hist.size());
    for (size_t i = 0; i < rules.ops.size(); ++i) if (rules.enabled(m, rules.ops[i])) r.push_back((int)i);
    return r;
  }
};

static std::vector<std::string> split(const std::string& s, char sep) {
  std::vector<std::string> r;
  std::string cur;
  for (char c : s) { if (c == sep) { if (!cur.empty()) r.push_back(cur); cur.clear(); } else cur += c; }
  if (!cur.empty()) r.push_back(cur);
  return r;
}

// ---------------------------------------------------------------------------------------------------------------
struct RunArgs {
  Universe U;
  int depth = -1;  // -1: closure required
  int workers = 2;
  int validate = 0;
  double deadline = 1e18;
  std::vector<std::string> only;  // substring filters on configuration names (any)
  std::string replay_cfg;         // replay: configuration name
  std::vector<int> replay_ops;
  bool failed = false;
  int configs = 0;
  long long skipped_before = 0, validated_before = 0;
};

template <int V>
void run_variant(RunArgs& A) {
  constexpr VShape s = vshape(V);
  using O = Opt<s.z2, CT, s.ra, s.remrow, s.intr, s.mapc, s.swaps, s.comp>;
  Shape S = to_shape(V);
  if (s.z2 != (A.U.P == 2)) return;
  if (!A.only.empty()) {  // "a&b+c": (a and b) or c, substrings of the configuration name
    bool any = false;
    for (auto& f : A.only) {
      bool all = true;
      for (auto& g : split(f, '&')) if (S.name.find(g) == std::string::npos) all = false;
      if (all) any = true;
    }
    if (!any) return;
  }
  if (!A.replay_cfg.empty() && S.name != A.replay_cfg) return;
  Driver<O> d;
  d.rules.U = A.U;
  d.rules.S = S;
  d.rules.build_alphabet();
  A.configs++;
  if (!A.replay_cfg.empty()) {
    for (size_t n = 0; n <= A.replay_ops.size(); ++n) {
      std::vector<int> p(A.replay_ops.begin(), A.replay_ops.begin() + n);
      vf::set_case(d.describe(p));
      d.run(p);
      vf::end_case();
    }
    d.stop_server();
    return;
  }
  vf::ExploreCfg cfg;
  cfg.max_depth = A.depth < 0 ? 1000 : A.depth;
  cfg.workers = A.workers;
  cfg.deadline_s = A.deadline;
  cfg.validate_per_level = A.validate;
  cfg.scratch = "build/scratch";
  shared_reset();
  vf::Stats& st = vf::stats();
  long long stopped_before = 0;
  for (auto& kv : st.c) if (kv.first.rfind("stopped.", 0) == 0) stopped_before += kv.second;
  vf::ExploreResult r = vf::explore(d, cfg);
  d.stop_server();
  long long stopped = -stopped_before;
  for (auto& kv : st.c) if (kv.first.rfind("stopped.", 0) == 0) stopped += kv.second;
  if (stopped > 0) { r.closed = false; r.deadline_hit = true; st.add("configs_stopped_after_many_disagreements"); }
  st.add("ev.states", r.states);
  st.add("ev.transitions", r.transitions);
  long long skipped = 0;  // transitions counted but not executed again after three deaths in the same situation
  for (auto& kv : st.c) if (kv.first.rfind("not_executed.", 0) == 0) skipped += kv.second;
  // both counters are cumulative over the configurations explored by this process
  long long validated = r.validated - A.validated_before;
  long long executed = r.transitions + 1 + validated - (skipped - A.skipped_before);
  A.skipped_before = skipped;
  A.validated_before = r.validated;
  st.add("ev.traces", executed);
  st.add("ev.evaluations", executed);
  st.add("ev.nontrivial", r.states);
  bool complete = r.closed || (A.depth >= 0 && r.completed_depth >= A.depth && !r.deadline_hit && !r.failed);
  if (!complete) { st.add("ev.incomplete", 1); st.add("incomplete." + S.name, 1); }
  st.add("configs");
  if (r.closed) st.add("configs_closed");
  st.maxi("depth." + S.name, r.completed_depth);
  st.add("states." + S.name, r.states);
  st.maxi("alphabet_max", (long long)d.rules.ops.size());
  if (r.failed) A.failed = true;
}

template <int V>
void dispatch(RunArgs& A) {
  if constexpr (V < NVARIANTS) {
    if constexpr ((V % VF_NPARTS) == VF_PART && vvalid(V)) run_variant<V>(A);
    dispatch<V + 1>(A);
  }
}

int main(int argc, char** argv) {
  vf::Args a = vf::parse_args(argc, argv);
  vf::install_handlers();
  signal(SIGPIPE, SIG_IGN);
  double t0 = vf::now_s();
  RunArgs A;
  A.U.R = (int)a.geti("R", 3);
  A.U.C = (int)a.geti("C", 2);
  A.U.P = (int)a.geti("P", 2);
  A.U.coefs = vf::parse_ints(a.get("coefs", A.U.P == 2 ? "0,1" : "0,1,2"));
  A.depth = (int)a.geti("depth", -1);
  A.workers = (int)a.geti("workers", 2);
  A.validate = (int)a.geti("validate", 0);
  A.only = split(a.get("only", ""), '+');
  A.deadline = t0 + (double)a.geti("budget", 120);
  g_keep_executor_stderr = a.geti("executor-stderr", 0) != 0;
  g_limit = a.geti("stop-after", 300);
  if (!a.replay.empty()) {
    auto kv = vf::parse_kv(a.replay);
    A.replay_cfg = kv["cfg"];
    A.U.R = atoi(kv["R"].c_str());
    A.U.C = atoi(kv["C"].c_str());
    A.U.P = atoi(kv["P"].c_str());
    A.U.coefs = vf::parse_ints(kv["coefs"]);
    A.replay_ops = vf::parse_ints(kv["ops"]);
    A.only.clear();
    g_keep_executor_stderr = true;
  }
  A.U.init();
  dispatch<0>(A);
  vf::finish();
  return A.failed ? 3 : 0;
}
