// C14 oracle (no GUDHI code): persistence of a lower-star filtration on a small cell complex by textbook left-to-right
// column reduction over Z_2 (bitmask columns, <= 128 cells), plus the two cell complexes needed: the path (1D) and the
// full cubical decomposition of an n_rows x n_cols rectangle of top cells (2D).
// A second, slower oracle (ref::persistence over Z_3 on the signed cubical boundary) is used by the harness to validate
// this one (planar complexes have torsion-free homology, so the barcode does not depend on the field).
#ifndef VF_C14_ORACLE_HPP
#define VF_C14_ORACLE_HPP

#include <algorithm>
#include <cstdint>
#include <tuple>
#include <vector>

#include "ref_complex.hpp"

namespace c14 {

typedef unsigned __int128 u128;

inline int high_bit(u128 m) {
  uint64_t h = (uint64_t)(m >> 64);
  if (h) return 127 - __builtin_clzll(h);
  return 63 - __builtin_clzll((uint64_t)m);
}

struct CellComplex {
  int n = 0;                             // number of cells (<= 128)
  std::vector<int> dim;                  // dimension of each cell
  std::vector<std::vector<int>> bd;      // boundary (cell ids), Z_2
  std::vector<std::vector<int>> sbd_sign;  // matching signs for the signed boundary (Z_3 cross-check)
  std::vector<std::vector<int>> tops;    // indices of the input values whose lower star contains the cell
  bool lower_star_is_min = true;         // cell key = min over tops (top-cell convention) or max (vertex convention)
};

struct Bar {
  int dim;
  int bcell, dcell;  // dcell = -1: essential
};

// key[c] = filtration key of input value c (small non-negative ints, the order is the integer order).
// Returns every pair (also zero-length ones; the caller filters) and essential classes.
// cell_key / owner are outputs: key of every cell and the input index that gives it (smallest (key,index)).
inline void persistence_z2(const CellComplex& cx, const int* key, std::vector<Bar>& bars, std::vector<int>& cell_key,
                           std::vector<int>& owner) {
  int n = cx.n;
  cell_key.assign(n, 0);
  owner.assign(n, 0);
  for (int c = 0; c < n; ++c) {
    int best = cx.tops[c][0];
    for (int t : cx.tops[c]) {
      if (cx.lower_star_is_min ? (key[t] < key[best] || (key[t] == key[best] && t < best))
                               : (key[t] > key[best] || (key[t] == key[best] && t < best)))
        best = t;
    }
    cell_key[c] = key[best];
    owner[c] = best;
  }
  // filtration order: by key, faces first (dimension), then id
  static std::vector<long> ord;
  ord.clear();
  for (int c = 0; c < n; ++c) ord.push_back(((long)cell_key[c] * 4 + cx.dim[c]) * 256 + c);
  std::sort(ord.begin(), ord.end());
  int pos[128];
  int at[128];
  for (int j = 0; j < n; ++j) { at[j] = (int)(ord[j] & 255); pos[at[j]] = j; }
  u128 col[128];
  int pivot_owner[128];
  bool is_death[128];
  for (int j = 0; j < n; ++j) { pivot_owner[j] = -1; is_death[j] = false; }
  bars.clear();
  for (int j = 0; j < n; ++j) {
    u128 c = 0;
    for (int f : cx.bd[at[j]]) c ^= ((u128)1) << pos[f];
    while (c) {
      int l = high_bit(c);
      if (pivot_owner[l] < 0) { pivot_owner[l] = j; break; }
      c ^= col[pivot_owner[l]];
    }
    col[j] = c;
    if (c) { is_death[j] = true; bars.push_back({cx.dim[at[high_bit(c)]], at[high_bit(c)], at[j]}); }
  }
  for (int j = 0; j < n; ++j)
    if (!is_death[j] && pivot_owner[j] < 0) bars.push_back({cx.dim[at[j]], at[j], -1});
}

// the same barcode by the shared dense Z_p reduction on the signed boundary (slow; validation of the above)
inline std::vector<std::tuple<int, int, int>> persistence_zp_values(const CellComplex& cx, const std::vector<int>& cell_key,
                                                                     int p) {
  int n = cx.n;
  std::vector<int> ord(n);
  for (int i = 0; i < n; ++i) ord[i] = i;
  std::sort(ord.begin(), ord.end(), [&](int a, int b) {
    return std::make_tuple(cell_key[a], cx.dim[a], a) < std::make_tuple(cell_key[b], cx.dim[b], b);
  });
  std::vector<int> pos(n);
  for (int j = 0; j < n; ++j) pos[ord[j]] = j;
  std::vector<ref::Cell> cells(n);
  for (int j = 0; j < n; ++j) {
    int c = ord[j];
    cells[j].dim = cx.dim[c];
    for (size_t k = 0; k < cx.bd[c].size(); ++k) cells[j].bd.push_back({pos[cx.bd[c][k]], cx.sbd_sign[c][k]});
  }
  std::vector<std::tuple<int, int, int>> out;  // (dim, birth key, death key or -1)
  for (auto& pr : ref::persistence(cells, p)) {
    int b = cell_key[ord[pr.birth]];
    int d = pr.death < 0 ? -1 : cell_key[ord[pr.death]];
    if (d >= 0 && b == d) continue;
    out.push_back(std::make_tuple(pr.dim, b, d));
  }
  std::sort(out.begin(), out.end());
  return out;
}

// path with n vertices carrying the values (PL function: an edge appears with the later of its endpoints)
inline CellComplex path_vertex_model(int n) {
  CellComplex cx;
  cx.lower_star_is_min = false;
  for (int i = 0; i < n; ++i) { cx.dim.push_back(0); cx.bd.push_back({}); cx.sbd_sign.push_back({}); cx.tops.push_back({i}); }
  for (int i = 0; i + 1 < n; ++i) {
    cx.dim.push_back(1);
    cx.bd.push_back({i, i + 1});
    cx.sbd_sign.push_back({-1, 1});
    cx.tops.push_back({i, i + 1});
  }
  cx.n = (int)cx.dim.size();
  return cx;
}
// path with n edges carrying the values (1D cubical complex from top cells: a vertex appears with the earlier edge)
inline CellComplex path_topcell_model(int n) {
  CellComplex cx;
  cx.lower_star_is_min = true;
  for (int i = 0; i <= n; ++i) {
    cx.dim.push_back(0); cx.bd.push_back({}); cx.sbd_sign.push_back({});
    std::vector<int> t;
    if (i > 0) t.push_back(i - 1);
    if (i < n) t.push_back(i);
    cx.tops.push_back(t);
  }
  for (int i = 0; i < n; ++i) {
    cx.dim.push_back(1);
    cx.bd.push_back({i, i + 1});
    cx.sbd_sign.push_back({-1, 1});
    cx.tops.push_back({i});
  }
  cx.n = (int)cx.dim.size();
  return cx;
}

// full cubical decomposition of a rectangle of n_rows x n_cols unit squares; input value index = row * n_cols + col
// (C order, as the documentation of persistence_on_rectangle_from_top_cells states).
// Cells live on the doubled grid (X in 0..2*n_cols, Y in 0..2*n_rows); odd coordinate = open interval.
inline CellComplex rectangle_topcell_model(int n_rows, int n_cols) {
  CellComplex cx;
  cx.lower_star_is_min = true;
  int W = 2 * n_cols + 1, H = 2 * n_rows + 1;
  auto id = [&](int X, int Y) { return Y * W + X; };
  cx.n = W * H;
  cx.dim.resize(cx.n);
  cx.bd.resize(cx.n);
  cx.sbd_sign.resize(cx.n);
  cx.tops.resize(cx.n);
  for (int Y = 0; Y < H; ++Y)
    for (int X = 0; X < W; ++X) {
      int c = id(X, Y);
      cx.dim[c] = (X & 1) + (Y & 1);
      int k = 0;  // position among the odd coordinates, for the sign
      if (X & 1) {
        cx.bd[c].push_back(id(X + 1, Y)); cx.sbd_sign[c].push_back(k % 2 == 0 ? 1 : -1);
        cx.bd[c].push_back(id(X - 1, Y)); cx.sbd_sign[c].push_back(k % 2 == 0 ? -1 : 1);
        ++k;
      }
      if (Y & 1) {
        cx.bd[c].push_back(id(X, Y + 1)); cx.sbd_sign[c].push_back(k % 2 == 0 ? 1 : -1);
        cx.bd[c].push_back(id(X, Y - 1)); cx.sbd_sign[c].push_back(k % 2 == 0 ? -1 : 1);
        ++k;
      }
      for (int r = 0; r < n_rows; ++r)
        for (int q = 0; q < n_cols; ++q)
          if (std::abs(2 * q + 1 - X) <= 1 && std::abs(2 * r + 1 - Y) <= 1) cx.tops[c].push_back(r * n_cols + q);
    }
  return cx;
}

// ---- enumerators ------------------------------------------------------------------------------------------------
// every weak order of n positions = every map onto an initial segment {0..m-1}; f(values) for each
static const long long FUBINI[] = {1, 1, 3, 13, 75, 541, 4683, 47293, 545835, 7087261, 102247563LL};

template <class F>
inline void weak_orders_rec(int n, int pos, unsigned used, std::vector<int>& v, F& f) {
  int remaining = n - pos;
  if (remaining == 0) { f(v); return; }
  int old_mx = used ? 31 - __builtin_clz(used) : -1;
  for (int val = 0; val < n; ++val) {
    unsigned u = used | (1u << val);
    int mx = 31 - __builtin_clz(u);
    int holes = mx + 1 - __builtin_popcount(u);  // unused values below the maximum: each needs one more position
    if (holes > remaining - 1) {
      if (val > old_mx) break;  // beyond the current maximum a larger val only makes more holes
      continue;
    }
    v[pos] = val;
    weak_orders_rec(n, pos + 1, u, v, f);
  }
}
template <class F>
inline void for_each_weak_order(int n, F&& f) {
  std::vector<int> v(n);
  if (n == 0) { f(v); return; }
  weak_orders_rec(n, 0, 0u, v, f);
}
template <class F>
inline void for_each_power(int n, int k, F&& f) {  // every element of {0..k-1}^n
  std::vector<int> v(n, 0);
  for (;;) {
    f(v);
    int i = n - 1;
    while (i >= 0 && ++v[i] >= k) { v[i] = 0; --i; }
    if (i < 0) break;
  }
}

}  // namespace c14

#endif
