// C11 - Ripser computes the persistence of the Rips filtration, for every input form.
// E2 bounded-exhaustive input enumeration on the real Gudhi::ripser code (one value type per binary, -DVF_T=float|double).
//
// case = one (dissimilarity, threshold, dim_max, modulus); inside a case every route through the real code is run:
//   auto:<form>            ripser_auto on Full / Compressed lower / Compressed upper / Sparse(from threshold) / Euclidean
//   ripser:<form>          ripser() on the dense forms (dense coboundary enumerator with the threshold given as is)
//   help2:<enc>:<kind>     help2 called directly with Bitfield-64, Bitfield-128 and CNS-128 on a dense (lower) and on a
//                          sparse matrix: the dispatcher's choice enumerated as a deviation
//   (explicit edge lists)  Sparse_distance_matrix built from neighbour lists with absent edges
// and the streamed intervals (zero-length dropped, sorted multiset) are compared with
//   ref_barcode  = column reduction over Z_p on brute-force cliques (deciding oracle, no GUDHI code), and
//   st_barcode   = Rips_complex -> Simplex_tree -> Persistent_cohomology (the route the property names; a disagreement
//                  between the two oracles is reported in its own class so it can be attributed).
#include "c11_common.hpp"

#include <gudhi/ripser.h>

#include <functional>

#ifndef VF_T
#define VF_T float
#endif
// VF_FORM selects which matrix form this binary instantiates (each dense form costs 6 instantiations of the whole engine:
// {Z/2Z, Z/pZ} x {Bitfield-64, Bitfield-128, CNS-128}, plus 6 for the sparse matrix every ripser_auto falls back to):
//   1 = Full_distance_matrix          routes auto:full, ripser:full
//   2 = Compressed lower              routes auto:lower, ripser:lower, auto:euclid, help2:<enc>:dense
//   3 = Compressed upper + Sparse     routes auto:upper, ripser:upper, auto:sparse, help2:<enc>:sparse, edge lists, big
#ifndef VF_FORM
#define VF_FORM 3
#endif
#define VF_STR2(x) #x
#define VF_STR(x) VF_STR2(x)

using namespace c11;
namespace R = Gudhi::ripser;
using T = VF_T;
static const char* T_name = VF_STR(VF_T);
static const T T_INF = std::numeric_limits<T>::infinity();

using DP = R::TParams2<T>;  // the parameter set ripser_auto itself uses for the matrices it builds
using FullM = R::Full_distance_matrix<DP>;
using LowerM = R::Compressed_distance_matrix<DP, R::LOWER_TRIANGULAR>;
using UpperM = R::Compressed_distance_matrix<DP, R::UPPER_TRIANGULAR>;
using SparseM = R::Sparse_distance_matrix<DP>;
using EuclM = R::Euclidean_distance_matrix<DP>;

// what the caller holds before choosing a form: plain access to d(i,j)
struct Src {
  const Mat* m;
  int size() const { return m->n; }
  T operator()(int i, int j) const { return (T)m->at(i, j); }
};

static FullM make_full(const Mat& m) { return FullM(Src{&m}); }
static LowerM make_lower(const Mat& m) {
  std::vector<T> v;
  for (int i = 1; i < m.n; ++i) for (int j = 0; j < i; ++j) v.push_back((T)m.at(i, j));
  return LowerM(std::move(v));
}
static UpperM make_upper(const Mat& m) {
  std::vector<T> v;
  for (int i = 0; i < m.n; ++i) for (int j = i + 1; j < m.n; ++j) v.push_back((T)m.at(i, j));
  return UpperM(std::move(v));
}
static SparseM make_sparse_thr(const Mat& m, T thr) { return SparseM(Src{&m}, thr); }
// explicit edge list: neighbour lists sorted by vertex, each edge in both lists, no self loop, no duplicate
static SparseM make_sparse_explicit(const Mat& m, const std::vector<int>* ids = nullptr, int N = -1) {
  typedef SparseM::vertex_diameter_t VD;
  std::vector<std::vector<VD>> nb(ids ? N : m.n);
  size_t ne = 0;
  for (int i = 0; i < m.n; ++i) for (int j = 0; j < m.n; ++j) {
    if (i == j || m.at(i, j) == INF) continue;
    nb[ids ? (*ids)[i] : i].emplace_back(ids ? (*ids)[j] : j, (T)m.at(i, j));
    ++ne;
  }
  for (auto& l : nb) std::sort(l.begin(), l.end());
  return SparseM(std::move(nb), ne);
}

struct Out {
  std::vector<int> dims;
  Bar iv;
  long long h0inf = 0;   // (0,0,inf) are counted, not stored (there are 140 000 of them in the large inputs)
  long long zero_len = 0;
  long long bad_order = 0;
};
template <class Call>
static Out collect(Call&& call) {
  Out o;
  int cur = -99;
  auto od = [&](int d) { o.dims.push_back(d); cur = d; };
  auto op = [&](T b, T d) {
    if (d < b) o.bad_order++;
    if (b == d) { o.zero_len++; return; }
    if (cur == 0 && b == 0 && d == T_INF) { o.h0inf++; return; }
    o.iv.push_back({cur, (double)b, (double)d});
  };
  call(od, op);
  std::sort(o.iv.begin(), o.iv.end());
  return o;
}
template <class DM>
static Out run_auto(DM dm, int dim_max, T thr, unsigned p) {
  return collect([&](auto& od, auto& op) { R::ripser_auto(std::move(dm), dim_max, thr, p, od, op); });
}
template <class DM>
static Out run_ripser(DM dm, int dim_max, T thr, unsigned p) {
  return collect([&](auto& od, auto& op) { R::ripser(std::move(dm), dim_max, thr, p, od, op); });
}
template <bool coef, class S, template <class> class Enc, class DM>
static Out run_help2_(DM dm, int dim_max, T thr, unsigned p) {
  typedef R::TParams<coef, S, T> P;
  return collect([&](auto& od, auto& op) { R::help2<P, Enc<P>>(std::move(dm), dim_max, thr, p, od, op); });
}
// like ripser(): hard-coded Z/2Z without coefficients, run-time Z/pZ otherwise
template <class S, template <class> class Enc, class DM>
static Out run_help2(DM dm, int dim_max, T thr, unsigned p) {
  if (p == 2) return run_help2_<false, S, Enc>(std::move(dm), dim_max, thr, p);
  return run_help2_<true, S, Enc>(std::move(dm), dim_max, thr, p);
}
using U64 = uint64_t;
using U128 = Gudhi::numbers::uint128_t;

// ---------------------------------------------------------------------------------------------------------------------
struct Expect {
  Bar bar;            // without the (0,0,inf) classes
  long long h0inf;    // number of (0,0,inf)
  std::vector<int> dims;
};
static Expect split_expect(const Bar& full, int n, int dim_max, long long extra_isolated = 0) {
  Expect e;
  e.h0inf = extra_isolated;
  for (auto& i : full) {
    if (i.dim == 0 && i.b == 0 && i.d == INF) e.h0inf++;
    else e.bar.push_back(i);
  }
  int top = std::max(0, std::min(dim_max, n - 2));
  for (int d = 0; d <= top; ++d) e.dims.push_back(d);
  return e;
}

static std::string g_thr_kind;
static void compare(const std::string& route, const Out& o, const Expect& e) {
  vf::stats().add("ev.traces");
  vf::stats().add("ev.transitions");
  vf::stats().add("ev.evaluations");
  vf::stats().add("route." + route);
  vf::stats().add("ripser.zero_length_pairs_dropped", o.zero_len);
  if (o.zero_len) vf::stats().add("ripser.runs_emitting_zero_length_pairs");
  if (o.iv != e.bar || o.h0inf != e.h0inf)
    vf::mismatch("C11:intervals:" + route + ":thr_" + g_thr_kind,
                 std::string(T_name) + " got " + str(o.iv) + "+" + std::to_string(o.h0inf) + "x(0:0,inf) want " + str(e.bar) +
                     "+" + std::to_string(e.h0inf) + "x(0:0,inf)");
  if (o.dims != e.dims)
    vf::mismatch("C11:output_dim_sequence:" + route, "got " + vf::join(o.dims) + " want " + vf::join(e.dims));
  if (o.bad_order) vf::mismatch("C11:pair_with_death_before_birth:" + route, std::to_string(o.bad_order));
}

struct Cfg {
  std::string thr_tok;  // number | max | inf | tmax
  int dim_max;
  int p;
};
struct Resolved {
  T code;         // what is handed to the library
  double oracle;  // what the oracle truncates at (INF = no truncation)
};
static Resolved resolve_thr(const std::string& tok, const Mat& m) {
  if (tok == "inf") return {T_INF, INF};
  if (tok == "tmax") return {std::numeric_limits<T>::max(), INF};  // "no threshold" as the largest finite value
  if (tok == "max") { double x = std::max(0.0, m.max_finite()); return {(T)x, x}; }
  double x = atof(tok.c_str());
  return {(T)x, (double)(T)x};
}

static bool g_routes_all = true;
static std::set<std::string> g_routes;
static bool on(const std::string& r) { return g_routes_all || g_routes.count(r); }

static bool g_last_case_has_dim_ge1 = false;  // samples written to the evidence are taken among such cases
static void sample_case(const std::string& cs, size_t cap) { if (g_last_case_has_dim_ge1) vf::stats().sample(cs, cap); }
static void account_expected(int n_points, const Bar& want, const Mat& m, double thr_oracle, int dim_max) {
  bool ge1 = false, finite = false, top = false;
  for (auto& i : want) {
    if (i.dim >= 1) ge1 = true;
    if (i.d != INF) finite = true;
    if (i.dim >= 2) top = true;
  }
  g_last_case_has_dim_ge1 = ge1;
  vf::stats().add("ev.states");
  if (ge1 || finite) vf::stats().add("ev.nontrivial");
  if (ge1) vf::stats().add("expected.has_interval_dim_ge1");
  if (top) vf::stats().add("expected.has_interval_dim_ge2");
  if (finite) vf::stats().add("expected.has_finite_interval");
  if (m.n >= 2 && thr_oracle < INF) {
    double mn = INF;
    for (int i = 0; i < m.n; ++i) for (int j = 0; j < i; ++j) mn = std::min(mn, m.at(i, j));
    if (thr_oracle < mn) vf::stats().add("cfg.threshold_below_smallest_distance");
  }
  if (dim_max > n_points - 2) vf::stats().add("cfg.dim_max_clamped");
}

// The route the property names, run next to the independent oracle. Field_Zp builds its inverse table in O(p^2) and
// refuses p > 46337, so this route is only run for the small moduli.
static void cross_check_simplex_tree_route(const Mat& m, double thr_oracle, const Cfg& c, const Bar& want) {
  if (c.p > 13) { vf::stats().add("oracle.simplex_tree_route_skipped_large_modulus"); return; }
  Bar st = st_barcode(m, thr_oracle, c.p, c.dim_max);
  vf::stats().add("ev.transitions");
  vf::stats().add("oracle.simplex_tree_route_runs");
  if (st != want)
    vf::mismatch("C11:oracle_disagreement:simplex_tree_route_vs_column_reduction", "st " + str(st) + " ref " + str(want));
}

// one case on a dense dissimilarity (optionally given as points as well)
static void run_dense_case(const std::string& cs, const Mat& m, const std::vector<std::vector<T>>* pts, const Cfg& c) {
  vf::set_case(cs);
  Resolved th = resolve_thr(c.thr_tok, m);
  g_thr_kind = th.oracle == INF ? "none" : "finite";
  Bar want = ref_barcode(m, th.oracle, c.p, c.dim_max);
  cross_check_simplex_tree_route(m, th.oracle, c, want);
  account_expected(m.n, want, m, th.oracle, c.dim_max);
  if (th.oracle == INF && m.n >= 2) {
    // enclosing radius: beyond it the complex is a cone; count how often it actually cuts something
    double r = INF;
    for (int i = 0; i < m.n; ++i) { double ri = 0; for (int j = 0; j < m.n; ++j) ri = std::max(ri, m.at(i, j)); r = std::min(r, ri); }
    if (r < m.max_finite()) vf::stats().add("cfg.enclosing_radius_below_max_distance");
  }
  Expect e = split_expect(want, m.n, c.dim_max);
  unsigned p = (unsigned)c.p;
  bool compressed_ok = true;
#if VF_FORM != 1
  if (m.n == 1) {
    // One point = an empty vector of distances. The compressed matrices take the address of element 0 of that vector
    // (ripser.h init_rows); run it in a forked child first so that a sanitizer stop gets its own class.
    static std::string one_point_probe;  // the probe does not depend on threshold / dim_max / modulus: fork once
    if (one_point_probe.empty()) {
      one_point_probe = vf::probe_range(0, 1, [&](size_t) {
#if VF_FORM == 2
        LowerM probe = make_lower(m);
#else
        UpperM probe = make_upper(m);
#endif
        return probe.size() == 1 ? 'k' : 's';
      });
      if (one_point_probe.empty()) one_point_probe = "!";
    }
    const std::string& r = one_point_probe;
    vf::stats().add("probe.compressed_matrix_of_one_point." + std::string(r == "k" ? "ok" : "stopped"));
    if (r != "k") {
      vf::mismatch(std::string("C11:sanitizer_stop:compressed_") + (VF_FORM == 2 ? "lower" : "upper") +
                       "_matrix_of_one_point:element_0_of_empty_distance_vector",
                   "Compressed_distance_matrix(std::vector&&) with an empty vector (1 point): probe result '" + r + "'");
      compressed_ok = false;  // the routes through that matrix are skipped for this case, the others still run
    }
  }
#endif
#if VF_FORM == 1
  if (on("auto:full")) compare("auto:full", run_auto(make_full(m), c.dim_max, th.code, p), e);
  if (on("ripser:full")) compare("ripser:full", run_ripser(make_full(m), c.dim_max, th.code, p), e);
  (void)pts; (void)compressed_ok;
#elif VF_FORM == 2
  if (compressed_ok) {
  if (on("auto:lower")) compare("auto:lower", run_auto(make_lower(m), c.dim_max, th.code, p), e);
  if (on("ripser:lower")) compare("ripser:lower", run_ripser(make_lower(m), c.dim_max, th.code, p), e);
  if (pts && on("auto:euclid")) {
    std::vector<std::vector<T>> copy = *pts;
    compare("auto:euclid", run_auto(EuclM(std::move(copy)), c.dim_max, th.code, p), e);
  }
  if (on("help2:dense")) {
    compare("help2:b64:dense", run_help2<U64, R::Bitfield_encoding>(make_lower(m), c.dim_max, th.code, p), e);
    compare("help2:b128:dense", run_help2<U128, R::Bitfield_encoding>(make_lower(m), c.dim_max, th.code, p), e);
    compare("help2:cns128:dense", run_help2<U128, R::Cns_encoding>(make_lower(m), c.dim_max, th.code, p), e);
  }
  }
#else
  if (compressed_ok && on("auto:upper")) compare("auto:upper", run_auto(make_upper(m), c.dim_max, th.code, p), e);
  if (compressed_ok && on("ripser:upper")) compare("ripser:upper", run_ripser(make_upper(m), c.dim_max, th.code, p), e);
  if (on("auto:sparse")) compare("auto:sparse", run_auto(make_sparse_thr(m, th.code), c.dim_max, th.code, p), e);
  if (on("help2:sparse")) {
    compare("help2:b64:sparse", run_help2<U64, R::Bitfield_encoding>(make_sparse_thr(m, th.code), c.dim_max, th.code, p), e);
    compare("help2:b128:sparse", run_help2<U128, R::Bitfield_encoding>(make_sparse_thr(m, th.code), c.dim_max, th.code, p), e);
    compare("help2:cns128:sparse", run_help2<U128, R::Cns_encoding>(make_sparse_thr(m, th.code), c.dim_max, th.code, p), e);
  }
  (void)pts;
#endif
  vf::end_case();
}

// one case on an explicit edge list (absent edges = INF in m); the threshold argument is ignored by the library for
// sparse input (python doc: "Ignored if input_type is 'distance coo_matrix'"), it is always >= every listed edge here
static void run_graph_case(const std::string& cs, const Mat& m, const Cfg& c) {
  vf::set_case(cs);
  Resolved th = resolve_thr(c.thr_tok, m);
  g_thr_kind = "edge_list";
  Bar want = ref_barcode(m, INF, c.p, c.dim_max);
  cross_check_simplex_tree_route(m, INF, c, want);
  account_expected(m.n, want, m, INF, c.dim_max);
  if (m.has_missing()) vf::stats().add("cfg.edge_list_with_absent_edges");
  Expect e = split_expect(want, m.n, c.dim_max);
  unsigned p = (unsigned)c.p;
  compare("auto:edge_list", run_auto(make_sparse_explicit(m), c.dim_max, th.code, p), e);
  compare("help2:b64:edge_list", run_help2<U64, R::Bitfield_encoding>(make_sparse_explicit(m), c.dim_max, th.code, p), e);
  compare("help2:b128:edge_list", run_help2<U128, R::Bitfield_encoding>(make_sparse_explicit(m), c.dim_max, th.code, p), e);
  compare("help2:cns128:edge_list", run_help2<U128, R::Cns_encoding>(make_sparse_explicit(m), c.dim_max, th.code, p), e);
  vf::end_case();
}

// the converting constructors (one form built from another): every entry must be the caller's d(i,j), and the converted
// matrix must give the same intervals
template <class Dst>
static char entries_match(const Dst& d, const Mat& m) {
  if ((int)d.size() != m.n) return 's';
  for (int i = 0; i < m.n; ++i) for (int j = 0; j < m.n; ++j)
    if (i != j && d(i, j) != (T)m.at(i, j)) return 'v';
  return 'k';
}
static void conversion_result(const std::string& name, char r) {
  vf::stats().add("ev.transitions");
  vf::stats().add("conversion." + name + (r == 'k' ? ".ok" : ".bad"));
  if (r == 'k') return;
  std::string what = r == '!' ? "sanitizer_stop_or_crash" : r == 'v' ? "wrong_entries" : r == 's' ? "wrong_size" : "exception";
  vf::mismatch("C11:matrix_conversion:" + name + ":" + what, std::string(T_name) + " probe result '" + std::string(1, r) + "'");
}
static void run_convert_case(const std::string& cs, const Mat& m, const Cfg& c) {
  vf::set_case(cs);
  Resolved th = resolve_thr(c.thr_tok, m);
  g_thr_kind = th.oracle == INF ? "none" : "finite";
  Bar want = ref_barcode(m, th.oracle, c.p, c.dim_max);
  account_expected(m.n, want, m, th.oracle, c.dim_max);
  Expect e = split_expect(want, m.n, c.dim_max);
  unsigned p = (unsigned)c.p;
#if VF_FORM == 1
  { LowerM a = make_lower(m); FullM d(a); char r = entries_match(d, m); conversion_result("full_from_lower", r);
    if (r == 'k') compare("auto:full_from_lower", run_auto(std::move(d), c.dim_max, th.code, p), e); }
  { UpperM a = make_upper(m); FullM d(a); char r = entries_match(d, m); conversion_result("full_from_upper", r);
    if (r == 'k') compare("auto:full_from_upper", run_auto(std::move(d), c.dim_max, th.code, p), e); }
#elif VF_FORM == 2
  { FullM a = make_full(m); LowerM d(a); char r = entries_match(d, m); conversion_result("lower_from_full", r);
    if (r == 'k') compare("auto:lower_from_full", run_auto(std::move(d), c.dim_max, th.code, p), e); }
  { UpperM a = make_upper(m); LowerM d(a); char r = entries_match(d, m); conversion_result("lower_from_upper", r);
    if (r == 'k') compare("auto:lower_from_upper", run_auto(std::move(d), c.dim_max, th.code, p), e); }
#else
  // the upper layout built from another matrix: probed in a forked child first
  for (int from = 0; from < 2; ++from) {
    std::string name = from == 0 ? "upper_from_full" : "upper_from_lower";
    // one forked probe per (matrix, source form): the conversion does not depend on threshold / dim_max / modulus
    static std::map<std::string, std::string> probed;
    std::string key = name + "|" + std::to_string(m.n) + "|" + m.lower_str();
    auto it = probed.find(key);
    if (it == probed.end()) {
      std::string r = vf::probe_range(0, 1, [&](size_t) {
        if (from == 0) { FullM a = make_full(m); UpperM d(a); return entries_match(d, m); }
        LowerM a = make_lower(m); UpperM d(a); return entries_match(d, m);
      });
      vf::stats().add("probe.forked_conversions");
      it = probed.emplace(key, r.empty() ? "!" : r).first;
    }
    const std::string& r = it->second;
    conversion_result(name, r[0]);
    if (r == "k") {
      if (from == 0) { FullM a = make_full(m); compare("auto:" + name, run_auto(UpperM(a), c.dim_max, th.code, p), e); }
      else { LowerM a = make_lower(m); compare("auto:" + name, run_auto(UpperM(a), c.dim_max, th.code, p), e); }
    }
  }
  { UpperM a = make_upper(m); SparseM d(a, th.code); compare("auto:sparse_from_upper", run_auto(std::move(d), c.dim_max, th.code, p), e); }
#endif
  vf::end_case();
}

// ---------------------------------------------------------------------------------------------------------------------
static std::vector<int> dims_for(const std::string& spec, int n) {
  if (spec != "auto") return vf::parse_ints(spec);
  std::vector<int> r;
  for (int d = 0; d <= std::max(0, n - 2); ++d) r.push_back(d);
  r.push_back(n);  // clamp path
  return r;
}
static std::string cfg_str(const Cfg& c) {
  return ";thr=" + c.thr_tok + ";dim=" + std::to_string(c.dim_max) + ";p=" + std::to_string(c.p);
}
static Mat mat_from_lower(int n, const std::vector<double>& low) {
  Mat m(n);
  size_t k = 0;
  for (int i = 1; i < n; ++i) for (int j = 0; j < i; ++j) m.set(i, j, low.at(k++));
  return m;
}
static Mat mat_from_points(const std::vector<std::vector<int>>& pts) {
  int n = (int)pts.size();
  Mat m(n);
  for (int i = 0; i < n; ++i) for (int j = 0; j < i; ++j) {
    long long sq = 0;
    for (size_t k = 0; k < pts[i].size(); ++k) { long long d = pts[i][k] - pts[j][k]; sq += d * d; }
    T s = std::sqrt((T)sq);  // IEEE sqrt is correctly rounded: the same value the library must obtain
    m.set(i, j, (double)s);
  }
  return m;
}
static std::vector<std::vector<T>> typed_points(const std::vector<std::vector<int>>& pts) {
  std::vector<std::vector<T>> r;
  for (auto& p : pts) { r.emplace_back(); for (int x : p) r.back().push_back((T)x); }
  return r;
}

struct Grid {
  std::vector<std::string> thr;
  std::string dims;
  std::vector<int> mods;
};
template <class F>
static void for_cfgs(const Grid& g, int n, F&& f) {
  for (auto& t : g.thr) for (int d : dims_for(g.dims, n)) for (int p : g.mods) f(Cfg{t, d, p});
}

static void run_big_case(const std::string&, int, const std::vector<int>&, const Mat&, const Cfg&);
static void run_big_part(const vf::Args&, const Grid&, const std::string&, long long&);

// the 6-vertex projective plane and its barycentric subdivision (a flag complex with Z/2 torsion in H1)
static const int RP2[10][3] = {{0, 1, 3}, {0, 1, 5}, {0, 2, 3}, {0, 2, 4}, {0, 4, 5}, {1, 2, 4}, {1, 2, 5}, {1, 3, 4}, {2, 3, 5}, {3, 4, 5}};
static Mat rp2_barycentric(const std::vector<int>& perm, int wa, int wb, int wc, double absent) {
  // new vertices: 6 vertices, 15 edges, 10 triangles of the complex renamed by perm; numbered in the order
  // (faces sorted by dimension then lexicographically on the renamed, sorted vertex lists)
  std::vector<ref::Simplex> faces;
  for (int v = 0; v < 6; ++v) faces.push_back({v});
  std::set<ref::Simplex> es, ts;
  for (auto& t : RP2) {
    ref::Simplex s = ref::norm({perm[t[0]], perm[t[1]], perm[t[2]]});
    ts.insert(s);
    es.insert({s[0], s[1]}); es.insert({s[0], s[2]}); es.insert({s[1], s[2]});
  }
  for (auto& e : es) faces.push_back(e);
  for (auto& t : ts) faces.push_back(t);
  int n = (int)faces.size();
  Mat m(n);
  for (int i = 0; i < n; ++i) for (int j = 0; j < i; ++j) {
    const ref::Simplex &a = faces[j], &b = faces[i];  // |a| <= |b|
    double w = absent;
    if (a.size() < b.size() && ref::subset(a, b)) {
      if (a.size() == 1 && b.size() == 2) w = wa;
      else if (a.size() == 1 && b.size() == 3) w = wb;
      else w = wc;
    }
    m.set(i, j, w);
  }
  return m;
}

int main(int argc, char** argv) {
  vf::Args a = vf::parse_args(argc, argv);
  vf::install_handlers();
  std::string part = a.get("part", "matrix");
  Grid g;
  g.thr = split(a.get("thr", "0.5,1,2,3,inf"));
  g.dims = a.get("dims", "auto");
  g.mods = vf::parse_ints(a.get("mods", "2,3,5,7"));
  std::string routes = a.get("routes", "all");
  if (routes != "all") { g_routes_all = false; for (auto& r : split(routes)) g_routes.insert(r); }
  std::string pre = std::string("part=") + part + ";T=" + T_name;

  if (!a.replay.empty()) {
    auto kv = vf::parse_kv(a.replay);
    part = kv["part"];
    if (kv["T"] != T_name) { fprintf(stderr, "replay for value type %s run on %s\n", kv["T"].c_str(), T_name); }
    Cfg c{kv["thr"], atoi(kv["dim"].c_str()), atoi(kv["p"].c_str())};
    if (part == "matrix" || part == "graph" || part == "convert") {
      int n = atoi(kv["n"].c_str());
      Mat m = mat_from_lower(n, parse_doubles(kv["d"]));
      if (part == "matrix") run_dense_case(a.replay, m, nullptr, c);
      else if (part == "convert") run_convert_case(a.replay, m, c);
      else run_graph_case(a.replay, m, c);
    } else if (part == "euclid") {
      std::vector<std::vector<int>> pts;
      for (auto& s : split(kv["pts"], '|')) pts.push_back(vf::parse_ints(s, '.'));
      Mat m = mat_from_points(pts);
      auto tp = typed_points(pts);
      run_dense_case(a.replay, m, &tp, c);
    } else if (part == "rp2") {
      std::vector<int> perm = vf::parse_ints(kv["perm"]);
      std::vector<int> w = vf::parse_ints(kv["w"]);
      if (kv["form"] == "edge_list") run_graph_case(a.replay, rp2_barycentric(perm, w[0], w[1], w[2], INF), c);
      else run_dense_case(a.replay, rp2_barycentric(perm, w[0], w[1], w[2], 3), nullptr, c);
    } else if (part == "big") {
      int N = atoi(kv["N"].c_str());
      std::vector<int> ids = vf::parse_ints(kv["ids"]);
      Mat m = mat_from_lower((int)ids.size(), parse_doubles(kv["d"]));
      run_big_case(a.replay, N, ids, m, c);
    }
    vf::finish();
    return 0;
  }

  long long idx = 0;
  auto mine = [&]() { bool r = (idx % a.nshards) == a.shard; ++idx; return r; };

  if (part == "matrix" || part == "graph" || part == "convert") {
    // every symmetric matrix on n points with entries in vals (graph: every entry may also be absent)
    std::vector<double> vals = parse_doubles(a.get("vals", "1,2,3"));
    if (part == "graph") vals.insert(vals.begin(), INF);
    for (int n : vf::parse_ints(a.get("n", "4"))) {
    int npairs = n * (n - 1) / 2;
    std::vector<size_t> digit(npairs, 0);
    for (;;) {
      if (mine()) {
        std::vector<double> low(npairs);
        for (int k = 0; k < npairs; ++k) low[k] = vals[digit[k]];
        Mat m = mat_from_lower(n, low);
        std::string base = pre + ";n=" + std::to_string(n) + ";d=" + m.lower_str();
        vf::stats().add("inputs.dissimilarities");
        for_cfgs(g, n, [&](const Cfg& c) {
          std::string cs = base + cfg_str(c);
          if (part == "matrix") run_dense_case(cs, m, nullptr, c);
          else if (part == "convert") run_convert_case(cs, m, c);
          else run_graph_case(cs, m, c);
          sample_case(cs, 3);
        });
      }
      int k = 0;
      while (k < npairs && ++digit[k] >= vals.size()) { digit[k] = 0; ++k; }
      if (k == npairs) break;
    }
    }
  } else if (part == "euclid") {
    // every subset (ordered: every ordered tuple of distinct points) of n points of the G x G integer grid
    int G = (int)a.geti("grid", 4), ordered = (int)a.geti("ordered", 0);
    int NP = G * G;
    for (int n : vf::parse_ints(a.get("n", "3"))) {
    std::vector<int> sel(n, 0);
    std::function<void(int)> rec = [&](int k) {
      if (k == n) {
        if (!mine()) return;
        std::vector<std::vector<int>> pts;
        std::string ps;
        for (int i = 0; i < n; ++i) {
          pts.push_back({sel[i] / G, sel[i] % G});
          ps += (i ? "|" : "") + std::to_string(sel[i] / G) + "." + std::to_string(sel[i] % G);
        }
        Mat m = mat_from_points(pts);
        auto tp = typed_points(pts);
        vf::stats().add("inputs.point_clouds");
        for_cfgs(g, n, [&](const Cfg& c) {
          std::string cs = pre + ";pts=" + ps + cfg_str(c);
          run_dense_case(cs, m, &tp, c);
          sample_case(cs, 3);
        });
        return;
      }
      for (int q = (ordered || k == 0) ? 0 : sel[k - 1] + 1; q < NP; ++q) {
        bool dup = false;
        for (int i = 0; i < k; ++i) if (sel[i] == q) dup = true;
        if (dup) continue;
        sel[k] = q;
        rec(k + 1);
      }
    };
    rec(0);
    }
  } else if (part == "rp2") {
    // barycentric subdivision of the 6-vertex RP^2 (31 points, 90 edges) under relabelings of the 6 base vertices and
    // edge weights by type; as an explicit edge list and as a dense matrix (absent edges at 3, threshold 2)
    int step = (int)a.geti("permstep", 30);
    std::vector<int> perm = {0, 1, 2, 3, 4, 5};
    long long pi = 0;
    do {
      if (pi++ % step) continue;
      for (int wa = 1; wa <= 2; ++wa) for (int wb = 1; wb <= 2; ++wb) for (int wc = 1; wc <= 2; ++wc) {
        if (!mine()) continue;
        std::string base = pre + ";perm=" + vf::join(perm) + ";w=" + std::to_string(wa) + "," + std::to_string(wb) + "," + std::to_string(wc);
        vf::stats().add("inputs.rp2_variants");
        Mat me = rp2_barycentric(perm, wa, wb, wc, INF), md = rp2_barycentric(perm, wa, wb, wc, 3);
        for (int d : vf::parse_ints(a.get("dims", "1,2"))) {
          Bar b2 = ref_barcode(me, INF, 2, d);
          for (int p : g.mods) {
          Cfg ce{"max", d, p}, cd{"2", d, p};
          if (p != 2 && b2 != ref_barcode(me, INF, p, d)) vf::stats().add("expected.barcode_depends_on_modulus");
          run_graph_case(base + ";form=edge_list" + cfg_str(ce), me, ce);
          run_dense_case(base + ";form=dense" + cfg_str(cd), md, nullptr, cd);
          sample_case(base + ";form=dense" + cfg_str(cd), 2);
          }
        }
      }
    } while (std::next_permutation(perm.begin(), perm.end()));
  } else if (part == "xpoly") {
    // boundary of the 4-dimensional cross-polytope: 8 points, the 4 antipodal pairs at distance 3, the 24 other pairs at
    // distances from vals - the smallest Rips complexes carrying a class of dimension 3 (born with the last of the 16
    // tetrahedra, killed at 3). Every assignment of vals to the first `free` non-antipodal pairs (the others keep the
    // first value), two placements of the antipodal pairs; replays are plain "matrix" cases.
    std::vector<double> vals = parse_doubles(a.get("vals", "1,2"));
    int nfree = (int)a.geti("free", 24);
    std::string prem = std::string("part=matrix;T=") + T_name;
    for (int pairing = 0; pairing < 2; ++pairing) {
      auto antipodal = [&](int i, int j) { return pairing == 0 ? (i / 2 == j / 2) : ((i % 4) == (j % 4)); };
      std::vector<std::pair<int, int>> pr;
      for (int i = 0; i < 8; ++i) for (int j = 0; j < i; ++j) if (!antipodal(i, j)) pr.push_back({i, j});
      if (nfree > (int)pr.size()) nfree = (int)pr.size();
      std::vector<size_t> digit(nfree, 0);
      for (;;) {
        if (mine()) {
          Mat m(8);
          for (int i = 0; i < 8; ++i) for (int j = 0; j < i; ++j) if (antipodal(i, j)) m.set(i, j, 3);
          for (size_t k = 0; k < pr.size(); ++k) m.set(pr[k].first, pr[k].second, (int)k < nfree ? vals[digit[k]] : vals[0]);
          std::string base = prem + ";n=8;d=" + m.lower_str();
          vf::stats().add("inputs.cross_polytopes");
          for_cfgs(g, 8, [&](const Cfg& c) {
            std::string cs = base + cfg_str(c);
            run_dense_case(cs, m, nullptr, c);
            sample_case(cs, 3);
          });
        }
        int k = 0;
        while (k < nfree && ++digit[k] >= vals.size()) { digit[k] = 0; ++k; }
        if (k == nfree) break;
      }
    }
  } else if (part == "big") {
    run_big_part(a, g, pre, idx);
  } else {
    fprintf(stderr, "unknown part %s\n", part.c_str());
    vf::stats().add("ev.incomplete");
  }
  vf::stats().add("ev.incomplete", 0);  // every enumeration above runs to its end: no cap, no deadline
  vf::finish();
  return 0;
}

// ---------------------------------------------------------------------------------------------------------------------
// inputs that make help1 itself choose the 128-bit field and the combinatorial number system: many vertices, few edges
// ---------------------------------------------------------------------------------------------------------------------
static int log2up_(long long n) { --n; int k = 0; while (n > 0) { n >>= 1; ++k; } return k; }

static void run_big_case(const std::string& cs, int N, const std::vector<int>& ids, const Mat& m, const Cfg& c) {
  vf::g_case_timeout = 120;
  vf::set_case(cs);
  g_thr_kind = "edge_list";
  // oracle on the vertices that carry edges (all other vertices are isolated: one (0,0,inf) each)
  Bar want = ref_barcode(m, INF, c.p, c.dim_max);
  cross_check_simplex_tree_route(m, INF, c, want);
  account_expected(N, want, m, INF, c.dim_max);
  Expect e = split_expect(want, N, c.dim_max, N - m.n);
  int dm = std::min(c.dim_max, N - 2);
  int bits = log2up_(N) * (dm + 2) + log2up_(c.p - 1);
  std::string enc = bits <= 64 ? "b64" : bits <= 128 ? "b128" : "cns128";
  vf::stats().add("dispatcher.expected_choice." + enc);
  vf::stats().maxi("big.bitfield_bits_max", bits);
  Resolved th = resolve_thr(c.thr_tok, m);
  unsigned p = (unsigned)c.p;
  compare("auto:edge_list:big_" + enc, run_auto(make_sparse_explicit(m, &ids, N), c.dim_max, th.code, p), e);
  if (bits <= 64) compare("help2:b64:edge_list:big", run_help2<U64, R::Bitfield_encoding>(make_sparse_explicit(m, &ids, N), c.dim_max, th.code, p), e);
  if (bits <= 128) compare("help2:b128:edge_list:big", run_help2<U128, R::Bitfield_encoding>(make_sparse_explicit(m, &ids, N), c.dim_max, th.code, p), e);
  compare("help2:cns128:edge_list:big", run_help2<U128, R::Cns_encoding>(make_sparse_explicit(m, &ids, N), c.dim_max, th.code, p), e);
  vf::end_case();
}

static void run_big_part(const vf::Args& a, const Grid& g, const std::string& pre, long long& idx) {
  // --big "N:dim,N:dim,..." ; k embedded vertices ; weights W (plus absent)
  std::vector<std::pair<int, int>> confs;
  for (auto& s : split(a.get("big", "5000:3,65536:2,70000:2,140000:6"))) {
    auto v = vf::parse_ints(s, ':');
    confs.push_back({v[0], v[1]});
  }
  int k = (int)a.geti("k", 4);
  std::vector<double> vals = parse_doubles(a.get("vals", "1,2"));
  vals.insert(vals.begin(), INF);
  auto mine = [&]() { bool r = (idx % a.nshards) == a.shard; ++idx; return r; };
  for (auto& cf : confs) {
    int N = cf.first;
    std::vector<int> spread = {0, 1, N / 2, N - 1, N - 2, N / 3, 2, N / 2 + 1};
    // exhaustive: every weighted graph on k embedded vertices
    std::vector<int> ids(spread.begin(), spread.begin() + k);
    std::sort(ids.begin(), ids.end());
    int npairs = k * (k - 1) / 2;
    std::vector<size_t> digit(npairs, 0);
    for (;;) {
      if (mine()) {
        std::vector<double> low(npairs);
        for (int q = 0; q < npairs; ++q) low[q] = vals[digit[q]];
        Mat m = mat_from_lower(k, low);
        vf::stats().add("inputs.big_graphs");
        for (int p : g.mods) {
          Cfg c{"inf", cf.second, p};
          std::string cs = pre + ";N=" + std::to_string(N) + ";ids=" + vf::join(ids) + ";d=" + m.lower_str() + cfg_str(c);
          run_big_case(cs, N, ids, m, c);
          sample_case(cs, 2);
        }
      }
      int q = 0;
      while (q < npairs && ++digit[q] >= vals.size()) { digit[q] = 0; ++q; }
      if (q == npairs) break;
    }
    // fixed witnesses with homology in dimension 1, 2 and 3: hexagon, octahedron, 8-vertex cross-polytope
    for (int w = 0; w < 3; ++w) {
      if (!mine()) continue;
      int kk = w == 2 ? 8 : 6;
      std::vector<int> wid(spread.begin(), spread.begin() + kk);
      std::sort(wid.begin(), wid.end());
      Mat m(kk);
      for (int i = 0; i < kk; ++i) for (int j = 0; j < i; ++j) {
        double d;
        if (w == 0) d = ((i - j) == 1 || (i - j) == kk - 1) ? 1 : ((i - j) == 3 ? 2 : INF);  // 6-cycle, long diagonals at 2
        else d = (i / 2 == j / 2) ? 2 : 1;                                                     // cross-polytope, antipodes at 2
        m.set(i, j, d);
      }
      vf::stats().add("inputs.big_witnesses");
      for (int p : g.mods) {
        Cfg c{"inf", cf.second, p};
        std::string cs = pre + ";N=" + std::to_string(N) + ";ids=" + vf::join(wid) + ";d=" + m.lower_str() + cfg_str(c);
        run_big_case(cs, N, wid, m, c);
      }
    }
  }
}
