// C20 shared helpers: RefFK, the reference model of the Freudenthal-Kuhn triangulation (no GUDHI code inside).
//
// Definition used by the oracle (textbook): the vertices of the Freudenthal-Kuhn triangulation of R^d are the points
// of Z^d; a finite set of lattice points is a simplex iff it is totally ordered by the componentwise order and
// (largest - smallest) lies in {0,1}^d.  Faces are subsets, cofaces are supersets that are still simplices.
//
// A permutahedral representation is (y, w) with y in Z^d and w = (w_0,...,w_k) an ordered partition of {0..d}.  Its
// vertices are v_0 = y, v_{j+1} = v_j + sum_{i in w_j} e_i  with e_d = -(1,...,1).  It is *canonical* when d lies in
// the last part (this is what GUDHI's coface iterator calls "a permutahedral representation", and what is_face_of
// silently needs); canonical representations are in bijection with simplices.
#ifndef VF_C20_COMMON_HPP
#define VF_C20_COMMON_HPP

#include <algorithm>
#include <cstdint>
#include <map>
#include <set>
#include <sstream>
#include <string>
#include <vector>

#include "harness.hpp"

namespace fk {

using Pt = std::vector<int>;
using Parts = std::vector<std::vector<int>>;

struct Rep {
  Pt y;
  Parts w;
  bool operator==(const Rep& o) const { return y == o.y && w == o.w; }
  bool operator<(const Rep& o) const { return y != o.y ? y < o.y : w < o.w; }
};

inline std::string str(const Pt& p) { return vf::join(p, ","); }
inline std::string pstr(const Parts& w) {
  std::string r;
  for (size_t i = 0; i < w.size(); ++i) {
    if (i) r += "/";
    for (size_t j = 0; j < w[i].size(); ++j) { if (j) r += "."; r += std::to_string(w[i][j]); }
  }
  return r;
}
inline std::string str(const Rep& r) { return "y=" + str(r.y) + ";w=" + pstr(r.w); }
inline std::string vstr(const std::vector<Pt>& v) {
  std::string r;
  for (auto& p : v) r += "(" + str(p) + ")";
  return r;
}

inline Parts parse_parts(const std::string& s) {
  Parts w;
  std::vector<int> cur;
  std::string num;
  auto flush_num = [&]() { if (!num.empty()) { cur.push_back(atoi(num.c_str())); num.clear(); } };
  for (char c : s) {
    if (c == '/') { flush_num(); w.push_back(cur); cur.clear(); }
    else if (c == '.') flush_num();
    else num += c;
  }
  flush_num();
  w.push_back(cur);
  return w;
}

inline std::vector<long long> parse_ll(const std::string& s) {
  std::vector<long long> r;
  std::string cur;
  for (char c : s) {
    if (c == ',') { if (!cur.empty()) r.push_back(atoll(cur.c_str())); cur.clear(); }
    else cur += c;
  }
  if (!cur.empty()) r.push_back(atoll(cur.c_str()));
  return r;
}

// every ordered set partition of {0..d}, parts sorted increasingly inside; canonical ones only if asked
inline std::vector<Parts> ordered_partitions(int d, bool canonical_only) {
  std::vector<Parts> out;
  int n = d + 1;
  for (int m = 1; m <= n; ++m) {
    std::vector<int> f(n, 0);
    for (;;) {
      std::vector<int> cnt(m, 0);
      for (int x : f) cnt[x]++;
      bool surj = true;
      for (int c : cnt) if (!c) surj = false;
      if (surj && (!canonical_only || f[d] == m - 1)) {
        Parts w(m);
        for (int i = 0; i < n; ++i) w[f[i]].push_back(i);
        out.push_back(w);
      }
      int i = 0;
      while (i < n && ++f[i] == m) f[i++] = 0;
      if (i == n) break;
    }
  }
  return out;
}

inline std::vector<Pt> box_points(int d, int lo, int hi) {
  std::vector<Pt> out;
  Pt p(d, lo);
  for (;;) {
    out.push_back(p);
    int i = d - 1;                       // last coordinate fastest: lexicographic order
    while (i >= 0 && ++p[i] > hi) p[i--] = lo;
    if (i < 0) break;
  }
  return out;
}

// is (y,w) an ordered set partition of {0..d} with non-empty parts? canonical = d in the last part
inline bool valid_rep(const Rep& r, int d, bool* canonical) {
  if ((int)r.y.size() != d || r.w.empty()) return false;
  std::vector<int> seen(d + 1, 0);
  for (auto& p : r.w) {
    if (p.empty()) return false;
    for (int x : p) {
      if (x < 0 || x > d || seen[x]) return false;
      seen[x] = 1;
    }
  }
  for (int s : seen) if (!s) return false;
  if (canonical) *canonical = std::find(r.w.back().begin(), r.w.back().end(), d) != r.w.back().end();
  return true;
}

// vertices v_0..v_k of a representation, in chain order of the representation
inline std::vector<Pt> vertices(const Rep& r) {
  int d = (int)r.y.size();
  std::vector<Pt> v;
  Pt cur = r.y;
  v.push_back(cur);
  for (size_t j = 0; j + 1 < r.w.size(); ++j) {
    for (int i : r.w[j]) {
      if (i < d) cur[i] += 1;
      else for (int l = 0; l < d; ++l) cur[l] -= 1;
    }
    v.push_back(cur);
  }
  return v;
}
inline std::vector<Pt> sorted_vertices(const Rep& r) {
  auto v = vertices(r);
  std::sort(v.begin(), v.end());
  return v;
}

// textbook membership test: chain for the componentwise order inside a unit cube, all points distinct
inline bool is_fk_simplex(std::vector<Pt> pts) {
  if (pts.empty()) return false;
  size_t d = pts[0].size();
  auto sum = [](const Pt& p) { long s = 0; for (int x : p) s += x; return s; };
  std::sort(pts.begin(), pts.end(), [&](const Pt& a, const Pt& b) { return sum(a) != sum(b) ? sum(a) < sum(b) : a < b; });
  for (size_t j = 0; j + 1 < pts.size(); ++j) {
    bool neq = false;
    for (size_t i = 0; i < d; ++i) {
      if (pts[j][i] > pts[j + 1][i]) return false;
      if (pts[j][i] != pts[j + 1][i]) neq = true;
    }
    if (!neq) return false;
  }
  for (size_t i = 0; i < d; ++i) {
    int df = pts.back()[i] - pts.front()[i];
    if (df < 0 || df > 1) return false;
  }
  return true;
}

// all simplices with l+1 vertices that contain the simplex `verts` (as sorted vertex sets), by brute force over the
// lattice points of the box  min-1 .. min+1 (any vertex comparable with all of `verts` inside a unit cube is in there)
inline std::set<std::vector<Pt>> cofaces(const std::vector<Pt>& verts, int l) {
  std::set<std::vector<Pt>> out;
  int k = (int)verts.size() - 1;
  int d = (int)verts[0].size();
  Pt mn = *std::min_element(verts.begin(), verts.end(), [](const Pt& a, const Pt& b) {
    long sa = 0, sb = 0; for (int x : a) sa += x; for (int x : b) sb += x; return sa < sb; });
  std::vector<Pt> cand;
  for (auto& off : box_points(d, -1, 1)) {
    Pt u(d);
    for (int i = 0; i < d; ++i) u[i] = mn[i] + off[i];
    if (std::find(verts.begin(), verts.end(), u) != verts.end()) continue;
    std::vector<Pt> t = verts;
    t.push_back(u);
    if (is_fk_simplex(t)) cand.push_back(u);
  }
  std::vector<Pt> cur = verts;
  // choose l-k candidates in increasing index order, pruning with the membership test
  struct Rec {
    const std::vector<Pt>& cand; std::set<std::vector<Pt>>& out; int need;
    void go(std::vector<Pt>& cur, size_t from, int taken) {
      if (taken == need) { auto s = cur; std::sort(s.begin(), s.end()); out.insert(s); return; }
      for (size_t i = from; i < cand.size(); ++i) {
        cur.push_back(cand[i]);
        if (is_fk_simplex(cur)) go(cur, i + 1, taken + 1);
        cur.pop_back();
      }
    }
  } rec{cand, out, l - k};
  if (l >= k) rec.go(cur, 0, 0);
  return out;
}

inline bool subset(const std::vector<Pt>& a_sorted, const std::vector<Pt>& b_sorted) {
  return std::includes(b_sorted.begin(), b_sorted.end(), a_sorted.begin(), a_sorted.end());
}

inline long long binom(int n, int k) {
  if (k < 0 || k > n) return 0;
  long long r = 1;
  for (int i = 1; i <= k; ++i) r = r * (n - k + i) / i;
  return r;
}

// GUDHI <-> Rep ------------------------------------------------------------------------------------------------------
template <class SH>
SH to_gudhi(const Rep& r) {
  typename SH::Vertex v(r.y.begin(), r.y.end());
  typename SH::OrderedSetPartition w;
  for (auto& p : r.w) {
    typename SH::OrderedSetPartition::value_type q;
    for (int x : p) q.push_back(x);
    w.push_back(q);
  }
  return SH(v, w);
}
template <class SH>
Rep from_gudhi(const SH& s, bool sort_parts) {
  Rep r;
  for (auto x : s.vertex()) r.y.push_back((int)x);
  for (auto& p : s.partition()) {
    std::vector<int> q;
    for (auto x : p) q.push_back((int)x);
    if (sort_parts) std::sort(q.begin(), q.end());
    r.w.push_back(q);
  }
  return r;
}

}  // namespace fk

#endif
