// test
#ifndef VF_PM_CONFIGS_HPP
#define VF_PM_CONFIGS_HPP
#include "pm_common.hpp"
#define PMO(Z2, CT, FL, IDX, RA, RR, MAP, V, R, D, P, RC, S) \
  pmc::Opt<Z2, pmc::Column_types::CT, FL, pmc::CI::IDX, RA, RR, MAP, V, R, D, P, RC, S>
#ifndef VF_CFG
#define VF_CFG 0
#endif
#if VF_CFG == 0
using Group = pmc::List<PMO(true, INTRUSIVE_SET, 0, CONTAINER, 0, false, false, false, false, true, true, true, false),
 PMO(true, INTRUSIVE_SET, 1, CONTAINER, 0, false, false, false, true, true, true, true, false),
 PMO(true, INTRUSIVE_SET, 2, CONTAINER, 0, false, false, false, false, true, true, true, false)>;
#endif
#endif
