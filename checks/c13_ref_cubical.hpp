// RefCubical - reference model of a (possibly periodic) cubical grid complex.  No GUDHI code.
//
// A cell is a product of elementary intervals I_0 x ... x I_{d-1}; I_i = [a,a] (degenerate) or [a,a+1] (with a+1 taken
// modulo the number of unit intervals in a periodic direction).  Everything (dimension, faces, cofaces, the top cells
// containing a cell, the vertices of a cell) is derived from these intervals.  The only convention taken from the
// GUDHI documentation is the *numbering*: the cell whose i-th interval starts at a_i has coordinate c_i = 2 a_i (+1 if
// non-degenerate) and sits at position sum_i c_i * prod_{j<i} P_j, P_j = number of coordinates in direction j
// ("lexicographical order", first direction fastest), and input values are read in the same (Fortran) order.
//
// Faces and the containing top cells / vertices are produced twice: by construction (endpoint substitution) and, when
// the grid is small enough, by brute-force containment over all pairs of cells; the two must agree (self-check).
#ifndef VF_C13_REF_CUBICAL_HPP
#define VF_C13_REF_CUBICAL_HPP

#include <algorithm>
#include <cstdio>
#include <cstdlib>
#include <string>
#include <utility>
#include <vector>

namespace rc {

struct Iv {
  int lo, hi;
  bool deg() const { return lo == hi; }
};

struct Grid {
  int d = 0;
  std::vector<int> s;    // number of unit intervals (top cells) per direction, may be 0 (a single vertex)
  std::vector<int> per;  // 1 = periodic direction
  std::vector<int> nv;   // number of vertices per direction
  std::vector<int> P;    // number of coordinates per direction
  std::vector<size_t> mult;
  size_t N = 0, ntop = 0, nvert = 0;
  std::vector<std::vector<Iv>> cell;
  std::vector<int> dim;
  std::vector<char> wraps;                                   // some interval of the cell is [s-1, 0]
  std::vector<std::vector<std::pair<size_t, int>>> faces;    // (cell, documented incidence number)
  std::vector<std::vector<size_t>> cofaces;                  // sorted
  std::vector<std::vector<size_t>> tops;                     // input indices of the top cells containing the cell
  std::vector<std::vector<size_t>> verts;                    // input indices of the vertices of the cell
  std::vector<size_t> top_cell, vert_cell;                   // input index -> cell
  bool brute_checked = false;

  size_t encode(const std::vector<Iv>& c) const {
    size_t idx = 0;
    for (int i = 0; i < d; ++i) idx += (size_t)(2 * c[i].lo + (c[i].deg() ? 0 : 1)) * mult[i];
    return idx;
  }
  bool iv_inside(const Iv& b, const Iv& a) const {  // b subset of a (as subcomplexes of the line / circle)
    if (b.deg()) return b.lo == a.lo || b.lo == a.hi;
    return !a.deg() && a.lo == b.lo;
  }
  bool inside(size_t b, size_t a) const {
    for (int i = 0; i < d; ++i) if (!iv_inside(cell[b][i], cell[a][i])) return false;
    return true;
  }

  static void fail(const char* what) {
    fprintf(stderr, "C13 oracle self-check failed: %s\n", what);
    exit(2);
  }

  Grid(const std::vector<int>& sizes, const std::vector<int>& periodic, size_t brute_limit = 3000000) {
    d = (int)sizes.size();
    s = sizes;
    per = periodic;
    N = 1;
    ntop = 1;
    nvert = 1;
    for (int i = 0; i < d; ++i) {
      nv.push_back(per[i] ? s[i] : s[i] + 1);
      P.push_back(per[i] ? 2 * s[i] : 2 * s[i] + 1);
      mult.push_back(N);
      N *= (size_t)P[i];
      ntop *= (size_t)s[i];
      nvert *= (size_t)nv[i];
    }
    cell.resize(N);
    dim.assign(N, 0);
    wraps.assign(N, 0);
    faces.resize(N);
    cofaces.resize(N);
    tops.resize(N);
    verts.resize(N);
    for (size_t idx = 0; idx < N; ++idx) {
      std::vector<Iv> c(d);
      for (int i = 0; i < d; ++i) {
        int ci = (int)((idx / mult[i]) % (size_t)P[i]);
        c[i].lo = ci / 2;
        if (ci % 2 == 0) c[i].hi = c[i].lo;
        else {
          c[i].hi = c[i].lo + 1;
          if (per[i] && c[i].hi == s[i]) { c[i].hi = 0; wraps[idx] = 1; }
          ++dim[idx];
        }
      }
      cell[idx] = c;
    }
    for (size_t idx = 0; idx < N; ++idx) if (encode(cell[idx]) != idx) fail("numbering is not a bijection");
    // faces by endpoint substitution, sign = (-1)^(number of non-degenerate intervals before j) * (-1 lower, +1 upper)
    for (size_t idx = 0; idx < N; ++idx) {
      int before = 0;
      for (int j = 0; j < d; ++j) {
        if (cell[idx][j].deg()) continue;
        int sg = (before % 2) ? -1 : 1;
        std::vector<Iv> f = cell[idx];
        f[j] = Iv{cell[idx][j].lo, cell[idx][j].lo};
        faces[idx].push_back({encode(f), -sg});
        f[j] = Iv{cell[idx][j].hi, cell[idx][j].hi};
        faces[idx].push_back({encode(f), sg});
        ++before;
      }
    }
    for (size_t idx = 0; idx < N; ++idx) for (auto& f : faces[idx]) cofaces[f.first].push_back(idx);
    for (auto& c : cofaces) std::sort(c.begin(), c.end());
    // vertices of a cell: product of the endpoints
    vert_cell.assign(nvert, 0);
    {
      std::vector<int> v(d, 0);
      for (size_t k = 0; k < nvert; ++k) {
        std::vector<Iv> c(d);
        for (int i = 0; i < d; ++i) c[i] = Iv{v[i], v[i]};
        vert_cell[k] = encode(c);
        for (int i = 0; i < d; ++i) { if (++v[i] < nv[i]) break; v[i] = 0; }
      }
    }
    for (size_t idx = 0; idx < N; ++idx) {
      std::vector<std::vector<int>> choices(d);
      for (int i = 0; i < d; ++i) {
        choices[i].push_back(cell[idx][i].lo);
        if (!cell[idx][i].deg()) choices[i].push_back(cell[idx][i].hi);
      }
      product(choices, nv, verts[idx]);
    }
    // top cells containing a cell: per direction the unit intervals containing I_i
    top_cell.assign(ntop, 0);
    if (ntop > 0) {
      std::vector<int> t(d, 0);
      for (size_t k = 0; k < ntop; ++k) {
        std::vector<Iv> c(d);
        for (int i = 0; i < d; ++i) c[i] = Iv{t[i], (per[i] && t[i] + 1 == s[i]) ? 0 : t[i] + 1};
        top_cell[k] = encode(c);
        for (int i = 0; i < d; ++i) { if (++t[i] < s[i]) break; t[i] = 0; }
      }
      for (size_t idx = 0; idx < N; ++idx) {
        std::vector<std::vector<int>> choices(d);
        for (int i = 0; i < d; ++i) {
          const Iv& I = cell[idx][i];
          if (!I.deg()) { choices[i].push_back(I.lo); continue; }
          int a = I.lo;
          // unit intervals [t,t+1] with a in {t, t+1}
          if (per[i]) {
            choices[i].push_back((a + s[i] - 1) % s[i]);
            if (s[i] > 1) choices[i].push_back(a);
          } else {
            if (a - 1 >= 0) choices[i].push_back(a - 1);
            if (a < s[i]) choices[i].push_back(a);
          }
        }
        product(choices, s, tops[idx]);
      }
    }
    // brute-force cross-check of the constructions above
    if (N * N <= brute_limit) {
      brute_checked = true;
      for (size_t a = 0; a < N; ++a) {
        std::vector<size_t> bf;
        for (size_t b = 0; b < N; ++b) if (dim[b] + 1 == dim[a] && inside(b, a)) bf.push_back(b);
        std::vector<size_t> cf;
        for (auto& f : faces[a]) cf.push_back(f.first);
        std::sort(cf.begin(), cf.end());
        if (bf != cf) fail("faces by construction != faces by containment");
        std::vector<size_t> bv;
        for (size_t k = 0; k < nvert; ++k) if (inside(vert_cell[k], a)) bv.push_back(k);
        if (bv != verts[a]) fail("vertices by construction != vertices by containment");
        std::vector<size_t> bt;
        for (size_t k = 0; k < ntop; ++k) if (inside(a, top_cell[k])) bt.push_back(k);
        if (bt != tops[a]) fail("top cells by construction != top cells by containment");
      }
    }
  }

  // all index tuples with x_i in choices[i], as input indices (first direction fastest), sorted, without duplicates
  static void product(const std::vector<std::vector<int>>& choices, const std::vector<int>& extent,
                      std::vector<size_t>& out) {
    size_t d = choices.size();
    for (auto& c : choices) if (c.empty()) return;
    std::vector<size_t> k(d, 0);
    for (;;) {
      size_t idx = 0, m = 1;
      for (size_t i = 0; i < d; ++i) { idx += (size_t)choices[i][k[i]] * m; m *= (size_t)extent[i]; }
      out.push_back(idx);
      size_t i = 0;
      for (; i < d; ++i) { if (++k[i] < choices[i].size()) break; k[i] = 0; }
      if (i == d) break;
    }
    std::sort(out.begin(), out.end());
    out.erase(std::unique(out.begin(), out.end()), out.end());
  }

  std::string cell_str(size_t idx) const {
    std::string r;
    for (int i = 0; i < d; ++i) {
      if (i) r += "x";
      r += "[" + std::to_string(cell[idx][i].lo);
      if (!cell[idx][i].deg()) r += "," + std::to_string(cell[idx][i].hi);
      r += "]";
    }
    return r;
  }
};

}  // namespace rc

#endif
