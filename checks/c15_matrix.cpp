// C15 (Matrix part) - copies, moves, assignments and swaps of Gudhi::persistence_matrix::Matrix<Options> yield objects
// observationally equal to the source and fully independent of it.
// E1-style, on the real code under ASan/UBSan with the crash isolation of C05:
//   source state A (every short history, incl. remove_last; R-only matrices also "barcode already asked")
//   x target state B (a fixed small family) x {copy-construct, copy-assign, move-construct, move-assign, swap,
//   self-copy-assign, self-move-assign} x one-step continuation on either object x destruction order.
// After the operation both objects get the FULL C05 verification against their own reference models (pm_verify.hpp); a
// moved-from matrix is read the weaker way (DESIGN.md section 3): empty, destructible, assignable, usable after assignment.
// Independence: every enabled continuation (insert each enabled cell, remove_last) is applied to ONE of the two, BOTH
// are re-verified, the mutated one is destroyed first and the other is verified again (incl. barcode / reduction and, for
// R-only matrices, remove_last down to empty); and the other way round.
#include "pm_verify.hpp"
#include "pm_configs.hpp"

using namespace pmc;

extern "C" const char* __asan_default_options() { return "symbolize=0:fast_unwind_on_fatal=1"; }
extern "C" const char* __ubsan_default_options() { return "symbolize=0"; }

enum Kind { COPY_CTOR, COPY_ASSIGN, MOVE_CTOR, MOVE_ASSIGN, SWAP, SELF_COPY, SELF_MOVE, NKINDS };
static const char* kind_name[] = {"copy-construct", "copy-assign", "move-construct", "move-assign", "swap", "self-copy-assign",
                                  "self-move-assign"};
static bool kind_uses_target(int k) { return k == COPY_ASSIGN || k == MOVE_ASSIGN || k == SWAP; }

// counters beyond those of pm_verify.hpp (same shared block)
enum C15Counter { C15_KIND0 = 30, C15_CONTINUATIONS = 40, C15_REVIVED = 41, C15_PAIRS_BUILT = 42, C15_DESTROY_FIRST = 43 };

// stage of the case being executed, in shared memory (part of the class of a death)
static char* g_stage_sh = nullptr;
static void set_stage(const std::string& s) {
  size_t n = std::min<size_t>(s.size(), 120);
  memcpy(g_stage_sh, s.data(), n);
  g_stage_sh[n] = 0;
}

struct StateSpec {
  std::vector<int> ops;
  bool reduced = false;  // R-only boundary matrices: get_current_barcode already called (no insertion afterwards)
};
static std::string spec_str(const StateSpec& s) { return vf::join(s.ops) + (s.reduced ? "/r" : ""); }

template <class O>
struct Obj {
  std::unique_ptr<Exec<O>> ex;
  bool reduced = false;
  bool moved = false;
};

template <class O>
struct C15 {
  using E = Exec<O>;
  using M = Matrix<O>;
  Verifier<O> V;
  const Universe* U = nullptr;
  int p = 2, idm = 0, ctor = 0;
  long long calls = 0;
  StateSpec revive_state;  // what a moved-from matrix is assigned from

  void build(Obj<O>& o, const StateSpec& s) {
    o.ex.reset(new E(*U, p, idm, ctor));
    for (int op : s.ops) o.ex->apply(op);
    o.reduced = false;
    o.moved = false;
    if constexpr (O::flavour == F_BOUNDARY) {
      if (s.reduced) { o.ex->barcode(); o.reduced = true; }
    }
    cnt(C15_PAIRS_BUILT)++;
  }
  void destroy(Obj<O>& o) {
    if (!o.ex) return;
    calls += o.ex->calls;
    phase("destructor");
    o.ex.reset();
  }

  // performs the operation; src is built from A, dst from B where the kind has a target
  void make(Obj<O>& src, Obj<O>& dst, const StateSpec& A, const StateSpec& B, int k) {
    set_stage("build");
    build(src, A);
    if (kind_uses_target(k)) build(dst, B);
    else if (k == COPY_CTOR || k == MOVE_CTOR) { dst.ex.reset(new E(*U, p, idm, ctor)); dst.reduced = false; dst.moved = false; }
    set_stage("operation");
    phase(kind_name[k]);
    ++calls;
    switch (k) {
      case COPY_CTOR: dst.ex->m.reset(new M(*src.ex->m)); dst.ex->mod = src.ex->mod; dst.reduced = src.reduced; break;
      case MOVE_CTOR: dst.ex->m.reset(new M(std::move(*src.ex->m))); dst.ex->mod = src.ex->mod; dst.reduced = src.reduced; src.moved = true; break;
      case COPY_ASSIGN: *dst.ex->m = *src.ex->m; dst.ex->mod = src.ex->mod; dst.reduced = src.reduced; break;
      case MOVE_ASSIGN: *dst.ex->m = std::move(*src.ex->m); dst.ex->mod = src.ex->mod; dst.reduced = src.reduced; src.moved = true; break;
      case SWAP: {
        swap(*src.ex->m, *dst.ex->m);
        std::swap(src.ex->mod, dst.ex->mod);
        std::swap(src.reduced, dst.reduced);
        break;
      }
      case SELF_COPY: { M& r = *src.ex->m; *src.ex->m = r; break; }
      case SELF_MOVE: { M& r = *src.ex->m; *src.ex->m = std::move(r); break; }
      default: break;
    }
    phase("after_operation");
  }

  // light: every observation that does not modify the object; deep: also asks the barcode of an R-only matrix (which
  // reduces it); last: the object is not used afterwards (R-only: remove_last down to empty)
  void verify(Obj<O>& o, int k, const std::string& stage, bool deep, bool last) {
    set_stage(stage);
    V.cls_prefix = std::string("C15:matrix:") + kind_name[k] + ":" + stage + ":";
    E& ex = *o.ex;
    if (o.moved) {
      phase("get_number_of_columns");
      V.eq((long long)ex.m->get_number_of_columns(), 0LL, "moved_from_not_empty", "number of columns of the moved-from matrix");
      return;
    }
    if constexpr (O::flavour == F_BOUNDARY) {
      if (!o.reduced) {
        V.after_boundary(ex, ":before_barcode", false);
        if (!deep) return;
        V.compare_barcode(ex, "");
        o.reduced = true;
        V.after_boundary(ex, "", true);
      } else {
        V.compare_barcode(ex, "");
        V.after_boundary(ex, "", true);
      }
      if constexpr (E::CAN_REMOVE) {
        if (last) {
          while (ex.mod.n() > 0) {
            ex.remove_last();
            cnt(NV_TAIL)++;
            V.compare_barcode(ex, ":after_remove_last");
            V.after_boundary(ex, ":after_remove_last", true);
          }
        }
      }
    } else if constexpr (O::flavour == F_RU) {
      V.verify_ru(ex);
    } else {
      V.verify_chain(ex);
    }
  }

  // a moved-from matrix must be assignable and usable afterwards
  void revive(Obj<O>& o, int k, bool by_move) {
    std::string stage = by_move ? "moved-from-then-move-assigned" : "moved-from-then-copy-assigned";
    set_stage(stage);
    Obj<O> t;
    build(t, revive_state);
    set_stage(stage);
    phase(by_move ? "move-assign" : "copy-assign");
    if (by_move) *o.ex->m = std::move(*t.ex->m);
    else *o.ex->m = *t.ex->m;
    ++calls;
    o.ex->mod = t.ex->mod;
    o.reduced = t.reduced;
    o.moved = false;
    if (by_move) t.moved = true;
    verify(o, k, stage, false, false);
    if (!by_move) verify(t, k, stage + ":assigned-from", false, false);
    destroy(t);
    auto cs = continuations(o);
    for (int c : cs) if (c != OP_REMOVE) { set_stage(stage); o.ex->apply(c); break; }
    verify(o, k, stage + ":continued", true, true);
    cnt(C15_REVIVED)++;
  }

  std::vector<int> continuations(Obj<O>& o) {
    std::vector<int> r;
    if (o.moved) return r;
    Model& md = o.ex->mod;
    bool can_insert = !(O::flavour == F_BOUNDARY && o.reduced) && !(idm == 0 && md.removals > 0);
    if (can_insert) {
      for (size_t c = 0; c < U->cells.size(); ++c) {
        if (md.pos_of_cell((int)c) >= 0) continue;
        bool ok = true;
        for (auto& e : U->cells[c].bd) if (md.pos_of_cell(e.first) < 0) { ok = false; break; }
        if (ok) r.push_back((int)c);
      }
    }
    if (E::CAN_REMOVE && md.n() > 0) r.push_back(OP_REMOVE);
    return r;
  }

  void check(const StateSpec& A, const StateSpec& B, int k) {
    {  // (i) both objects equal to their models, first without modifying them, then each with its deep verification
      Obj<O> src, dst;
      make(src, dst, A, B, k);
      if (dst.ex) verify(dst, k, "target", false, false);
      verify(src, k, "source", false, false);
      if (dst.ex) verify(dst, k, "target:deep", true, true);
      if (src.moved) revive(src, k, k == MOVE_ASSIGN);
      else verify(src, k, "source:deep-after-target-deep", true, true);
      // the target is destroyed last here (unique_ptr order: dst declared after src is destroyed first) - make it explicit
      destroy(src);
      if (dst.ex) { set_stage("target:after-source-destroyed"); destroy(dst); }
      cnt(C15_KIND0 + k)++;
    }
    if (k == SELF_COPY || k == SELF_MOVE) return;
    // (ii) independence
    for (int side = 0; side < 2; ++side) {
      size_t nconts = 0;
      {
        Obj<O> src, dst;
        make(src, dst, A, B, k);
        nconts = continuations(side == 0 ? dst : src).size();
        destroy(src);
        destroy(dst);
      }
      for (size_t ci = 0; ci < nconts; ++ci) {
        Obj<O> src, dst;
        make(src, dst, A, B, k);
        Obj<O>& mut = side == 0 ? dst : src;
        Obj<O>& other = side == 0 ? src : dst;
        std::string who = side == 0 ? "target" : "source";
        std::string oth = side == 0 ? "source" : "target";
        int c = continuations(mut)[ci];
        set_stage("after-" + who + "-mutation");
        mut.ex->apply(c);
        cnt(C15_CONTINUATIONS)++;
        verify(mut, k, "after-" + who + "-mutation:" + who, false, false);
        verify(other, k, "after-" + who + "-mutation:" + oth, false, false);
        set_stage("after-" + who + "-mutation:destroy-" + who);
        destroy(mut);
        cnt(C15_DESTROY_FIRST)++;
        if (other.moved) revive(other, k, ci % 2 == 1);
        else verify(other, k, "after-" + who + "-destroyed:" + oth, true, true);
        destroy(other);
      }
    }
  }

  std::string case_str(const StateSpec& A, const StateSpec& B, int k) {
    std::ostringstream o;
    o << "cfg=" << V.cfg << ";u=" << U->name << ";p=" << p << ";idm=" << idm << ";ctor=" << ctor << ";kind=" << kind_name[k]
      << ";A=" << vf::join(A.ops) << ";Ar=" << (A.reduced ? 1 : 0) << ";B=" << vf::join(B.ops) << ";Br=" << (B.reduced ? 1 : 0)
      << ";text=source: " << ops_text(*U, A.ops) << (A.reduced ? "barcode " : "") << "| target: " << ops_text(*U, B.ops)
      << (B.reduced ? "barcode" : "");
    return o.str();
  }
  std::string crash_class(int k, const std::string& ph, const std::string& kind) {
    return std::string("C15:matrix:") + kind_name[k] + ":" + std::string(g_stage_sh) + ":" + V.crash_class(ph, kind);
  }

  void run_case(const StateSpec& A, const StateSpec& B, int k) {
    vf::set_case(case_str(A, B, k));
    g_cls_suffix = "";
    long long c0 = V.comparisons;
    calls = 0;
    try {
      check(A, B, k);
    } catch (const std::out_of_range& e) {
      V.cls_prefix = "";
      V.bad(crash_class(k, g_phase, "exception_out_of_range"), std::string("exception thrown: ") + e.what());
    } catch (const std::exception& e) {
      V.cls_prefix = "";
      V.bad(crash_class(k, g_phase, "exception"), std::string("exception thrown: ") + e.what());
    }
    phase("between_cases");
    vf::end_case();
    cnt(EV_TRACES)++;
    cnt(EV_TRANSITIONS) += calls;
    cnt(EV_EVALUATIONS) += V.comparisons - c0;
    HistInfo hi = hist_info(A.ops);
    if (hi.removes > 0 || hi.inserts >= 3) cnt(EV_NONTRIVIAL)++;
    cnt(CASES_FIRST + O::flavour * 2 + (O::is_z2 ? 0 : 1))++;
  }
};

template <class T>
struct Tag { using type = T; };
template <class F, class... Os>
void for_each_config(List<Os...>, F&& f) { (f(Tag<Os>{}), ...); }

struct CaseRef { size_t a, b; int k; };

int main(int argc, char** argv) {
  vf::Args a = vf::parse_args(argc, argv);
  vf::install_handlers();
  vf::g_case_timeout = 10;
  shared_init();
  g_stage_sh = (char*)mmap(nullptr, 4096, PROT_READ | PROT_WRITE, MAP_SHARED | MAP_ANONYMOUS, -1, 0);
  if (g_stage_sh == (char*)MAP_FAILED) { perror("mmap"); return 2; }
  set_stage("");
  bool thorough = a.thorough();
  double t0 = vf::now_s();
  double budget = (double)a.geti("budget", thorough ? 2000 : 400);

  auto finish = [&]() {
    auto& st = vf::stats();
    for (int i = 0; i < CASES_FIRST + 6; ++i) {
      if (i == NV_REMHIST || i == NV_EMPTYREM) continue;
      st.add(counter_names[i], cnt(i));
    }
    for (int k = 0; k < NKINDS; ++k) st.add(std::string("kind.") + kind_name[k], cnt(C15_KIND0 + k));
    st.add("nv.continuations_applied", cnt(C15_CONTINUATIONS));
    st.add("nv.mutated_object_destroyed_first", cnt(C15_DESTROY_FIRST));
    st.add("nv.moved_from_reassigned_and_continued", cnt(C15_REVIVED));
    st.add("objects_built", cnt(C15_PAIRS_BUILT));
    st.add("ev.states", cnt(EV_TRACES));
    st.add("ev.incomplete", g_sh->incomplete ? 1 : 0);
    st.mismatches = cnt(MISMATCHES);
    vf::finish();
  };

  std::string uname = a.get("u", "tri");
  Universe U = make_universe(uname);

  if (!a.replay.empty()) {
    auto kv = vf::parse_kv(a.replay);
    Universe UR = make_universe(kv["u"]);
    bool found = false;
    for_each_config(Group{}, [&](auto tag) {
      using O = typename decltype(tag)::type;
      if (opt_name<O>() != kv["cfg"]) return;
      found = true;
      C15<O> c;
      c.U = &UR;
      c.p = atoi(kv["p"].c_str());
      c.idm = atoi(kv["idm"].c_str());
      c.ctor = atoi(kv["ctor"].c_str());
      c.revive_state.ops = {0, 1};  // two vertices (cells 0 and 1 of both simplex universes)
      StateSpec A, B;
      A.ops = vf::parse_ints(kv["A"]);
      A.reduced = atoi(kv["Ar"].c_str()) != 0;
      B.ops = vf::parse_ints(kv["B"]);
      B.reduced = atoi(kv["Br"].c_str()) != 0;
      int k = 0;
      for (int i = 0; i < NKINDS; ++i) if (kv["kind"] == kind_name[i]) k = i;
      run_isolated(
          1, [&](size_t) { c.run_case(A, B, k); return true; }, [&](size_t) { return c.case_str(A, B, k); },
          [&](const std::string& ph, const std::string& kind) { return c.crash_class(k, ph, kind); }, EV_TRACES);
    });
    if (!found) fprintf(stderr, "configuration %s is not in this unit\n", kv["cfg"].c_str());
    finish();
    return found ? 0 : 2;
  }

  HistoryBounds hb;
  hb.max_ins = (int)a.geti("maxins", thorough ? 5 : 4);
  hb.max_rem = (int)a.geti("maxrem", thorough ? 2 : 1);
  hb.empty_remove = false;
  std::vector<int> primes = vf::parse_ints(a.get("primes", thorough ? "2,3,5" : "2,3"));
  std::vector<int> modes = vf::parse_ints(a.get("modes", thorough ? "00,21,11,41" : "00,21"));
  // target family: empty, one vertex, an edge, a longer history (the whole triangle, one removal where possible)
  auto cell = [&](const char* name) {
    for (size_t i = 0; i < U.cells.size(); ++i) if (U.cells[i].name == name) return (int)i;
    fprintf(stderr, "no cell %s\n", name);
    exit(2);
  };
  const int v0 = cell("[0]"), v1 = cell("[1]"), v2 = cell("[2]"), e01 = cell("[0 1]"), e02 = cell("[0 2]"), e12 = cell("[1 2]"),
            f012 = cell("[0 1 2]");
  std::vector<std::vector<int>> targets_all = {{}, {v0}, {v0, v1, e01}, {v0, v1, v2, e01, e02, e12, f012}};
  const std::vector<int> long_with_removal = {v0, v1, v2, e01, e02, e12, OP_REMOVE, e12, f012};
  std::string tsel = a.get("targets", thorough ? "0,1,2,3" : "0,2,3");
  std::vector<std::vector<int>> targets;
  for (int i : vf::parse_ints(tsel)) targets.push_back(targets_all[i]);

  for (int p : primes) {
    long long raw = 0;
    auto H = enumerate_histories(U, hb, p, &raw);
    vf::stats().add("source_histories", (long long)H.size());
    std::vector<HistInfo> info;
    for (auto& h : H) info.push_back(hist_info(h));
    for_each_config(Group{}, [&](auto tag) {
      using O = typename decltype(tag)::type;
      if (O::is_z2 && p != 2) return;
      if (!O::is_z2 && p == 2 && !thorough) return;  // quick: Z_p option sets run with p = 3 only
      C15<O> c;
      c.U = &U;
      c.p = p;
      c.revive_state.ops = {0, 1};
      vf::stats().distinct("configs", c.V.cfg);
      for (int mc : modes) {
        c.idm = mc / 10;
        c.ctor = mc % 10;
        // source states
        std::vector<StateSpec> As;
        for (size_t i = 0; i < H.size(); ++i) {
          if ((int)(i % (size_t)a.nshards) != a.shard) continue;
          if (info[i].removes > 0 && !Exec<O>::CAN_REMOVE) continue;
          if (c.idm == 0 && info[i].insert_after_remove) continue;
          StateSpec s;
          s.ops = H[i];
          As.push_back(s);
          if (O::flavour == F_BOUNDARY) { s.reduced = true; As.push_back(s); }
        }
        // target states
        std::vector<StateSpec> Bs;
        for (auto& t : targets) {
          StateSpec s;
          s.ops = t;
          if (Exec<O>::CAN_REMOVE && t.size() >= 7 && c.idm != 0) s.ops = long_with_removal;
          if (O::flavour == F_BOUNDARY && t.size() >= 7) s.reduced = true;
          Bs.push_back(s);
        }
        std::vector<CaseRef> cases;
        for (size_t ia = 0; ia < As.size(); ++ia)
          for (int k = 0; k < NKINDS; ++k) {
            if (kind_uses_target(k)) { for (size_t ib = 0; ib < Bs.size(); ++ib) cases.push_back({ia, ib, k}); }
            else cases.push_back({ia, 0, k});
          }
        if (cases.size() > 2) vf::stats().sample(c.case_str(As[cases[cases.size() / 2].a], Bs[cases[cases.size() / 2].b], cases[cases.size() / 2].k), 8);
        size_t left = run_isolated(
            cases.size(),
            [&](size_t i) {
              if (vf::now_s() - t0 > budget) return false;
              c.run_case(As[cases[i].a], Bs[cases[i].b], cases[i].k);
              return true;
            },
            [&](size_t i) { return c.case_str(As[cases[i].a], Bs[cases[i].b], cases[i].k); },
            [&](const std::string& ph, const std::string& kind) { return c.crash_class(cases[g_sh->cur].k, ph, kind); }, EV_TRACES);
        if (left) {
          vf::stats().add("cases_not_executed_after_repeated_deaths", (long long)left);
          vf::stats().add("blocks_abandoned_after_repeated_deaths");
          g_sh->incomplete = 1;
        }
      }
    });
  }
  finish();
  return 0;
}
