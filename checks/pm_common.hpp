// Shared by C05 (matrix flavours: barcode + defining identities) and C08 (representative cycles):
// option struct covering every PersistenceMatrixOptions field, cell universes, history enumeration
// ({insert_boundary(cell), remove_last}), the reference model of a history, dense Z_p helpers, and an executor that
// drives the real Gudhi::persistence_matrix::Matrix<Options> and reads its columns back.
// No GUDHI code is used on the oracle side (ref::persistence, ref::rank_mod_p and the helpers below).
#ifndef VF_PM_COMMON_HPP
#define VF_PM_COMMON_HPP

#include "harness.hpp"
#include "ref_complex.hpp"

#include <gudhi/Matrix.h>
#include <gudhi/persistence_matrix_options.h>
#include <gudhi/Fields/Zp_field_operators.h>

#include <functional>
#include <sys/mman.h>
#include <sys/wait.h>
#include <memory>
#include <unordered_set>

namespace pmc {

using Gudhi::persistence_matrix::Column_types;
using CI = Gudhi::persistence_matrix::Column_indexation_types;
using Gudhi::persistence_matrix::Matrix;
using ZpOps = Gudhi::persistence_fields::Zp_field_operators<>;

// name of the API call being executed (read by the crash / exception reporting of the checks)
inline const char* g_phase = "";
inline void (*g_phase_sink)(const char*) = nullptr;
inline void phase(const char* p) {
  g_phase = p;
  if (g_phase_sink) g_phase_sink(p);
}

constexpr int F_BOUNDARY = 0;  // boundary type, only R stored (reduced when the barcode is asked)
constexpr int F_RU = 1;        // boundary type, R and U stored
constexpr int F_CHAIN = 2;     // compatible chain basis

// RA: 0 no row access, 1 intrusive rows, 2 set rows
template <bool Z2_, Column_types CT_, int FL_, CI IDX_, int RA_, bool REMROW_, bool MAPCOL_, bool VINE_, bool REP_,
          bool DIM_, bool PAIR_, bool REMCOL_, bool SWAPS_>
struct Opt {
  using Field_coeff_operators = ZpOps;
  using Index = unsigned int;
  using Dimension = int;

  static const bool is_z2 = Z2_;
  static const Column_types column_type = CT_;
  static const CI column_indexation_type = IDX_;

  static const bool has_column_compression = false;
  static const bool has_column_and_row_swaps = SWAPS_;

  static const bool has_map_column_container = MAPCOL_;
  static const bool has_removable_columns = REMCOL_;

  static const bool has_row_access = RA_ != 0;
  static const bool has_intrusive_rows = RA_ == 1;
  static const bool has_removable_rows = REMROW_;

  static const bool is_of_boundary_type = FL_ != F_CHAIN;

  static const bool has_matrix_maximal_dimension_access = DIM_;
  static const bool has_column_pairings = PAIR_;
  static const bool has_vine_update = VINE_;
  static const bool can_retrieve_representative_cycles = REP_;

  // not read by GUDHI
  static constexpr int flavour = FL_;
  static constexpr int ra = RA_;
  static_assert(FL_ != F_BOUNDARY || (PAIR_ && !VINE_ && !REP_), "R-only boundary matrix = pairing without vine/rep");
  static_assert(FL_ != F_RU || VINE_ || REP_, "RU needs vine or rep");
  static_assert(FL_ != F_CHAIN || PAIR_ || VINE_ || REP_, "chain needs pairing, vine or rep");
};

inline const char* ct_name(Column_types c) {
  switch (c) {
    case Column_types::LIST: return "LIST";
    case Column_types::SET: return "SET";
    case Column_types::HEAP: return "HEAP";
    case Column_types::VECTOR: return "VECTOR";
    case Column_types::NAIVE_VECTOR: return "NAIVE_VECTOR";
    case Column_types::SMALL_VECTOR: return "SMALL_VECTOR";
    case Column_types::UNORDERED_SET: return "UNORDERED_SET";
    case Column_types::INTRUSIVE_LIST: return "INTRUSIVE_LIST";
    case Column_types::INTRUSIVE_SET: return "INTRUSIVE_SET";
  }
  return "?";
}
inline const char* fl_name(int f) { return f == F_BOUNDARY ? "boundary" : f == F_RU ? "ru" : "chain"; }
inline const char* idx_name(CI i) { return i == CI::CONTAINER ? "CONT" : i == CI::POSITION ? "POS" : "ID"; }

template <class O>
std::string opt_name() {
  std::ostringstream o;
  o << fl_name(O::flavour) << "." << (O::is_z2 ? "z2" : "zp") << "." << ct_name(O::column_type) << "."
    << idx_name(O::column_indexation_type) << ".ra" << O::ra << (O::has_removable_rows ? "r" : "") << ".map"
    << O::has_map_column_container << ".v" << O::has_vine_update << "r" << O::can_retrieve_representative_cycles << "d"
    << O::has_matrix_maximal_dimension_access << "p" << O::has_column_pairings << "c" << O::has_removable_columns << "s"
    << O::has_column_and_row_swaps;
  return o.str();
}

template <class... Os>
struct List {};

// -------------------------------------------------------------------------------------------------------------------
// cell universes (integer boundaries; d o d = 0 over Z)
// -------------------------------------------------------------------------------------------------------------------
struct UCell {
  int dim;
  std::vector<std::pair<int, int>> bd;  // (universe cell, integer coefficient != 0), sorted by universe cell
  std::string name;
};
struct Universe {
  std::string name;
  bool pass_dim = true;  // false: simplicial, the dimension argument is omitted (deduced from the boundary size)
  std::vector<UCell> cells;
};

inline Universe simplex_universe(const std::string& name, int nv) {
  Universe u;
  u.name = name;
  u.pass_dim = false;
  std::vector<ref::Simplex> all;
  for (unsigned m = 1; m < (1u << nv); ++m) {
    ref::Simplex s;
    for (int i = 0; i < nv; ++i) if (m >> i & 1) s.push_back(i);
    all.push_back(s);
  }
  std::sort(all.begin(), all.end(), [](const ref::Simplex& a, const ref::Simplex& b) {
    return a.size() != b.size() ? a.size() < b.size() : a < b;
  });
  std::map<ref::Simplex, int> idx;
  for (size_t i = 0; i < all.size(); ++i) idx[all[i]] = (int)i;
  for (auto& s : all) {
    UCell c;
    c.dim = (int)s.size() - 1;
    c.name = ref::str(s);
    auto fs = ref::facets_of(s);
    for (size_t i = 0; i < fs.size(); ++i) c.bd.push_back({idx.at(fs[i]), (i % 2 == 0) ? 1 : -1});
    std::sort(c.bd.begin(), c.bd.end());
    u.cells.push_back(c);
  }
  return u;
}

inline Universe make_universe(const std::string& name) {
  if (name == "tet") return simplex_universe("tet", 4);
  if (name == "tri") return simplex_universe("tri", 3);
  Universe u;
  u.name = name;
  auto add = [&](int dim, std::vector<std::pair<int, int>> bd, const std::string& nm) {
    std::sort(bd.begin(), bd.end());
    u.cells.push_back({dim, bd, nm});
    return (int)u.cells.size() - 1;
  };
  if (name == "square") {  // 4 vertices, 4 edges, one 2-cell with four boundary edges
    int v[4];
    for (int i = 0; i < 4; ++i) v[i] = add(0, {}, "v" + std::to_string(i));
    int e01 = add(1, {{v[0], -1}, {v[1], 1}}, "e01");
    int e12 = add(1, {{v[1], -1}, {v[2], 1}}, "e12");
    int e23 = add(1, {{v[2], -1}, {v[3], 1}}, "e23");
    int e03 = add(1, {{v[0], -1}, {v[3], 1}}, "e03");
    add(2, {{e01, 1}, {e12, 1}, {e23, 1}, {e03, -1}}, "Q");
    return u;
  }
  if (name == "strip") {  // 2 x 1 cubical strip: 6 vertices, 7 edges, 2 squares
    int v[3][2];
    for (int x = 0; x < 3; ++x) for (int y = 0; y < 2; ++y) v[x][y] = add(0, {}, "v" + std::to_string(x) + std::to_string(y));
    int h[2][2], w[3];
    for (int x = 0; x < 2; ++x) for (int y = 0; y < 2; ++y)
      h[x][y] = add(1, {{v[x][y], -1}, {v[x + 1][y], 1}}, "h" + std::to_string(x) + std::to_string(y));
    for (int x = 0; x < 3; ++x) w[x] = add(1, {{v[x][0], -1}, {v[x][1], 1}}, "w" + std::to_string(x));
    for (int x = 0; x < 2; ++x) add(2, {{h[x][0], 1}, {w[x + 1], 1}, {h[x][1], -1}, {w[x], -1}}, "Q" + std::to_string(x));
    return u;
  }
  if (name == "cw") {  // CW complex with one vertex, loops, discs glued with degrees != +-1, one 3-cell (Z_p: non-unit pivots)
    add(0, {}, "v");
    int a = add(1, {}, "a");
    int b = add(1, {}, "b");
    int d1 = add(2, {{a, 2}}, "D1");
    int d2 = add(2, {{a, 1}, {b, 1}}, "D2");
    int d3 = add(2, {{a, 1}, {b, -2}}, "D3");
    add(3, {{d1, -3}, {d2, 4}, {d3, 2}}, "E");
    return u;
  }
  fprintf(stderr, "unknown universe %s\n", name.c_str());
  exit(2);
}

inline int modp(long long x, int p) { return (int)(((x % p) + p) % p); }

// -------------------------------------------------------------------------------------------------------------------
// histories: op >= 0 inserts that universe cell (all its faces present, cell absent); op == -1 is remove_last
// -------------------------------------------------------------------------------------------------------------------
constexpr int OP_REMOVE = -1;

struct HistoryBounds {
  int max_ins = 6;        // number of insert operations in a history
  int max_rem = 2;        // number of remove_last operations in a history
  bool empty_remove = false;  // also generate remove_last on an empty matrix
};

// all histories within the bounds, then reduced to distinct API-call sequences for the field Z_p (cells are anonymous
// for the matrix: two histories whose calls have identical (dimension, boundary positions, coefficients) are the same input)
inline std::vector<std::vector<int>> enumerate_histories(const Universe& U, const HistoryBounds& hb, int p,
                                                         long long* raw_count = nullptr) {
  std::vector<std::vector<int>> out;
  std::unordered_set<std::string> seen;
  std::vector<int> cur, hist;
  std::vector<int> posof(U.cells.size(), -1);
  std::vector<std::string> sig;  // signature pieces per op
  long long raw = 0;
  std::function<void(int, int)> rec = [&](int ins, int rem) {
    ++raw;
    std::string s;
    for (auto& x : sig) s += x;
    if (seen.insert(s).second) out.push_back(hist);
    if (ins < hb.max_ins) {
      for (size_t c = 0; c < U.cells.size(); ++c) {
        if (posof[c] >= 0) continue;
        bool ok = true;
        for (auto& e : U.cells[c].bd) if (posof[e.first] < 0) { ok = false; break; }
        if (!ok) continue;
        std::ostringstream o;
        o << "I" << U.cells[c].dim << ":";
        std::vector<std::pair<int, int>> b;
        for (auto& e : U.cells[c].bd) if (modp(e.second, p)) b.push_back({posof[e.first], modp(e.second, p)});
        std::sort(b.begin(), b.end());
        for (auto& e : b) o << e.first << "*" << e.second << ",";
        o << ";";
        posof[c] = (int)cur.size();
        cur.push_back((int)c);
        hist.push_back((int)c);
        sig.push_back(o.str());
        rec(ins + 1, rem);
        sig.pop_back();
        hist.pop_back();
        cur.pop_back();
        posof[c] = -1;
      }
    }
    if (rem < hb.max_rem && (!cur.empty() || hb.empty_remove)) {
      int last = cur.empty() ? -1 : cur.back();
      if (last >= 0) { cur.pop_back(); posof[last] = -1; }
      hist.push_back(OP_REMOVE);
      sig.push_back("R;");
      rec(ins, rem + 1);
      sig.pop_back();
      hist.pop_back();
      if (last >= 0) { posof[last] = (int)cur.size(); cur.push_back(last); }
    }
  };
  rec(0, 0);
  if (raw_count) *raw_count = raw;
  return out;
}

struct HistInfo {
  int inserts = 0, removes = 0;
  bool empty_remove = false;         // some remove_last is applied to an empty matrix
  bool insert_after_remove = false;  // some insertion follows a removal
};
inline HistInfo hist_info(const std::vector<int>& ops) {
  HistInfo h;
  int n = 0;
  for (int c : ops) {
    if (c == OP_REMOVE) {
      ++h.removes;
      if (n == 0) h.empty_remove = true; else --n;
    } else {
      ++h.inserts;
      ++n;
      if (h.removes) h.insert_after_remove = true;
    }
  }
  return h;
}

inline std::string ops_text(const Universe& U, const std::vector<int>& ops) {
  std::ostringstream o;
  for (int c : ops) {
    if (c == OP_REMOVE) o << "remove_last ";
    else o << "ins " << U.cells[c].name << " ";
  }
  return o.str();
}

// -------------------------------------------------------------------------------------------------------------------
// dense Z_p helpers (vectors indexed by position)
// -------------------------------------------------------------------------------------------------------------------
using Vec = std::vector<int>;

inline bool is_zero(const Vec& v) {
  for (int x : v) if (x) return false;
  return true;
}
inline int low_of(const Vec& v) {
  for (int i = (int)v.size() - 1; i >= 0; --i) if (v[i]) return i;
  return -1;
}
inline void axpy(Vec& y, int a, const Vec& x, int p) {  // y += a x
  for (size_t i = 0; i < y.size(); ++i) y[i] = modp(y[i] + (long long)a * x[i], p);
}
inline bool in_span(const std::vector<Vec>& gens, const Vec& v, int p) {
  if (is_zero(v)) return true;
  if (gens.empty()) return false;
  std::vector<Vec> m = gens;
  int r0 = ref::rank_mod_p(m, p);
  m.push_back(v);
  return ref::rank_mod_p(m, p) == r0;
}
inline std::string vstr(const Vec& v) {
  std::ostringstream o;
  o << "(";
  for (size_t i = 0; i < v.size(); ++i) o << (i ? " " : "") << v[i];
  o << ")";
  return o.str();
}

// -------------------------------------------------------------------------------------------------------------------
// reference model of a history + executor of the same history on the real matrix
// -------------------------------------------------------------------------------------------------------------------
// idmode 0: insert_boundary(boundary[,dim])           faces named by their position (documented for this overload)
// idmode 1: insert_boundary(2*pos, boundary[,dim])     explicit IDs, reused after a removal, first ID is 0
// idmode 2: insert_boundary(3*count+2, ...)            explicit fresh IDs (count = insertions so far), never reused
// idmode 3: insert_boundary(pos, boundary[,dim])       explicit IDs equal to the default ones
// idmode 4: insert_boundary(top ID + step, ...)          explicit IDs, step 5 before the first removal, then 2 / 3 alternating with
//                                                       the position: a removed ID can come back at another position (0,5 -> 0,2,5)
struct Model {
  const Universe* U = nullptr;
  int p = 2;
  int idmode = 0;
  std::vector<int> cur;        // universe cell at each position
  std::vector<unsigned> ids;   // ID at each position
  unsigned counter = 0;        // insertions so far
  unsigned removals = 0;       // removals (of an existing cell) so far
  unsigned id_hi = 0;          // 1 + largest ID ever used

  int n() const { return (int)cur.size(); }
  unsigned next_id() const {
    switch (idmode) {
      case 1: return 2u * (unsigned)cur.size();
      case 2: return 3u * counter + 2u;
      case 4: return cur.empty() ? 0u : ids.back() + (removals == 0 ? 5u : (cur.size() % 2 ? 2u : 3u));
      default: return (unsigned)cur.size();
    }
  }
  int pos_of_cell(int c) const {
    for (size_t i = 0; i < cur.size(); ++i) if (cur[i] == c) return (int)i;
    return -1;
  }
  int pos_of_id(unsigned id) const {
    for (size_t i = 0; i < ids.size(); ++i) if (ids[i] == id) return (int)i;
    return -1;
  }
  // boundary of universe cell c as (position, coefficient in 1..p-1), sorted by position
  std::vector<std::pair<int, int>> boundary_positions(int c) const {
    std::vector<std::pair<int, int>> b;
    for (auto& e : U->cells[c].bd) {
      int v = modp(e.second, p);
      if (v) b.push_back({pos_of_cell(e.first), v});
    }
    std::sort(b.begin(), b.end());
    return b;
  }
  void insert(int c) {
    unsigned id = next_id();
    cur.push_back(c);
    ids.push_back(id);
    ++counter;
    id_hi = std::max(id_hi, id + 1);
  }
  void remove_last() {
    if (cur.empty()) return;
    cur.pop_back();
    ids.pop_back();
    ++removals;
  }
  int dim(int pos) const { return U->cells[cur[pos]].dim; }
  int max_dim() const {
    int d = -1;
    for (int i = 0; i < n(); ++i) d = std::max(d, dim(i));
    return d;
  }
  std::vector<ref::Cell> ref_cells(int upto = -1) const {
    if (upto < 0) upto = n();
    std::vector<ref::Cell> r;
    for (int i = 0; i < upto; ++i) {
      ref::Cell c;
      c.dim = dim(i);
      c.bd = boundary_positions(cur[i]);
      r.push_back(c);
    }
    return r;
  }
  // dense boundary matrix by position: B[j] = boundary of the cell at position j
  std::vector<Vec> boundary_matrix() const {
    std::vector<Vec> B(n(), Vec(n(), 0));
    for (int j = 0; j < n(); ++j) for (auto& e : boundary_positions(cur[j])) B[j][e.first] = e.second;
    return B;
  }
  Vec boundary_of(const Vec& chain) const {  // chain indexed by position
    Vec r(n(), 0);
    for (int j = 0; j < n(); ++j) {
      if (!chain[j]) continue;
      for (auto& e : boundary_positions(cur[j])) r[e.first] = modp(r[e.first] + (long long)chain[j] * e.second, p);
    }
    return r;
  }
};

struct ColRead {
  Vec v;             // by position
  bool ok = true;    // false: an entry sits on a row that is not the ID/position of a current cell
  std::string bad;
};

template <class O>
struct Exec {
  using M = Matrix<O>;
  using Index = unsigned int;
  static constexpr Index NUL = (Index)-1;
  static constexpr bool ID_IDX = O::column_indexation_type == CI::IDENTIFIER;
  static constexpr bool POS_IDX = O::column_indexation_type == CI::POSITION;
  static constexpr bool HAS_OVERLAY =
      (O::flavour != F_CHAIN && ID_IDX) || (O::flavour == F_CHAIN && O::column_indexation_type != CI::CONTAINER);
  static constexpr bool CAN_REMOVE = O::has_removable_columns && (O::flavour != F_CHAIN || O::has_map_column_container ||
                                                                  !O::has_vine_update);

  Model mod;
  std::unique_ptr<M> m;
  int ctor = 0;
  long long calls = 0;

  Exec(const Universe& U, int p, int idmode, int ctor_) : ctor(ctor_) {
    mod.U = &U;
    mod.p = p;
    mod.idmode = idmode;
    phase("constructor");
    if (ctor == 0) {
      m.reset(new M());
      if constexpr (!O::is_z2) {
        // documented use (default constructor, then set_characteristic); the call prints a spurious "already
        // initialised" warning on std::cerr for every matrix, which is muted here to keep the logs small
        std::cerr.setstate(std::ios_base::failbit);
        m->set_characteristic((unsigned)p);
        std::cerr.clear();
      }
    } else {
      if constexpr (O::is_z2) m.reset(new M(5u));
      else m.reset(new M(5u, (unsigned)p));
    }
    ++calls;
  }

  auto& under() {
    if constexpr (HAS_OVERLAY) return m->matrix_.matrix_;
    else return m->matrix_;
  }

  void insert(int c) {
    phase("insert_boundary");
    auto bp = mod.boundary_positions(c);
    unsigned id = mod.next_id();
    int dim = mod.U->cells[c].dim;
    auto call = [&](const auto& bd) {
      if (mod.idmode == 0) {
        if (mod.U->pass_dim) m->insert_boundary(bd, dim);
        else m->insert_boundary(bd);
      } else {
        if (mod.U->pass_dim) m->insert_boundary(id, bd, dim);
        else m->insert_boundary(id, bd);
      }
    };
    if constexpr (O::is_z2) {
      std::vector<unsigned> bd;
      for (auto& e : bp) bd.push_back(mod.ids[e.first]);
      call(bd);
    } else {
      std::vector<std::pair<unsigned, unsigned>> bd;
      for (auto& e : bp) bd.push_back({mod.ids[e.first], (unsigned)e.second});
      call(bd);
    }
    mod.insert(c);
    ++calls;
  }
  void remove_last() {
    if constexpr (CAN_REMOVE) {
      phase("remove_last");
      m->remove_last();
      mod.remove_last();
      ++calls;
    }
  }
  void apply(int op) {
    if (op == OP_REMOVE) remove_last();
    else insert(op);
  }

  // facade index of the column of the cell at a position
  Index index_of(int pos) {
    if constexpr (ID_IDX) return mod.ids[pos];
    else if constexpr (O::flavour == F_CHAIN && !POS_IDX) return m->get_column_with_pivot(mod.ids[pos]);
    else return (Index)pos;
  }

  template <class Column>
  ColRead read_by_id(const Column& col) {  // rows are cell IDs
    ColRead r;
    r.v.assign(mod.n(), 0);
    unsigned N = mod.id_hi + 2;
    auto content = col.get_content((int)N);
    for (unsigned row = 0; row < content.size(); ++row) {
      int val = (int)content[row];
      if (!val) continue;
      int pos = mod.pos_of_id(row);
      if (pos < 0) { r.ok = false; r.bad += " row" + std::to_string(row) + "=" + std::to_string(val); continue; }
      r.v[pos] = val;
    }
    return r;
  }
  template <class Column>
  ColRead read_by_pos(const Column& col) {  // rows are positions (the second factor of an RU matrix)
    ColRead r;
    r.v.assign(mod.n(), 0);
    unsigned N = mod.counter + 2;
    auto content = col.get_content((int)N);
    for (unsigned row = 0; row < content.size(); ++row) {
      int val = (int)content[row];
      if (!val) continue;
      if ((int)row >= mod.n()) { r.ok = false; r.bad += " row" + std::to_string(row) + "=" + std::to_string(val); continue; }
      r.v[row] = val;
    }
    return r;
  }

  std::vector<ref::Pair> barcode() {
    std::vector<ref::Pair> r;
    phase("get_current_barcode");
    const auto& bc = m->get_current_barcode();
    ++calls;
    for (const auto& bar : bc) {
      ref::Pair q;
      q.dim = bar.dim;
      q.birth = (int)bar.birth;
      q.death = bar.death == NUL ? -1 : (int)bar.death;
      r.push_back(q);
    }
    std::sort(r.begin(), r.end());
    return r;
  }
};

inline std::string pairs_str(const std::vector<ref::Pair>& v) {
  std::ostringstream o;
  for (auto& q : v) o << "(" << q.dim << "," << q.birth << "," << q.death << ")";
  return o.str();
}

// a case string: cfg=<opt name>;u=<universe>;p=<prime>;idm=<idmode>;ctor=<0|1>;ops=<comma separated>
inline std::string case_string(const std::string& cfg, const Universe& U, int p, int idm, int ctor,
                               const std::vector<int>& ops) {
  std::ostringstream o;
  o << "cfg=" << cfg << ";u=" << U.name << ";p=" << p << ";idm=" << idm << ";ctor=" << ctor << ";ops=" << vf::join(ops)
    << ";text=" << ops_text(U, ops);
  return o.str();
}
inline std::vector<int> parse_ops(const std::string& s) {
  std::vector<int> r;
  std::string cur;
  for (char ch : s + ",") {
    if (ch == ',') { if (!cur.empty()) r.push_back(atoi(cur.c_str())); cur.clear(); }
    else cur += ch;
  }
  return r;
}


// -------------------------------------------------------------------------------------------------------------------
// isolation: a block of cases runs in a forked child; counters live in shared memory so that they survive a death of
// the child (sanitizer report, signal, watchdog).  A death is reported by the parent as a mismatch whose class names
// the flavour, the indexation and the API call that was executing, and the enumeration resumes after that case.
// -------------------------------------------------------------------------------------------------------------------
struct Shared {
  volatile long long cur;
  volatile int sig;
  volatile int incomplete;
  char phase[48];
  long long c[64];
  struct { unsigned long long h; long long n; } cls[256];
};
inline Shared* g_sh = nullptr;

inline void shared_init() {
  void* mem = mmap(nullptr, sizeof(Shared), PROT_READ | PROT_WRITE, MAP_SHARED | MAP_ANONYMOUS, -1, 0);
  if (mem == MAP_FAILED) { perror("mmap"); exit(2); }
  g_sh = (Shared*)mem;
  memset((void*)g_sh, 0, sizeof(Shared));
  g_phase_sink = [](const char* p) {
    size_t i = 0;
    for (; p[i] && i + 1 < sizeof(g_sh->phase); ++i) g_sh->phase[i] = p[i];
    g_sh->phase[i] = 0;
  };
}
inline long long& cnt(int i) { return g_sh->c[i]; }

// at most `cap` MISMATCH lines per class over the whole process tree; every occurrence is counted
inline bool class_should_print(const std::string& cls, int cap = 5) {
  unsigned long long h = 1469598103934665603ull;
  for (unsigned char ch : cls) { h ^= ch; h *= 1099511628211ull; }
  if (!h) h = 1;  // same value as class_hash
  for (size_t k = 0; k < 256; ++k) {
    auto& e = g_sh->cls[(h + k) % 256];
    if (e.h == 0) e.h = h;
    if (e.h == h) return ++e.n <= cap;
  }
  return true;
}

inline unsigned long long class_hash(const std::string& cls) {
  unsigned long long h = 1469598103934665603ull;
  for (unsigned char ch : cls) { h ^= ch; h *= 1099511628211ull; }
  return h ? h : 1;
}
// occurrences of a class so far over the whole process tree
inline long long class_seen(const std::string& cls) {
  unsigned long long h = class_hash(cls);
  for (size_t k = 0; k < 256; ++k) {
    auto& e = g_sh->cls[(h + k) % 256];
    if (e.h == 0) return 0;
    if (e.h == h) return e.n;
  }
  return 0;
}
// histories that call remove_last on an empty matrix carry a class suffix, unless the same class already occurred on
// a history without such a call (then it is the same defect and keeps its plain class)
inline std::string with_suffix(const std::string& cls, const std::string& suffix) {
  if (suffix.empty() || class_seen(cls) > 0) return cls;
  return cls + suffix;
}

inline void child_signal(int s) {
  g_sh->sig = s;
  _exit(77);
}

// runs run(k) for k in [0,n) inside forked children; describe(k) gives the case string; crash_cls(phase, kind) the class
// After max_deaths deaths the rest of the block is abandoned (returned count, to be reported as incomplete): a
// death costs a fork and a sanitizer report, and configurations hit by a crash defect die on most histories.
template <class Run, class Describe, class CrashCls>
size_t run_isolated(size_t n, Run&& run, Describe&& describe, CrashCls&& crash_cls, int idx_traces, int max_deaths = 6) {
  size_t next = 0;
  int deaths = 0;
  while (next < n) {
    if (deaths >= max_deaths) return n - next;
    g_sh->cur = -1;
    g_sh->sig = 0;
    fflush(stdout);
    fflush(stderr);
    pid_t pid = fork();
    if (pid < 0) { perror("fork"); exit(2); }
    if (pid == 0) {
      vf::g_probe_child = true;  // the parent reports
      for (int s : {SIGSEGV, SIGABRT, SIGFPE, SIGBUS, SIGILL, SIGALRM, SIGPROF}) signal(s, child_signal);
      for (size_t k = next; k < n; ++k) {
        g_sh->cur = (long long)k;
        if (!run(k)) { g_sh->incomplete = 1; break; }
      }
      fflush(stdout);
      _exit(0);
    }
    int st = 0;
    waitpid(pid, &st, 0);
    if (WIFEXITED(st) && WEXITSTATUS(st) == 0) return 0;
    ++deaths;
    long long k = g_sh->cur;
    if (k < 0 || (size_t)k >= n) { fprintf(stderr, "engine: child died outside a case\n"); exit(2); }
    int sig = g_sh->sig;
    // one class for every kind of death but the watchdog: an out-of-bounds access shows up as a sanitizer abort or as a
    // plain signal depending on the memory layout, and the class has to be the same when the case is replayed alone
    const char* kind = (sig == SIGALRM || sig == SIGPROF) ? "timeout" : "died";
    const char* how = sig == SIGSEGV ? "SIGSEGV" : sig == SIGABRT ? "abort (sanitizer report)" : sig == SIGFPE ? "SIGFPE"
                      : sig == SIGBUS ? "SIGBUS" : sig == SIGILL ? "SIGILL" : (sig == SIGALRM || sig == SIGPROF) ? "watchdog" : "exit";
    std::string phase_now((const char*)g_sh->phase);
    std::string cls = crash_cls(phase_now, std::string(kind));
    vf::set_case(describe((size_t)k));
    cnt(idx_traces)++;
    if (class_should_print(cls))
      vf::mismatch(cls, "the process died (" + std::string(how) + ") inside " + phase_now +
                            " while executing this history; a sanitizer report, if any, is in the stderr log");
    else vf::stats().mismatches++;
    vf::end_case();
    next = (size_t)k + 1;
  }
  return 0;
}

}  // namespace pmc

#endif
