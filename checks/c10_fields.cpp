// C10 - Coefficient fields implement exact modular arithmetic.
// E2 bounded-exhaustive input enumeration on the real GUDHI coefficient classes against an integer oracle
// (checks/c10_common.hpp). One source, six build units selected with -DC10_PART=k:
//   1 run-time Z_p classes (Zp_field_operators<u32|u64>, Shared_Zp_field_element<u32|u64>), cohomology Field_Zp, Z_2 classes
//   2 compile-time Zp_field_element<p, u32|u64>
//   3 GMP multi-fields set at run time (Multi_field_operators, Shared_multi_field_element), cohomology Multi_field
//   4 small multi-fields set at run time (Multi_field_operators_with_small_characteristics, Shared_..._small<u32|u64>)
//   5 compile-time GMP Multi_field_element<a,b>
//   6 compile-time Multi_field_element_with_small_characteristics<a,b,u32|u64>
// A case is (family, characteristic, previous characteristic of that object/static state, section, first operand);
// everything below that (all second/third operands, all sub-products Q) is enumerated inside the case.
#include "c10_common.hpp"

#include <iostream>
#include <memory>

#ifndef C10_PART
#define C10_PART 1
#endif

using namespace c10;

struct Cfg {
  long t3, t2, tc, pmax;           // all triples up to t3, all pairs up to t2, full conversion interval up to tc, all primes up to pmax
  long m3, m2, mx;                 // multi-fields: all triples for P <= m3, all pairs for P <= m2, all x (partial inverse) for P <= mx
  std::vector<long> bigp;
  bool thorough;
};
static Cfg g_cfg;

struct Group { std::string fam, ch; };

static std::vector<Group> part_groups();
static std::vector<Case> group_cases(const Group& g, const std::string& prev);
static void exec_case(const Case& c);

static Case mk(const Group& g, const std::string& prev, const std::string& sec, long a = -1) {
  Case c; c.fam = g.fam; c.ch = g.ch; c.prev = prev; c.sec = sec; c.a = a; return c;
}

// sections of a Z_p group
static std::vector<Case> zp_cases(const Group& g, const std::string& prev) {
  std::vector<Case> r;
  if (g.ch == "refuse") { r.push_back(mk(g, prev, "refuse")); return r; }
  long p = atol(g.ch.c_str());
  r.push_back(mk(g, prev, "conv"));
  r.push_back(mk(g, prev, "bnd"));
  r.push_back(mk(g, prev, "inv"));
  if (p <= g_cfg.t3) for (long a = 0; a < p; ++a) r.push_back(mk(g, prev, "all3", a));
  else if (p <= g_cfg.t2) for (long a = 0; a < p; ++a) r.push_back(mk(g, prev, "all2", a));
  return r;
}

template <class I, class Fn>
static void must_refuse(Ctx<I>& cx, const char* obs, const std::string& what, bool should_refuse, Fn&& fn) {
  bool threw = false;
  std::string other;
  try { fn(); }
  catch (const std::invalid_argument&) { threw = true; }
  catch (const std::runtime_error&) { threw = true; }
  catch (const std::exception& e) { threw = true; other = e.what(); }
  ++tot().evals; ++tot().calls; ++tot().tuples;
  if (should_refuse) ++tot().nontrivial;
  if (threw != should_refuse)
    cx.fail(obs, should_refuse ? "not_refused" : "refused_valid", threw ? "exception " + other : "accepted",
            (should_refuse ? "refusal of " : "acceptance of ") + what);
}

static std::vector<long> refusal_candidates() {
  std::vector<long> v;
  for (long n = 0; n <= 1000; ++n) v.push_back(n);
  for (long n : {32761L, 46341L, 46343L, 46345L, 63001L, 65533L, 65534L, 65535L}) if (!is_prime(n)) v.push_back(n);
  return v;
}

// ---------------------------------------------------------------------------------------------------------------
// element-class sections shared by the run-time shared Z_p class and the compile-time Z_p class
// ---------------------------------------------------------------------------------------------------------------
template <class F, class U, bool HAS_INV>
static void zp_elem_sections(Ctx<i128>& cx, const Case& c, long p) {
  ElemTester<F, U, i128> t(cx);
  i128 P = p;
  if (c.sec == "conv") {
    bool full = p <= g_cfg.tc;
    std::vector<i128> As = {0, 1, P - 1};
    if (p == 2) As.pop_back();
    for (i128 A : As) {
      for (auto v : raw_values<int>(P, full)) t.template mixed<int>(A, v, "int");
      for (auto v : raw_values<unsigned int>(P, full)) t.template mixed<unsigned int>(A, v, "unsigned int");
      for (auto v : raw_values<long>(P, full)) t.template mixed<long>(A, v, "long");
      for (auto v : raw_values<unsigned long>(P, full)) t.template mixed<unsigned long>(A, v, "unsigned long");
      if (p <= 32767) for (auto v : raw_values<short>(P, full)) t.template mixed<short>(A, v, "short");
      if (p <= 127) for (auto v : raw_values<signed char>(P, full)) t.template mixed<signed char>(A, v, "signed char");
    }
    cx.ops(nullptr);
    cx.eq("get_characteristic", "-", F::get_characteristic(), P);
    F dflt;
    cx.eq("default_ctor", "-", dflt.get_value(), (i128)0);
    if constexpr (HAS_INV) {
      cx.eq("get_additive_identity", "-", F::get_additive_identity().get_value(), (i128)0);
      cx.eq("get_multiplicative_identity", "-", F::get_multiplicative_identity().get_value(), (i128)1);
      cx.eq("get_partial_multiplicative_identity", "-", F::get_partial_multiplicative_identity(35).get_value(), (i128)1);
    }
    if constexpr (!HAS_INV)  // non-default Unsigned_integer_type: these members do not compile (they name the default-type class)
      vf::stats().add("groups_without_get_inverse_identities_partial(not_compilable_for_non_default_integer_type)", 1);
    F seven(from_I<U>(fmod_((i128)7, P)));
    cx.eq("cast_unsigned_int", "-", (unsigned int)seven, fmod_((i128)7, P));
    { F m1(seven); F m2(std::move(m1)); cx.eq("move_ctor", "-", m2.get_value(), fmod_((i128)7, P)); }
    tot().calls += 8;
  } else if (c.sec == "all3" || c.sec == "all2") {
    i128 A = c.a;
    for (i128 B = 0; B < P; ++B) {
      t.binary(A, B, "reduced");
      if (c.sec == "all3") for (i128 C = 0; C < P; ++C) t.fused(A, B, C, "reduced");
    }
  } else if (c.sec == "bnd") {
    auto Bs = boundary_residues(P);
    for (auto& A : Bs) for (auto& B : Bs) {
      t.binary(A, B, "reduced");
      for (auto& C : Bs) t.fused(A, B, C, "reduced");
    }
  } else if (c.sec == "inv") {
    if constexpr (HAS_INV) {
      for (i128 X = 0; X < P; ++X) {
        t.field_inverse(X, "reduced");
        F fx(from_I<U>(X));
        auto pr = fx.get_partial_inverse(35);
        cx.eq("get_partial_inverse.second", "reduced", pr.second, (i128)35);
        if (X != 0) cx.eq("get_partial_inverse.first", "reduced", fmod_(To<i128>::of(pr.first.get_value()) * X, P), (i128)1);
        ++tot().calls;
      }
    }
  }
}

#if C10_PART == 1
// =================================================================================================================
#include <gudhi/Fields/Z2_field.h>
#include <gudhi/Fields/Z2_field_operators.h>
#include <gudhi/Fields/Zp_field_operators.h>
#include <gudhi/Fields/Zp_field_shared.h>
#include <gudhi/Persistent_cohomology/Field_Zp.h>

namespace pf = Gudhi::persistence_fields;

static const char* FAMS[] = {"zp_ops_u32", "zp_ops_u64", "zp_sh_u32", "zp_sh_u64", "coh_zp"};

static std::vector<Group> part_groups() {
  std::vector<Group> g;
  std::vector<long> ps = primes_in(2, g_cfg.pmax);
  for (long p : g_cfg.bigp) ps.push_back(p);
  for (long p : ps)
    for (const char* f : FAMS) {
      if (std::string(f) == "coh_zp" && p > 46337) continue;
      g.push_back({f, std::to_string(p)});
    }
  g.push_back({"z2_el", "2"});
  g.push_back({"z2_ops", "2"});
  for (const char* f : FAMS) g.push_back({f, "refuse"});
  return g;
}

static std::vector<Case> group_cases(const Group& g, const std::string& prev) {
  if (g.fam == "z2_el" || g.fam == "z2_ops") return {mk(g, prev, "all")};
  return zp_cases(g, prev);
}

// ---- Zp_field_operators<U> ---------------------------------------------------------------------------------------
template <class U>
struct ZpOpsFam {
  pf::Zp_field_operators<U> ops;
  std::string cur = "-";
  const char* label;
  explicit ZpOpsFam(const char* l) : label(l) {}
  void ensure(const std::string& prev, const std::string& ch) {
    if (cur == ch) return;
    if (cur != prev && prev != "-") ops.set_characteristic((U)atol(prev.c_str()));
    ops.set_characteristic((U)atol(ch.c_str()));
    cur = ch;
  }
  template <class Sg>
  void signed_values(Ctx<i128>& cx, i128 P, bool full, const char* name) {
    cx.rawtype = name;
    for (auto v : raw_values<Sg>(P, full)) {
      i128 V = v;
      cx.ops(&V);
      cx.eq("get_value(signed)", raw_regime(V, P), ops.template get_value<Sg>(v), fmod_(V, P));
      ++tot().calls; ++tot().tuples;
      if (V < 0 || V >= P) ++tot().nontrivial;
    }
    cx.rawtype = "";
  }
  void run(const Case& c) {
    Ctx<i128> cx;
    cx.fam = label;
    if (c.sec == "refuse") {
      cx.set_modulus(0, "refuse");
      for (long n : refusal_candidates()) {
        i128 N = n;
        cx.ops(&N);
        if ((i128)(U)n != N) continue;
        must_refuse(cx, "set_characteristic", std::to_string(n), !is_prime(n), [&] { pf::Zp_field_operators<U> o; o.set_characteristic((U)n); });
        if (n <= 200)
          must_refuse(cx, "ctor(characteristic)", std::to_string(n), n != 0 && !is_prime(n), [&] { pf::Zp_field_operators<U> o((U)n); });
      }
      return;
    }
    long p = atol(c.ch.c_str());
    i128 P = p;
    ensure(c.prev, c.ch);
    cx.set_modulus(P, c.ch);
    OpsTester<pf::Zp_field_operators<U>, U, i128> t(cx, ops, (i128)std::numeric_limits<U>::max());
    if (c.sec == "conv") {
      bool full = p <= g_cfg.tc;
      cx.rawtype = sizeof(U) == 4 ? "unsigned int" : "unsigned long";
      for (auto v : raw_values<U>(P, full)) { i128 V = v; t.value(V, raw_regime(V, P)); ++tot().tuples; if (V >= P) ++tot().nontrivial; }
      cx.rawtype = "";
      signed_values<int>(cx, P, full, "int");
      signed_values<long>(cx, P, full, "long");
      if (p <= 32767) signed_values<short>(cx, P, full, "short");
      if (p <= 127) signed_values<signed char>(cx, P, full, "signed char");
      cx.ops(nullptr);
      cx.eq("get_characteristic", "-", ops.get_characteristic(), P);
      cx.eq("get_additive_identity", "-", ops.get_additive_identity(), (i128)0);
      cx.eq("get_multiplicative_identity", "-", ops.get_multiplicative_identity(), (i128)1);
      cx.eq("get_partial_multiplicative_identity", "-", ops.get_partial_multiplicative_identity(35), (i128)1);
      // copies / assignment / swap / move keep the field (characteristic, addition, inverse table)
      i128 X = P - 1;
      cx.ops(&X);
      auto probe = [&](pf::Zp_field_operators<U>& o, const char* obs_c, const char* obs_a, const char* obs_i, i128 want_p) {
        cx.eq(obs_c, "-", o.get_characteristic(), want_p);
        if (want_p != P) return;
        cx.eq(obs_a, "reduced", o.add((U)X, (U)X), fmod_(X + X, P));
        i128 r = o.get_inverse((U)X);
        ++tot().evals; tot().calls += 3;
        if (fmod_(r * X, P) != 1) cx.fail(obs_i, "reduced", S(r), "x*r = 1 mod P");
      };
      {
        pf::Zp_field_operators<U> cp(ops);
        probe(cp, "copy.get_characteristic", "copy.add", "copy.get_inverse", P);
        pf::Zp_field_operators<U> as;
        as = ops;
        probe(as, "assign.get_characteristic", "assign.add", "assign.get_inverse", P);
        pf::Zp_field_operators<U> other(3), sw(ops);
        swap(other, sw);
        probe(other, "swap.get_characteristic", "swap.add", "swap.get_inverse", P);
        probe(sw, "swap.get_characteristic", "swap.add", "swap.get_inverse", 3);
        pf::Zp_field_operators<U> mv(std::move(other));
        probe(mv, "move.get_characteristic", "move.add", "move.get_inverse", P);
      }
    } else if (c.sec == "all3" || c.sec == "all2") {
      i128 A = c.a;
      for (i128 B = 0; B < P; ++B) {
        t.binary(A, B, "reduced");
        if (c.sec == "all3") for (i128 C = 0; C < P; ++C) t.fused(A, B, C, "reduced");
      }
    } else if (c.sec == "bnd") {
      auto Bs = boundary_residues(P);
      for (auto& A : Bs) for (auto& B : Bs) {
        t.binary(A, B, "reduced");
        for (auto& C : Bs) t.fused(A, B, C, "reduced");
      }
      // the two-operand methods document `(e1 op e2) % characteristic` for any element value: unreduced operands
      i128 M = (i128)std::numeric_limits<U>::max();
      std::vector<i128> Un = {P, P + 1, 2 * P - 1, 2 * P, 2 * P + 1, (i128)1 << 31, ((i128)1 << 31) - 1, M, M - 1, M / P * P, M / P * P - 1};
      for (auto& A : Un) {
        for (auto& B : Bs) { t.binary(A, B, "unreduced"); t.binary(B, A, "unreduced"); }
        for (auto& B : Un) t.binary(A, B, "unreduced");
        t.field_inverse(A, "unreduced");
      }
    } else if (c.sec == "inv") {
      for (i128 X = 0; X < P; ++X) {
        t.field_inverse(X, "reduced");
        auto pr = ops.get_partial_inverse((U)X, (U)35);
        cx.eq("get_partial_inverse.second", "reduced", pr.second, (i128)35);
        if (X != 0) cx.eq("get_partial_inverse.first", "reduced", fmod_((i128)pr.first * X, P), (i128)1);
        ++tot().calls;
      }
    }
  }
};

// ---- Shared_Zp_field_element<U> ----------------------------------------------------------------------------------
template <class U>
struct ZpSharedFam {
  using F = pf::Shared_Zp_field_element<U>;
  std::string cur = "-";
  const char* label;
  explicit ZpSharedFam(const char* l) : label(l) {}
  void ensure(const std::string& prev, const std::string& ch) {
    if (cur == ch) return;
    if (cur != prev && prev != "-") F::initialize((U)atol(prev.c_str()));
    F::initialize((U)atol(ch.c_str()));
    cur = ch;
  }
  void run(const Case& c) {
    Ctx<i128> cx;
    cx.fam = label;
    if (c.sec == "refuse") {
      cx.set_modulus(0, "refuse");
      for (long n : refusal_candidates()) {
        i128 N = n;
        cx.ops(&N);
        if ((i128)(U)n != N) continue;
        must_refuse(cx, "initialize", std::to_string(n), !is_prime(n), [&] { F::initialize((U)n); });
      }
      F::initialize(3);
      cur = "3";
      return;
    }
    ensure(c.prev, c.ch);
    long p = atol(c.ch.c_str());
    cx.set_modulus((i128)p, c.ch);
    zp_elem_sections<F, U, true>(cx, c, p);
  }
};

// ---- cohomology Field_Zp ------------------------------------------------------------------------------------------
struct CohZpFam {
  Gudhi::persistent_cohomology::Field_Zp f;
  std::string cur = "-";
  void ensure(const std::string& prev, const std::string& ch) {
    if (cur == ch) return;
    if (cur != prev && prev != "-") f.init(atoi(prev.c_str()));
    f.init(atoi(ch.c_str()));
    cur = ch;
  }
  void bin(Ctx<i128>& cx, i128 X, i128 Y) {
    i128 P = cx.P;
    cx.ops(&X, &Y);
    int x = (int)X, y = (int)Y;
    cx.eq("times", "reduced", f.times(x, y), fmod_(X * Y, P));
    cx.eq("plus_equal", "reduced", f.plus_equal(x, y), fmod_(X + Y, P));
    cx.eq("times_minus", "reduced", f.times_minus(x, y), fmod_(-X * Y, P));
    tot().calls += 3; ++tot().tuples;
    if (X + Y >= P || X * Y >= P) ++tot().nontrivial;
  }
  void tri(Ctx<i128>& cx, i128 X, i128 Y, i128 W) {
    cx.ops(&X, &Y, &W);
    cx.eq("plus_times_equal", "reduced", f.plus_times_equal((int)X, (int)Y, (int)W), fmod_(X + W * Y, cx.P));
    ++tot().calls; ++tot().tuples;
    if (X + W * Y >= cx.P) ++tot().nontrivial;
  }
  void run(const Case& c) {
    Ctx<i128> cx;
    cx.fam = "coh_Field_Zp";
    if (c.sec == "refuse") {
      cx.set_modulus(0, "refuse");
      std::vector<long> cand = refusal_candidates();
      for (long n : {-1L, -2L, -3L, -7L, -46337L, (long)INT_MIN, (long)INT_MAX, 46349L, 46351L, 65521L, 2147483629L}) cand.push_back(n);
      for (long n : cand) {
        i128 N = n;
        cx.ops(&N);
        bool ok = is_prime(n) && n <= 46337;
        must_refuse(cx, "init", std::to_string(n), !ok, [&] { Gudhi::persistent_cohomology::Field_Zp g; g.init((int)n); });
      }
      return;
    }
    ensure(c.prev, c.ch);
    long p = atol(c.ch.c_str());
    i128 P = p;
    cx.set_modulus(P, c.ch);
    if (c.sec == "conv") {
      cx.ops(nullptr);
      cx.eq("characteristic", "-", f.characteristic(), P);
      cx.eq("additive_identity", "-", f.additive_identity(), (i128)0);
      cx.eq("multiplicative_identity", "-", f.multiplicative_identity(), (i128)1);
      cx.eq("multiplicative_identity(Q)", "-", f.multiplicative_identity(35), (i128)1);
      tot().calls += 4;
    } else if (c.sec == "all3" || c.sec == "all2") {
      i128 A = c.a;
      for (i128 B = 0; B < P; ++B) {
        bin(cx, A, B);
        if (c.sec == "all3") for (i128 C = 0; C < P; ++C) tri(cx, A, B, C);
      }
    } else if (c.sec == "bnd") {
      auto Bs = boundary_residues(P);
      for (auto& A : Bs) for (auto& B : Bs) { bin(cx, A, B); for (auto& C : Bs) tri(cx, A, B, C); }
    } else if (c.sec == "inv") {
      for (i128 X = 1; X < P; ++X) {
        cx.ops(&X);
        auto pr = f.inverse((int)X, 35);
        ++tot().calls; ++tot().evals; ++tot().tuples; ++tot().nontrivial;
        i128 r = pr.first;
        if (r < 0 || r >= P || fmod_(r * X, P) != 1) cx.fail("inverse.first", "reduced", S(r), "x*r = 1 mod P, r in [0,P)");
        cx.eq("inverse.second", "reduced", pr.second, (i128)35);
        cx.eq("times(x,inverse(x))", "reduced", f.times((int)X, pr.first), (i128)1);
      }
    }
  }
};

// ---- Z_2 -----------------------------------------------------------------------------------------------------------
template <class E>
static void z2_ops_with(Ctx<i128>& cx, const char* tn) {
  pf::Z2_field_operators ops;
  OpsTester<pf::Z2_field_operators, E, i128> t(cx, ops);
  cx.rawtype = tn;
  std::vector<i128> vals;
  for (auto v : raw_values<E>(2, true)) vals.push_back((i128)v);
  for (auto& A : vals) {
    const char* ra = raw_regime(A, cx.P);
    t.value(A, ra);
    t.field_inverse(A, ra);
    {
      auto pr = ops.get_partial_inverse(from_I<E>(A), 35u);
      cx.ops(&A);
      cx.eq("get_partial_inverse.first", ra, pr.first, fmod_(A, (i128)2));
      cx.eq("get_partial_inverse.second", ra, pr.second, (i128)35);
    }
    for (auto& B : vals) {
      bool red = A < 2 && B < 2;
      t.binary(A, B, red ? "reduced" : "unreduced");
      for (auto& C : vals) t.fused(A, B, C, (red && C < 2) ? "reduced" : "unreduced");
    }
  }
  cx.rawtype = "";
}
template <class R>
static void z2_get_value(Ctx<i128>& cx, const char* tn) {
  cx.rawtype = tn;
  for (auto v : raw_values<R>(2, true)) {
    i128 V = v;
    cx.ops(&V);
    cx.eq("get_value", raw_regime(V, cx.P), pf::Z2_field_operators::get_value(v), fmod_(V, (i128)2));
    ++tot().calls; ++tot().tuples;
    if (V < 0 || V > 1) ++tot().nontrivial;
  }
  cx.rawtype = "";
}
static void run_z2(const Case& c) {
  Ctx<i128> cx;
  cx.set_modulus(2, "2");
  if (c.fam == "z2_ops") {
    cx.fam = "Z2_field_operators";
    z2_ops_with<unsigned int>(cx, "unsigned int");
    z2_ops_with<unsigned long>(cx, "unsigned long");
    z2_ops_with<unsigned short>(cx, "unsigned short");
    z2_ops_with<unsigned char>(cx, "unsigned char");
    z2_ops_with<bool>(cx, "bool");
    z2_get_value<int>(cx, "int");
    z2_get_value<long>(cx, "long");
    z2_get_value<short>(cx, "short");
    z2_get_value<signed char>(cx, "signed char");
    z2_get_value<long long>(cx, "long long");
    cx.ops(nullptr);
    cx.eq("get_characteristic", "-", pf::Z2_field_operators::get_characteristic(), (i128)2);
    cx.eq("get_additive_identity", "-", pf::Z2_field_operators::get_additive_identity(), (i128)0);
    cx.eq("get_multiplicative_identity", "-", pf::Z2_field_operators::get_multiplicative_identity(), (i128)1);
    cx.eq("get_partial_multiplicative_identity", "-", pf::Z2_field_operators::get_partial_multiplicative_identity(35), (i128)1);
  } else {
    cx.fam = "Z2_field_element";
    using F = pf::Z2_field_element;
    ElemTester<F, bool, i128> t(cx);
    for (i128 A = 0; A < 2; ++A) {
      t.field_inverse(A, "reduced");
      {
        F fa((bool)A);
        auto pr = fa.get_partial_inverse(35);
        cx.ops(&A);
        cx.eq("get_partial_inverse.first", "reduced", pr.first.get_value(), A);
        cx.eq("get_partial_inverse.second", "reduced", pr.second, (i128)35);
        cx.eq("cast_unsigned_int", "reduced", (unsigned int)fa, A);
      }
      for (i128 B = 0; B < 2; ++B) {
        t.binary(A, B, "reduced");
        for (i128 C = 0; C < 2; ++C) t.fused(A, B, C, "reduced");
      }
      for (auto v : raw_values<int>(2, true)) t.mixed<int>(A, v, "int");
      for (auto v : raw_values<unsigned int>(2, true)) t.mixed<unsigned int>(A, v, "unsigned int");
      for (auto v : raw_values<long>(2, true)) t.mixed<long>(A, v, "long");
      for (auto v : raw_values<unsigned long>(2, true)) t.mixed<unsigned long>(A, v, "unsigned long");
      for (auto v : raw_values<short>(2, true)) t.mixed<short>(A, v, "short");
      for (auto v : raw_values<signed char>(2, true)) t.mixed<signed char>(A, v, "signed char");
      for (auto v : raw_values<unsigned char>(2, true)) t.mixed<unsigned char>(A, v, "unsigned char");
      t.mixed<bool>(A, false, "bool");
      t.mixed<bool>(A, true, "bool");
    }
    cx.ops(nullptr);
    cx.eq("get_characteristic", "-", F::get_characteristic(), (i128)2);
    cx.eq("get_additive_identity", "-", F::get_additive_identity().get_value(), (i128)0);
    cx.eq("get_multiplicative_identity", "-", F::get_multiplicative_identity().get_value(), (i128)1);
    cx.eq("get_partial_multiplicative_identity", "-", F::get_partial_multiplicative_identity(35).get_value(), (i128)1);
    F d;
    cx.eq("default_ctor", "-", d.get_value(), (i128)0);
  }
}

static void exec_case(const Case& c) {
  static ZpOpsFam<u32> a32("Zp_field_operators");
  static ZpOpsFam<u64> a64("Zp_field_operators<u64>");
  static ZpSharedFam<u32> s32("Shared_Zp_field_element");
  static ZpSharedFam<u64> s64("Shared_Zp_field_element<u64>");
  static CohZpFam coh;
  if (c.fam == "zp_ops_u32") a32.run(c);
  else if (c.fam == "zp_ops_u64") a64.run(c);
  else if (c.fam == "zp_sh_u32") s32.run(c);
  else if (c.fam == "zp_sh_u64") s64.run(c);
  else if (c.fam == "coh_zp") coh.run(c);
  else if (c.fam == "z2_el" || c.fam == "z2_ops") run_z2(c);
  else { fprintf(stderr, "unknown family %s\n", c.fam.c_str()); exit(2); }
}
#endif  // part 1

#if C10_PART == 2
// =================================================================================================================
#include <gudhi/Fields/Zp_field.h>
namespace pf = Gudhi::persistence_fields;

#ifndef C10_CT_SET
#define C10_CT_SET 0
#endif
#if C10_CT_SET == 0
#define C10_CT_PRIMES(X) X(2) X(3) X(5) X(7) X(11) X(13) X(17) X(19) X(23) X(29) X(31)
#define C10_CT_PRIMES64(X) X(2) X(3) X(7)
#else
#define C10_CT_PRIMES(X) X(37) X(41) X(43) X(47) X(251) X(257) X(32749) X(32771) X(46337) X(65519) X(65521)
#define C10_CT_PRIMES64(X) X(251) X(65521)
#endif

static std::vector<Group> part_groups() {
  std::vector<Group> g;
#define X(p) g.push_back({"zp_ct_u32", #p});
  C10_CT_PRIMES(X)
#undef X
#define X(p) g.push_back({"zp_ct_u64", #p});
  C10_CT_PRIMES64(X)
#undef X
  return g;
}
static std::vector<Case> group_cases(const Group& g, const std::string& prev) { return zp_cases(g, prev); }

static void exec_case(const Case& c) {
  long p = atol(c.ch.c_str());
  Ctx<i128> cx;
  cx.set_modulus((i128)p, c.ch);
  bool done = false;
  if (c.fam == "zp_ct_u32") {
    cx.fam = "Zp_field_element";
#define X(q) if (p == q) { zp_elem_sections<pf::Zp_field_element<q, u32>, u32, true>(cx, c, p); done = true; }
    C10_CT_PRIMES(X)
#undef X
  } else if (c.fam == "zp_ct_u64") {
    cx.fam = "Zp_field_element<u64>";
#define X(q) if (p == q) { zp_elem_sections<pf::Zp_field_element<q, u64>, u64, false>(cx, c, p); done = true; }
    C10_CT_PRIMES64(X)
#undef X
  }
  if (!done) { fprintf(stderr, "characteristic %ld of family %s is not instantiated in this unit\n", p, c.fam.c_str()); exit(2); }
}
#endif  // part 2


// =================================================================================================================
// multi-field sections shared by parts 3-6
// =================================================================================================================
#if C10_PART >= 3
template <class I>
static std::vector<I> subproducts(const std::vector<long>& primes) {
  std::vector<I> r;
  size_t k = primes.size();
  if (k <= 6) {
    for (unsigned m = 0; m < (1u << k); ++m) {
      I q = 1;
      for (size_t i = 0; i < k; ++i) if (m >> i & 1) q *= primes[i];
      r.push_back(q);
    }
    return r;
  }
  auto sub = [&](const std::function<bool(size_t)>& in) { I q = 1; for (size_t i = 0; i < k; ++i) if (in(i)) q *= primes[i]; r.push_back(q); };
  sub([](size_t) { return false; });
  sub([](size_t) { return true; });
  for (size_t j : {(size_t)0, (size_t)1, k / 2, k - 2, k - 1}) {
    sub([j](size_t i) { return i == j; });
    sub([j](size_t i) { return i != j; });
  }
  sub([](size_t i) { return i % 2 == 0; });
  sub([](size_t i) { return i % 2 == 1; });
  sub([k](size_t i) { return i < k / 2; });
  sub([k](size_t i) { return i >= k / 2; });
  sub([](size_t i) { return i < 2; });
  return r;
}
template <class I>
static std::vector<I> selected_x(const std::vector<long>& primes, const I& P) {
  std::vector<I> c = boundary_residues(P);
  size_t k = primes.size();
  for (size_t j : {(size_t)0, (size_t)1, k / 2, k - 1}) {
    if (j >= k) continue;
    I q = primes[j];
    I cof = P / q;
    c.push_back(fmod_(q, P)); c.push_back(fmod_(cof, P)); c.push_back(fmod_(I(cof * 2), P)); c.push_back(fmod_(I(P - q), P));
    c.push_back(fmod_(I(q * q), P)); c.push_back(fmod_(I(q + 1), P)); c.push_back(fmod_(I(cof + 1), P));
  }
  I h = 1, e = 1;
  for (size_t i = 0; i < k; ++i) { if (i < k / 2) h *= primes[i]; if (i % 2 == 0) e *= primes[i]; }
  c.push_back(fmod_(h, P)); c.push_back(fmod_(e, P)); c.push_back(fmod_(I(P / (h == 0 ? I(1) : h)), P));
  c.push_back(fmod_(I(h * 3 + 0), P)); c.push_back(fmod_(I(e * 7), P));
  if (k >= 2) c.push_back(fmod_(I(I(primes[0]) * primes[1]), P));
  std::vector<I> r;
  for (auto& v : c) { bool dup = false; for (auto& w : r) if (w == v) dup = true; if (!dup) r.push_back(v); }
  return r;
}
template <class I>
static const char* regime2(const I& A, const I& B, const I& P) {
  if (A < 0 || B < 0) return "neg_operand";
  if (!(A < P) || !(B < P)) return "unreduced";
  return "reduced";
}

static const long PINV_BLOCK = 256;
static const long RERANGE_LIM = 2310;
static std::vector<std::string> small_ranges(long lim);
// the ranges [p,q] (p, q prime) with product <= lim: first and second range of the re-ranging histories
static std::vector<std::string> canonical_ranges(long lim) {
  std::vector<std::string> r;
  for (auto& s : small_ranges(lim)) { auto ab = parse_range(s); if (is_prime(ab.first) && is_prime(ab.second)) r.push_back(s); }
  return r;
}

static std::vector<Case> multi_cases(const Group& g, const std::string& prev, bool arithmetic = true) {
  std::vector<Case> r;
  if (g.ch == "refuse") { r.push_back(mk(g, prev, "refuse")); return r; }
  if (g.ch == "rerange") {
    long n = (long)canonical_ranges(RERANGE_LIM).size();
    for (long i = 0; i < n; ++i) r.push_back(mk(g, prev, "rerange", i));
    return r;
  }
  auto ab = parse_range(g.ch);
  std::vector<long> primes = primes_in(ab.first, ab.second);
  bool canonical = is_prime(ab.first) && is_prime(ab.second);
  // product as double to pick the sections
  long double Pd = 1;
  for (long q : primes) Pd *= q;
  r.push_back(mk(g, prev, "meta"));
  r.push_back(mk(g, prev, "bnd"));
  r.push_back(mk(g, prev, "pinvsel"));
  if (!canonical) return r;
  r.push_back(mk(g, prev, "conv"));
  if (Pd <= g_cfg.mx) { long P = (long)Pd; for (long b = 0; b * PINV_BLOCK < P; ++b) r.push_back(mk(g, prev, "pinv", b)); }
  if (arithmetic) {
    if (Pd <= g_cfg.m3) for (long a = 0; a < (long)Pd; ++a) r.push_back(mk(g, prev, "all3", a));
    else if (Pd <= g_cfg.m2) for (long a = 0; a < (long)Pd; ++a) r.push_back(mk(g, prev, "all2", a));
  }
  return r;
}

// every range [a,b], 0 <= a <= b <= 48, containing a prime and with product <= lim (canonical ones first)
static std::vector<std::string> small_ranges(long lim) {
  std::vector<std::string> can, non;
  for (long a = 0; a <= 48; ++a) for (long b = a; b <= 48; ++b) {
    auto ps = primes_in(a, b);
    if (ps.empty()) continue;
    long double P = 1;
    for (long q : ps) P *= q;
    if (P > lim) continue;
    std::string s = std::to_string(a) + "-" + std::to_string(b);
    bool canonical = is_prime(a) && is_prime(b);
    // non-canonical spellings of a prime set: keep those whose endpoints are adjacent to the extreme primes
    if (canonical) can.push_back(s);
    else if ((a == ps.front() || a == ps.front() - 1 || a == 0) && (b == ps.back() || b == ps.back() + 1)) non.push_back(s);
  }
  can.insert(can.end(), non.begin(), non.end());
  return can;
}

template <class Ad>
static void do_pinv(Ad& ad, Ctx<typename Ad::I>& cx, const std::vector<long>& primes, const typename Ad::I& x, const typename Ad::I& Q) {
  using I = typename Ad::I;
  cx.ops(&x, nullptr, nullptr, &Q);
  // Q = 1 (the empty product) is kept apart from the proper non-empty sub-products
  const char* rg = (Q == cx.P) ? "Q=P" : (Q == 1 ? "Q=1" : "1<Q<P");
  std::pair<I, I> pr;
  bool ok = true;
  if constexpr (Ad::GUARD) ok = guarded([&] { pr = ad.pinv(x, Q); });
  else pr = ad.pinv(x, Q);
  ++tot().calls; ++tot().tuples;
  if (!ok) { ++tot().evals; cx.fail("get_partial_inverse.SIGFPE", rg, "SIGFPE (integer division by zero)", "a pair (value,T)"); return; }
  check_partial_inverse(cx, "get_partial_inverse.T", "get_partial_inverse.value", rg, primes, x, Q, pr.first, pr.second);
  if (!(expected_T(primes, x, Q) == Q) || !(Q == cx.P)) ++tot().nontrivial;
}
template <class Ad>
static void do_inverse(Ad& ad, Ctx<typename Ad::I>& cx, const std::vector<long>& primes, const typename Ad::I& x) {
  using I = typename Ad::I;
  cx.ops(&x);
  I v;
  bool ok = true;
  if constexpr (Ad::GUARD) ok = guarded([&] { v = ad.inv(x); });
  else v = ad.inv(x);
  ++tot().calls; ++tot().tuples;
  if (!ok) { ++tot().evals; cx.fail("get_inverse.SIGFPE", "Q=P", "SIGFPE (integer division by zero)", "a value"); return; }
  // same contract with Q = P; T is not returned
  I T = expected_T(primes, x, cx.P);
  ++tot().evals;
  if (v < 0 || !(v < cx.P)) { cx.fail("get_inverse", "Q=P", S(v), "a residue in [0,P)"); return; }
  for (long q : primes) {
    long r = smod(v, q);
    bool inT = smod(T, q) == 0;
    if (inT ? (r * smod(x, q)) % q != 1 : r != 0) {
      cx.fail("get_inverse", "Q=P", S(v) + " (=" + std::to_string(r) + " mod " + std::to_string(q) + ")",
              inT ? "inverse of x modulo " + std::to_string(q) : "0 modulo " + std::to_string(q));
      return;
    }
  }
}

// ---------------------------------------------------------------------------------------------------------------
// re-ranging histories: ONE object (or the static state of a shared class) is given range A, asked a partial identity
// or a partial inverse for a sub-product Q, given range B, and the first request afterwards is for the same Q (a
// sub-product of both ranges). Every ordered pair (A,B) of the canonical small ranges, every common Q, every way of
// changing the range, both kinds of request before and after. The answers after the change are checked prime by prime
// against range B; nothing of range A may survive.
// ---------------------------------------------------------------------------------------------------------------
template <class I>
static std::vector<long> common_primes(const std::vector<long>& pa, const std::vector<long>& pb) {
  std::vector<long> r;
  for (long q : pa) for (long w : pb) if (q == w) r.push_back(q);
  return r;
}
// Env: make(a,b) -> handle of a fresh object in range [a,b]; change(h, m, a, b); pid(h,Q); pinv(h,x,Q); nmethods; method_name(m)
template <class Env, class I>
static void rerange_histories(Env& env, Ctx<I>& cx, long ai) {
  auto rs = canonical_ranges(RERANGE_LIM);
  if (ai < 0 || ai >= (long)rs.size()) return;
  auto A = parse_range(rs[ai]);
  std::vector<long> pa = primes_in(A.first, A.second);
  static const char* const OBS_ID[3] = {"rerange.set.get_partial_multiplicative_identity", "rerange.assign.get_partial_multiplicative_identity",
                                        "rerange.swap.get_partial_multiplicative_identity"};
  static const char* const OBS_T[3] = {"rerange.set.get_partial_inverse.T", "rerange.assign.get_partial_inverse.T", "rerange.swap.get_partial_inverse.T"};
  static const char* const OBS_V[3] = {"rerange.set.get_partial_inverse.value", "rerange.assign.get_partial_inverse.value",
                                       "rerange.swap.get_partial_inverse.value"};
  for (auto& bs : rs) {
    if (bs == rs[ai]) continue;
    auto B = parse_range(bs);
    std::vector<long> pb = primes_in(B.first, B.second);
    I PB = product<I>(pb);
    cx.set_modulus(PB, rs[ai] + ">" + bs);
    for (auto& Q : subproducts<I>(common_primes<I>(pa, pb))) {
      const char* rg = (Q == PB) ? "Q=P" : (Q == 1 ? "Q=1" : "1<Q<P");
      I one = 1;
      for (int m = 0; m < Env::NMETHODS; ++m) for (int pre = 0; pre < 2; ++pre) for (int post = 0; post < 2; ++post) {
        cx.ops(post ? &one : nullptr, nullptr, nullptr, &Q);
        bool ok = guarded([&] {
          auto h = env.make(A.first, A.second);
          if (pre == 0) (void)env.pid(h, Q); else (void)env.pinv(h, one, Q);
          env.change(h, m, B.first, B.second);
          if (post == 0) {
            I got = env.pid(h, Q);
            check_partial_identity(cx, OBS_ID[m], rg, pb, Q, got);
          } else {
            auto pr = env.pinv(h, one, Q);
            check_partial_inverse(cx, OBS_T[m], OBS_V[m], rg, pb, one, Q, pr.first, pr.second);
          }
        });
        tot().calls += 4; ++tot().tuples; ++tot().nontrivial;
        if (!ok) { ++tot().evals; cx.fail("rerange.SIGFPE", rg, "SIGFPE (integer division by zero)", "an answer"); }
      }
    }
  }
  env.done();
}
template <class Ops, class E, class I>
struct OpsRerange {
  static constexpr int NMETHODS = 3;
  std::unique_ptr<Ops> make(long a, long b) { return std::unique_ptr<Ops>(new Ops((int)a, (int)b)); }
  void change(std::unique_ptr<Ops>& h, int m, long a, long b) {
    if (m == 0) h->set_characteristic((int)a, (int)b);
    else if (m == 1) { Ops other((int)a, (int)b); *h = other; }
    else { Ops other((int)a, (int)b); swap(*h, other); }
  }
  I pid(std::unique_ptr<Ops>& h, const I& Q) { return To<I>::of(h->get_partial_multiplicative_identity(from_I<E>(Q))); }
  std::pair<I, I> pinv(std::unique_ptr<Ops>& h, const I& x, const I& Q) {
    auto pr = h->get_partial_inverse(from_I<E>(x), from_I<E>(Q));
    return {To<I>::of(pr.first), To<I>::of(pr.second)};
  }
  void done() {}
};
template <class F, class E, class I>
struct SharedRerange {
  static constexpr int NMETHODS = 1;  // the shared range only changes through initialize
  int make(long a, long b) { F::initialize((unsigned)a, (unsigned)b); return 0; }
  void change(int&, int, long a, long b) { F::initialize((unsigned)a, (unsigned)b); }
  I pid(int&, const I& Q) { return To<I>::of(F::get_partial_multiplicative_identity(from_I<E>(Q)).get_value()); }
  std::pair<I, I> pinv(int&, const I& x, const I& Q) {
    F fx(from_I<E>(x));
    auto pr = fx.get_partial_inverse(from_I<E>(Q));
    return {To<I>::of(pr.first.get_value()), To<I>::of(pr.second)};
  }
  void done() { F::initialize(3, 3); }
};

template <class Ad>
static void multi_sections(Ad& ad, Ctx<typename Ad::I>& cx, const Case& c, const std::vector<long>& primes) {
  using I = typename Ad::I;
  const I P = cx.P;
  if (c.sec == "meta") {
    cx.ops(nullptr);
    cx.eq("get_characteristic", "-", ad.characteristic(), P);
    if constexpr (Ad::HAS_INV) {
      cx.eq("get_additive_identity", "-", ad.add_id(), I(0));
      cx.eq("get_multiplicative_identity", "-", ad.mul_id(), I(1));
      for (auto& Q : subproducts<I>(primes)) {
        cx.ops(nullptr, nullptr, nullptr, &Q);
        check_partial_identity(cx, "get_partial_multiplicative_identity", (Q == P) ? "Q=P" : (Q == 1 ? "Q=1" : "1<Q<P"), primes, Q, ad.pid(Q));
        ++tot().calls; ++tot().tuples;
        if (!(Q == P)) ++tot().nontrivial;
      }
    }
    if constexpr (!Ad::HAS_INV)  // non-default Unsigned_integer_type: these members do not compile
      vf::stats().add("groups_without_get_inverse_identities_partial(not_compilable_for_non_default_integer_type)", 1);
    ad.meta_extra();
  } else if (c.sec == "pinv" || c.sec == "pinvsel") {
    if constexpr (Ad::HAS_INV) {
      auto Qs = subproducts<I>(primes);
      std::vector<I> xs;
      if (c.sec == "pinv") { for (long x = c.a * PINV_BLOCK; x < (c.a + 1) * PINV_BLOCK && I(x) < P; ++x) xs.push_back(I(x)); }
      else xs = selected_x(primes, P);
      for (auto& x : xs) {
        do_inverse(ad, cx, primes, x);
        for (auto& Q : Qs) do_pinv(ad, cx, primes, x, Q);
      }
    }
  } else if (c.sec == "all3" || c.sec == "all2") {
    I A = c.a;
    for (I B = 0; B < P; ++B) {
      ad.binary(A, B, "reduced");
      if (c.sec == "all3") for (I C = 0; C < P; ++C) ad.fused(A, B, C, "reduced");
    }
  } else if (c.sec == "bnd") {
    auto Bs = boundary_residues(P);
    for (auto& A : Bs) for (auto& B : Bs) {
      ad.binary(A, B, "reduced");
      for (auto& C : Bs) ad.fused(A, B, C, "reduced");
    }
    auto Xs = selected_x(primes, P);
    for (auto& A : Xs) for (auto& B : Xs) ad.binary(A, B, "reduced");
  } else if (c.sec == "conv") {
    ad.conv();
  }
}

// adapter of an element class
template <class F, class E, class I_, bool GUARD_, bool HAS_INV_>
struct ElemAd {
  using I = I_;
  static constexpr bool GUARD = GUARD_;
  static constexpr bool HAS_INV = HAS_INV_;
  Ctx<I>& cx;
  ElemTester<F, E, I> t;
  explicit ElemAd(Ctx<I>& c) : cx(c), t(c) {}
  std::pair<I, I> pinv(const I& x, const I& Q) {
    F fx(from_I<E>(x));
    auto pr = fx.get_partial_inverse(from_I<E>(Q));
    return {To<I>::of(pr.first.get_value()), To<I>::of(pr.second)};
  }
  I pid(const I& Q) { return To<I>::of(F::get_partial_multiplicative_identity(from_I<E>(Q)).get_value()); }
  I inv(const I& x) { F fx(from_I<E>(x)); return To<I>::of(fx.get_inverse().get_value()); }
  I characteristic() { return To<I>::of(F::get_characteristic()); }
  I add_id() { return To<I>::of(F::get_additive_identity().get_value()); }
  I mul_id() { return To<I>::of(F::get_multiplicative_identity().get_value()); }
  void binary(const I& A, const I& B, const char* rg) { t.binary(A, B, rg); }
  void fused(const I& A, const I& B, const I& C, const char* rg) { t.fused(A, B, C, rg); }
  void meta_extra() {
    F d;
    cx.eq("default_ctor", "-", To<I>::of(d.get_value()), I(0));
    I seven = fmod_(I(7), cx.P);
    F f7(from_I<E>(seven));
    if (seven < (I(1) << 32)) cx.eq("cast_unsigned_int", "-", (unsigned int)f7, seven);
    { F m1(f7); F m2(std::move(m1)); cx.eq("move_ctor", "-", To<I>::of(m2.get_value()), seven); }
  }
  void conv() {
    const I& P = cx.P;
    std::vector<I> As = {I(0), I(1), I((P - 1) / 2), I(P - 1)};
    if constexpr (std::is_same<I, mpz_class>::value) {
      bool full = P <= g_cfg.tc;
      mpz_class big = mpz_class(1) << 64, huge;
      mpz_ui_pow_ui(huge.get_mpz_t(), 10, 30);
      std::vector<mpz_class> vs;
      for (int k = -3; k <= 3; ++k) for (int dl = -2; dl <= 2; ++dl) vs.push_back(mpz_class(P * k + dl));
      for (auto& b : {big, huge}) for (int dl = -1; dl <= 1; ++dl) { vs.push_back(mpz_class(b + dl)); vs.push_back(mpz_class(-b + dl)); }
      vs.push_back(mpz_class(huge / P * P)); vs.push_back(mpz_class(-(huge / P * P)));
      if (full) for (mpz_class v = -2 * P - 1; v <= 2 * P + 1; ++v) vs.push_back(v);
      for (auto& A : As) for (auto& v : vs) t.template mixed<mpz_class>(A, v, "mpz_class");
    } else {
      bool full = P <= g_cfg.tc;
      i128 Pn = P;
      for (auto& A : As) {
        if (Pn <= INT_MAX) for (auto v : raw_values<int>(Pn, full)) t.template mixed<int>(A, v, "int");
        if (Pn <= UINT_MAX) for (auto v : raw_values<unsigned int>(Pn, full)) t.template mixed<unsigned int>(A, v, "unsigned int");
        for (auto v : raw_values<long>(Pn, full)) t.template mixed<long>(A, v, "long");
        for (auto v : raw_values<unsigned long>(Pn, full)) t.template mixed<unsigned long>(A, v, "unsigned long");
        if (Pn <= 32767) for (auto v : raw_values<short>(Pn, full)) t.template mixed<short>(A, v, "short");
        if (Pn <= 127) for (auto v : raw_values<signed char>(Pn, full)) t.template mixed<signed char>(A, v, "signed char");
      }
    }
  }
};

// adapter of an operators object
template <class Ops, class E, class I_, bool GUARD_>
struct OpsAd {
  using I = I_;
  static constexpr bool GUARD = GUARD_;
  static constexpr bool HAS_INV = true;
  Ctx<I>& cx;
  Ops& ops;
  OpsTester<Ops, E, I> t;
  OpsAd(Ctx<I>& c, Ops& o) : cx(c), ops(o), t(c, o) {}
  OpsAd(Ctx<I>& c, Ops& o, const I& emax) : cx(c), ops(o), t(c, o, emax) {}
  std::pair<I, I> pinv(const I& x, const I& Q) {
    auto pr = ops.get_partial_inverse(from_I<E>(x), from_I<E>(Q));
    return {To<I>::of(pr.first), To<I>::of(pr.second)};
  }
  I pid(const I& Q) { return To<I>::of(ops.get_partial_multiplicative_identity(from_I<E>(Q))); }
  I inv(const I& x) { return To<I>::of(ops.get_inverse(from_I<E>(x))); }
  I characteristic() { return To<I>::of(ops.get_characteristic()); }
  I add_id() { return To<I>::of(ops.get_additive_identity()); }
  I mul_id() { return To<I>::of(ops.get_multiplicative_identity()); }
  void binary(const I& A, const I& B, const char* rg) { t.binary(A, B, rg); }
  void fused(const I& A, const I& B, const I& C, const char* rg) { t.fused(A, B, C, rg); }
  void meta_extra() {
    // copies / assignment / swap / move keep the field (characteristic, addition, partial identity)
    const I& P = cx.P;
    I X = P - 1, Y = (P + 1) / 2;
    cx.ops(&X, &Y);
    auto probe = [&](Ops& o, const char* obs_c, const char* obs_a, const char* obs_i) {
      cx.eq(obs_c, "-", To<I>::of(o.get_characteristic()), P);
      cx.eq(obs_a, "reduced", To<I>::of(o.add(from_I<E>(X), from_I<E>(Y))), fmod_(I(X + Y), P));
      cx.eq(obs_i, "Q=P", To<I>::of(o.get_partial_multiplicative_identity(from_I<E>(P))), I(1));
      tot().calls += 3;
    };
    Ops cp(ops);
    probe(cp, "copy.get_characteristic", "copy.add", "copy.get_partial_multiplicative_identity");
    Ops as;
    as = ops;
    probe(as, "assign.get_characteristic", "assign.add", "assign.get_partial_multiplicative_identity");
    Ops other(3, 3), sw(ops);
    swap(other, sw);
    probe(other, "swap.get_characteristic", "swap.add", "swap.get_partial_multiplicative_identity");
    cx.eq("swap.get_characteristic", "-", To<I>::of(sw.get_characteristic()), I(3));
    Ops mv(std::move(other));
    probe(mv, "move.get_characteristic", "move.add", "move.get_partial_multiplicative_identity");
  }
  void conv() {
    const I& P = cx.P;
    auto Bs = boundary_residues(P);
    if constexpr (std::is_same<I, mpz_class>::value) {
      // Multi_field_operators documents `(e1 op e2) % productOfAllCharacteristics, such that the result is positive`
      // for any mpz element: negative and unreduced operands
      mpz_class big = mpz_class(1) << 64, huge;
      mpz_ui_pow_ui(huge.get_mpz_t(), 10, 30);
      std::vector<mpz_class> vs;
      for (int k = -3; k <= 3; ++k) for (int dl = -2; dl <= 2; ++dl) vs.push_back(mpz_class(P * k + dl));
      for (auto& b : {big, huge}) for (int dl = -1; dl <= 1; ++dl) { vs.push_back(mpz_class(b + dl)); vs.push_back(mpz_class(-b + dl)); }
      std::vector<mpz_class> core = vs;
      if (P <= g_cfg.tc) for (mpz_class v = -2 * P - 1; v <= 2 * P + 1; ++v) vs.push_back(v);
      for (auto& v : vs) {
        cx.ops(&v);
        t.value(v, raw_regime(v, P));
        { mpz_class w = v; ops.get_value_inplace(w); cx.eq("get_value_inplace", raw_regime(v, P), w, fmod_(v, P)); }
        ++tot().tuples; ++tot().nontrivial;
        for (auto& B : Bs) { t.binary(v, B, regime2(v, B, P)); t.binary(B, v, regime2(B, v, P)); t.fused(v, B, B, regime2(v, B, P)); t.fused(B, B, v, regime2(B, v, P)); }
      }
      for (auto& v : core) for (auto& w : core) if (abs(v) < 4 * P && abs(w) < 4 * P) t.binary(v, w, regime2(v, w, P));
    } else {
      i128 Pn = P;
      std::vector<i128> vs;
      for (auto v : raw_values<E>(Pn, Pn <= g_cfg.tc)) vs.push_back((i128)v);
      for (auto& v : vs) {
        t.value(v, raw_regime(v, P));
        ++tot().tuples;
        if (v >= P) ++tot().nontrivial;
        for (auto& B : Bs) { t.binary(v, B, regime2(v, B, P)); t.binary(B, v, regime2(B, v, P)); }
      }
    }
  }
};
#endif  // parts >= 3


#if C10_PART == 3
// =================================================================================================================
#include <gudhi/Fields/Multi_field_operators.h>
#include <gudhi/Fields/Multi_field_shared.h>
#include <gudhi/Persistent_cohomology/Multi_field.h>
namespace pf = Gudhi::persistence_fields;

static std::vector<Group> part_groups() {
  std::vector<Group> g;
  std::vector<std::string> rs = small_ranges(2310);
  for (const char* x : {"2-13", "2-23", "3-29", "2-37", "2-100", "2-541", "65519-65539", "32749-32771"}) rs.push_back(x);
  for (auto& r : rs) for (const char* f : {"mf_ops", "mf_sh", "coh_mf"}) g.push_back({f, r});
  g.push_back({"mf_ops", "refuse"});
  g.push_back({"mf_sh", "refuse"});
  g.push_back({"mf_ops", "rerange"});
  g.push_back({"mf_sh", "rerange"});
  return g;
}
static std::vector<Case> group_cases(const Group& g, const std::string& prev) { return multi_cases(g, prev); }

template <class Fn>
static void refuse_ranges(Ctx<mpz_class>& cx, const char* obs, Fn&& init_and_char) {
  cx.set_modulus(0, "refuse");
  for (long a = 0; a <= 30; ++a) for (long b = 0; b <= 30; ++b) {
    mpz_class A = a, B = b;
    cx.ops(&A, &B);
    auto ps = primes_in(a, b);
    mpz_class got;
    must_refuse(cx, obs, "[" + std::to_string(a) + "," + std::to_string(b) + "]", a > b || ps.empty(), [&] { got = init_and_char(a, b); });
    if (!(a > b || ps.empty())) cx.eq("get_characteristic", "after_init", got, product<mpz_class>(ps));
  }
}

struct CohMfAd {
  using I = mpz_class;
  static constexpr bool GUARD = false;
  static constexpr bool HAS_INV = true;
  Ctx<I>& cx;
  Gudhi::persistent_cohomology::Multi_field& f;
  CohMfAd(Ctx<I>& c, Gudhi::persistent_cohomology::Multi_field& ff) : cx(c), f(ff) {}
  std::pair<I, I> pinv(const I& x, const I& Q) { auto pr = f.inverse(x, Q); return {pr.first, pr.second}; }
  I pid(const I& Q) { return f.multiplicative_identity(Q); }
  I inv(const I& x) { return f.inverse(x, f.characteristic()).first; }
  I characteristic() { return f.characteristic(); }
  I add_id() { return f.additive_identity(); }
  I mul_id() { return f.multiplicative_identity(); }
  void binary(const I& X, const I& Y, const char* rg) {
    const I& P = cx.P;
    cx.ops(&X, &Y);
    cx.eq("times", rg, f.times(X, Y), fmod_(I(X * Y), P));
    cx.eq("plus_equal", rg, f.plus_equal(X, Y), fmod_(I(X + Y), P));
    I xy = fmod_(I(X * Y), P);
    cx.eq("times_minus", xy == 0 ? "reduced,zero_product" : "reduced,nonzero_product", f.times_minus(X, Y), fmod_(I(-X * Y), P));
    tot().calls += 3; ++tot().tuples;
    if (X + Y >= P || X * Y >= P) ++tot().nontrivial;
  }
  void fused(const I& X, const I& Y, const I& W, const char* rg) {
    cx.ops(&X, &Y, &W);
    cx.eq("plus_times_equal", rg, f.plus_times_equal(X, Y, W), fmod_(I(X + W * Y), cx.P));
    ++tot().calls; ++tot().tuples;
    if (X + W * Y >= cx.P) ++tot().nontrivial;
  }
  void meta_extra() {}
  void conv() {}
};

static void exec_case(const Case& c) {
  static pf::Multi_field_operators ops;
  static std::string cur_ops = "-", cur_sh = "-";
  Ctx<mpz_class> cx;
  if (c.sec == "refuse") {
    if (c.fam == "mf_ops") {
      cx.fam = "Multi_field_operators";
      refuse_ranges(cx, "set_characteristic", [&](long a, long b) { pf::Multi_field_operators o; o.set_characteristic((int)a, (int)b); return mpz_class(o.get_characteristic()); });
      refuse_ranges(cx, "ctor(min,max)", [&](long a, long b) { pf::Multi_field_operators o((int)a, (int)b); return mpz_class(o.get_characteristic()); });
    } else {
      cx.fam = "Shared_multi_field_element";
      refuse_ranges(cx, "initialize", [&](long a, long b) { pf::Shared_multi_field_element::initialize((unsigned)a, (unsigned)b); return mpz_class(pf::Shared_multi_field_element::get_characteristic()); });
      pf::Shared_multi_field_element::initialize(3, 3);
      cur_sh = "3-3";
    }
    return;
  }
  if (c.sec == "rerange") {
    if (c.fam == "mf_ops") {
      cx.fam = "Multi_field_operators";
      OpsRerange<pf::Multi_field_operators, mpz_class, mpz_class> env;
      rerange_histories(env, cx, c.a);
    } else {
      cx.fam = "Shared_multi_field_element";
      SharedRerange<pf::Shared_multi_field_element, mpz_class, mpz_class> env;
      rerange_histories(env, cx, c.a);
      cur_sh = "3-3";
    }
    return;
  }
  auto ab = parse_range(c.ch);
  std::vector<long> primes = primes_in(ab.first, ab.second);
  cx.set_modulus(product<mpz_class>(primes), c.ch);
  if (c.fam == "mf_ops") {
    cx.fam = "Multi_field_operators";
    if (cur_ops != c.ch) {
      if (cur_ops != c.prev && c.prev != "-") { auto pr = parse_range(c.prev); ops.set_characteristic((int)pr.first, (int)pr.second); }
      ops.set_characteristic((int)ab.first, (int)ab.second);
      cur_ops = c.ch;
    }
    OpsAd<pf::Multi_field_operators, mpz_class, mpz_class, false> ad(cx, ops);
    multi_sections(ad, cx, c, primes);
  } else if (c.fam == "mf_sh") {
    cx.fam = "Shared_multi_field_element";
    using F = pf::Shared_multi_field_element;
    if (cur_sh != c.ch) {
      if (cur_sh != c.prev && c.prev != "-") { auto pr = parse_range(c.prev); F::initialize((unsigned)pr.first, (unsigned)pr.second); }
      F::initialize((unsigned)ab.first, (unsigned)ab.second);
      cur_sh = c.ch;
    }
    ElemAd<F, mpz_class, mpz_class, false, true> ad(cx);
    multi_sections(ad, cx, c, primes);
  } else if (c.fam == "coh_mf") {
    cx.fam = "coh_Multi_field";
    Gudhi::persistent_cohomology::Multi_field f;  // init() is not repeatable on one object (it appends): fresh object per case
    f.init((int)ab.first, (int)ab.second);
    CohMfAd ad(cx, f);
    multi_sections(ad, cx, c, primes);
  } else { fprintf(stderr, "unknown family %s\n", c.fam.c_str()); exit(2); }
}
#endif  // part 3


#if C10_PART == 4
// =================================================================================================================
#include <gudhi/Fields/Multi_field_small_operators.h>
#include <gudhi/Fields/Multi_field_small_shared.h>
namespace pf = Gudhi::persistence_fields;

// size limits: the classes document "productOfAllCharacteristics^2 fits the type", which is what their fused methods
// ("Not overflow safe") need; every other operation is written overflow-safe and is enumerated for every product that
// fits the element type.
static std::vector<Group> part_groups() {
  std::vector<Group> g;
  std::vector<std::string> rs = small_ranges(2310);
  rs.push_back("2-13");
  rs.push_back("7-17");
  rs.push_back("251-257");
  for (auto& r : rs) for (const char* f : {"mfs_ops", "mfs_sh_u32", "mfs_sh_u64"}) g.push_back({f, r});
  // ranges whose product only fits the element type itself (P < 2^32, among them P >= 2^31): in scope for everything that is
  // not documented "Not overflow safe" - the classes carry explicit wrap-around code for it and the repository's own test
  // instantiates [3,30]
  for (const char* x : {"2-23", "3-29", "3-30", "65519-65521", "32749-32771"})
    for (const char* f : {"mfs_ops", "mfs_sh_u32", "mfs_sh_u64"}) g.push_back({f, x});
  for (const char* f : {"mfs_ops", "mfs_sh_u32", "mfs_sh_u64"}) g.push_back({f, "refuse"});
  for (const char* f : {"mfs_ops", "mfs_sh_u32", "mfs_sh_u64"}) g.push_back({f, "rerange"});
  return g;
}
static std::vector<Case> group_cases(const Group& g, const std::string& prev) { return multi_cases(g, prev); }

template <class Fn>
static void refuse_ranges(Ctx<i128>& cx, const char* obs, i128 lim, Fn&& init_and_char) {
  cx.set_modulus(0, "refuse");
  for (long a = 0; a <= 30; ++a) for (long b = 0; b <= 30; ++b) {
    i128 A = a, B = b;
    cx.ops(&A, &B);
    auto ps = primes_in(a, b);
    i128 P = product<i128>(ps);
    if (P > lim) continue;  // the product does not fit the element type
    i128 got = 0;
    must_refuse(cx, obs, "[" + std::to_string(a) + "," + std::to_string(b) + "]", a > b || ps.empty(), [&] { got = init_and_char(a, b); });
    if (!(a > b || ps.empty())) cx.eq("get_characteristic", "after_init", got, P);
  }
}

template <class U>
static void run_small_shared(const Case& c, const char* label, std::string& cur) {
  using F = pf::Shared_multi_field_element_with_small_characteristics<U>;
  Ctx<i128> cx;
  cx.fam = label;
  if (c.sec == "refuse") {
    refuse_ranges(cx, "initialize", (i128)std::numeric_limits<U>::max(), [&](long a, long b) { F::initialize((unsigned)a, (unsigned)b); return (i128)F::get_characteristic(); });
    F::initialize(3, 3);
    cur = "3-3";
    return;
  }
  if (c.sec == "rerange") {
    SharedRerange<F, U, i128> env;
    rerange_histories(env, cx, c.a);
    cur = "3-3";
    return;
  }
  auto ab = parse_range(c.ch);
  std::vector<long> primes = primes_in(ab.first, ab.second);
  cx.set_modulus(product<i128>(primes), c.ch);
  if (cur != c.ch) {
    if (cur != c.prev && c.prev != "-") { auto pr = parse_range(c.prev); F::initialize((unsigned)pr.first, (unsigned)pr.second); }
    F::initialize((unsigned)ab.first, (unsigned)ab.second);
    cur = c.ch;
  }
  ElemAd<F, U, i128, true, true> ad(cx);
  multi_sections(ad, cx, c, primes);
}

static void exec_case(const Case& c) {
  static pf::Multi_field_operators_with_small_characteristics ops;
  static std::string cur_ops = "-", cur32 = "-", cur64 = "-";
  if (c.fam == "mfs_sh_u32") { run_small_shared<u32>(c, "Shared_multi_field_element_with_small_characteristics", cur32); return; }
  if (c.fam == "mfs_sh_u64") { run_small_shared<u64>(c, "Shared_multi_field_element_with_small_characteristics<u64>", cur64); return; }
  if (c.fam != "mfs_ops") { fprintf(stderr, "unknown family %s\n", c.fam.c_str()); exit(2); }
  using O = pf::Multi_field_operators_with_small_characteristics;
  Ctx<i128> cx;
  cx.fam = "Multi_field_operators_with_small_characteristics";
  if (c.sec == "refuse") {
    refuse_ranges(cx, "set_characteristic", (i128)UINT_MAX, [&](long a, long b) { O o; o.set_characteristic((int)a, (int)b); return (i128)o.get_characteristic(); });
    refuse_ranges(cx, "ctor(min,max)", (i128)UINT_MAX, [&](long a, long b) { O o((int)a, (int)b); return (i128)o.get_characteristic(); });
    return;
  }
  if (c.sec == "rerange") {
    OpsRerange<O, u32, i128> env;
    rerange_histories(env, cx, c.a);
    return;
  }
  auto ab = parse_range(c.ch);
  std::vector<long> primes = primes_in(ab.first, ab.second);
  cx.set_modulus(product<i128>(primes), c.ch);
  if (cur_ops != c.ch) {
    if (cur_ops != c.prev && c.prev != "-") { auto pr = parse_range(c.prev); ops.set_characteristic((int)pr.first, (int)pr.second); }
    ops.set_characteristic((int)ab.first, (int)ab.second);
    cur_ops = c.ch;
  }
  OpsAd<O, u32, i128, true> ad(cx, ops, (i128)UINT_MAX);
  multi_sections(ad, cx, c, primes);
}
#endif  // part 4


#if C10_PART == 5
// =================================================================================================================
#include <gudhi/Fields/Multi_field.h>
namespace pf = Gudhi::persistence_fields;
#define C10_MF_RANGES(X) X(2, 2) X(2, 3) X(2, 5) X(2, 7) X(2, 11) X(3, 5) X(3, 7) X(5, 5) X(5, 11) X(7, 13) X(4, 10) X(46, 48) \
  X(13, 17) X(43, 47) X(0, 4) X(1, 2) X(2, 13) X(3, 29) X(2, 37) X(2, 100) X(65519, 65539)

static std::vector<Group> part_groups() {
  std::vector<Group> g;
#define X(a, b) g.push_back({"mf_ct", #a "-" #b});
  C10_MF_RANGES(X)
#undef X
  g.push_back({"mf_ct", "refuse"});
  return g;
}
static std::vector<Case> group_cases(const Group& g, const std::string& prev) { return multi_cases(g, prev); }

static void exec_case(const Case& c) {
  Ctx<mpz_class> cx;
  cx.fam = "Multi_field_element";
  if (c.sec == "refuse") {
    cx.set_modulus(0, "refuse");
    must_refuse(cx, "ctor", "[8,10]", true, [&] { pf::Multi_field_element<8, 10> f; (void)f; });
    must_refuse(cx, "ctor(value)", "[24,28]", true, [&] { pf::Multi_field_element<24, 28> f(mpz_class(1)); (void)f; });
    must_refuse(cx, "ctor", "[2,3]", false, [&] { pf::Multi_field_element<2, 3> f; (void)f; });
    return;
  }
  auto ab = parse_range(c.ch);
  std::vector<long> primes = primes_in(ab.first, ab.second);
  cx.set_modulus(product<mpz_class>(primes), c.ch);
  bool done = false;
#define X(a, b) if (ab.first == a && ab.second == b) { ElemAd<pf::Multi_field_element<a, b>, mpz_class, mpz_class, false, true> ad(cx); multi_sections(ad, cx, c, primes); done = true; }
  C10_MF_RANGES(X)
#undef X
  if (!done) { fprintf(stderr, "range %s is not instantiated in this unit\n", c.ch.c_str()); exit(2); }
}
#endif  // part 5

#if C10_PART == 6
// =================================================================================================================
#include <gudhi/Fields/Multi_field_small.h>
namespace pf = Gudhi::persistence_fields;
// the class documents: the product of all characteristics fits into the unsigned type
#ifndef C10_CT_SET
#define C10_CT_SET 0
#endif
#if C10_CT_SET == 0
#define C10_MFS_RANGES(X) X(2, 2) X(2, 3) X(2, 5) X(2, 7) X(2, 11) X(3, 5) X(3, 7) X(5, 5) X(5, 11)
#define C10_MFS_RANGES64(X) X(2, 5) X(2, 37)
#elif C10_CT_SET == 1
#define C10_MFS_RANGES(X) X(7, 13) X(4, 10) X(46, 48) X(13, 17) X(43, 47) X(0, 4) X(1, 2) X(2, 13)
#define C10_MFS_RANGES64(X) X(2, 11) X(2, 47)
#else
#define C10_MFS_RANGES(X) X(2, 23) X(3, 29) X(65519, 65521) X(251, 257) X(3, 3) X(47, 47)
#define C10_MFS_RANGES64(X) X(3, 29)
#endif

static std::vector<Group> part_groups() {
  std::vector<Group> g;
#define X(a, b) g.push_back({"mfs_ct_u32", #a "-" #b});
  C10_MFS_RANGES(X)
#undef X
#define X(a, b) g.push_back({"mfs_ct_u64", #a "-" #b});
  C10_MFS_RANGES64(X)
#undef X
  return g;
}
static std::vector<Case> group_cases(const Group& g, const std::string& prev) { return multi_cases(g, prev); }

static void exec_case(const Case& c) {
  Ctx<i128> cx;
  auto ab = parse_range(c.ch);
  std::vector<long> primes = primes_in(ab.first, ab.second);
  cx.set_modulus(product<i128>(primes), c.ch);
  bool done = false;
  if (c.fam == "mfs_ct_u32") {
    cx.fam = "Multi_field_element_with_small_characteristics";
#define X(a, b) if (ab.first == a && ab.second == b) { ElemAd<pf::Multi_field_element_with_small_characteristics<a, b, u32>, u32, i128, true, true> ad(cx); multi_sections(ad, cx, c, primes); done = true; }
    C10_MFS_RANGES(X)
#undef X
  } else if (c.fam == "mfs_ct_u64") {
    // get_inverse / get_partial_* / identities do not compile for a non-default integer type: arithmetic only
    cx.fam = "Multi_field_element_with_small_characteristics<u64>";
#define X(a, b) if (ab.first == a && ab.second == b) { ElemAd<pf::Multi_field_element_with_small_characteristics<a, b, u64>, u64, i128, true, false> ad(cx); multi_sections(ad, cx, c, primes); done = true; }
    C10_MFS_RANGES64(X)
#undef X
  }
  if (!done) { fprintf(stderr, "range %s of family %s is not instantiated in this unit\n", c.ch.c_str(), c.fam.c_str()); exit(2); }
}
#endif  // part 6

// =================================================================================================================
int main(int argc, char** argv) {
  vf::Args a = vf::parse_args(argc, argv);
  vf::install_handlers();
  install_fpe_guard();
  vf::g_case_timeout = 120;
  g_cfg.thorough = a.thorough();
  g_cfg.t3 = a.geti("t3", a.thorough() ? 127 : 47);
  g_cfg.t2 = a.geti("t2", a.thorough() ? 1009 : 257);
  g_cfg.tc = a.geti("tc", a.thorough() ? 257 : 61);
  g_cfg.pmax = a.geti("pmax", 1009);
  g_cfg.m3 = a.geti("m3", a.thorough() ? 110 : 35);
  g_cfg.m2 = a.geti("m2", a.thorough() ? 2310 : 210);
  g_cfg.mx = a.geti("mx", 2310);
  for (int v : vf::parse_ints(a.get("bigp", a.thorough() ? "32749,32771,46337,65519,65521" : "32749,46337,65521"))) g_cfg.bigp.push_back(v);

  if (!a.replay.empty()) {
    Case c = Case::dec(a.replay);
    vf::set_case(c.enc());
    exec_case(c);
    vf::end_case();
  } else {
    std::vector<Group> groups = part_groups();
    std::map<std::string, std::string> last;  // family -> characteristic its object / static state currently holds
    long ncases = 0;
    // part 1 is sharded by group (setting a large characteristic costs O(p^2)); the other parts by case, which balances
    // the heavy all-pairs sections (setting a prime range is cheap, every shard walks every group)
    const bool shard_by_case = C10_PART != 1;
    long k = 0;
    for (size_t gi = 0; gi < groups.size(); ++gi) {
      if (!shard_by_case && (int)(gi % (size_t)a.nshards) != a.shard) continue;
      const Group& g = groups[gi];
      std::string prev = last.count(g.fam) ? last[g.fam] : "-";
      bool any = false;
      for (const Case& c : group_cases(g, prev)) {
        if (shard_by_case && (int)(k++ % a.nshards) != a.shard) continue;
        any = true;
        std::string e = c.enc();
        vf::set_case(e);
        exec_case(c);
        vf::end_case();
        ++ncases;
        vf::stats().add("sec." + c.sec, 1);
        if (ncases % 97 == 1) vf::stats().sample(e);
      }
      if (!any) continue;
      last[g.fam] = (g.ch == "refuse" || g.ch == "rerange") ? (C10_PART <= 2 ? "3" : "3-3") : g.ch;
      vf::stats().add("groups." + g.fam, 1);
    }
    vf::stats().add("cases", ncases);
  }
  vf::stats().add("ev.states", tot().tuples);
  vf::stats().add("ev.traces", tot().tuples);
  vf::stats().add("ev.transitions", tot().calls);
  vf::stats().add("ev.evaluations", tot().evals);
  vf::stats().add("ev.nontrivial", tot().nontrivial);
  vf::stats().add("ev.incomplete", 0);
  vf::stats().add("skipped.fused_call_documented_not_overflow_safe", skipped_overflow());
  vf::stats().add("skipped.comparisons_after_a_wrong_conversion_or_equality", skipped_cascade());
  vf::finish();
  return 0;
}
