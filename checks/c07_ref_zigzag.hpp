// RefZigzag - definition-level oracle for zigzag persistence over GF(2).  No GUDHI code.
//
// Input: a finite universe of cells (dimension + boundary chain as a bitmask of universe cells) and a sequence of
// sub-complexes K_0, K_1, ..., K_{n-1} (bitmasks), consecutive ones nested one way or the other.
// For every homology degree k:
//   * H_k(K_i) = Z_k / B_k is built explicitly: an echelon basis of B_k = im d_{k+1}, then a complement basis of
//     cycles (the generators of H_k(K_i)); coords() writes the class of any cycle in those generators.
//   * the inclusion-induced map of every arrow (forward K_i -> K_{i+1} or backward K_i <- K_{i+1}) is the matrix of
//     coords of the generators of the smaller complex in the larger one.
//   * for every sub-interval [b,d]:  lim = kernel of the arrow constraints on the direct sum of the V_i, colim = the
//     direct sum modulo the arrow relations, and
//         r(b,d) = rank(relations + images of the b-components of a lim basis) - rank(relations)
//     (the rank of lim -> colim = the number of bars of the decomposition that contain [b,d]).
//   * multiplicity of the bar [b,d]:  m[b,d] = r(b,d) - r(b-1,d) - r(b,d+1) + r(b-1,d+1)   (r = 0 outside 0..n-1).
// A bar [b,d] of the module is reported with GUDHI's convention: (dim, b, d+1) when d+1 < n ("alive in the complexes
// after operations b..d"), and as an open bar (dim, b, -1) when d = n-1.
// push()/pop() let a depth-first enumeration share the r(b,d) of a common prefix: r(b,d) only depends on K_b..K_d.
// Two accelerations, both cross-checked against the plain definition by the harness' start-up self-test:
//   * vectors of at most 64 coordinates are single machine words, larger ones 256-bit;
//   * lim -> colim over [b-1,d] factors through lim -> colim over [b,d], so r(b,d) = 0 implies r(b',d) = 0 for b' < b.
#ifndef VF_C07_REF_ZIGZAG_HPP
#define VF_C07_REF_ZIGZAG_HPP

#include <algorithm>
#include <cstdint>
#include <stdexcept>
#include <tuple>
#include <vector>

namespace refzz {

// ---- GF(2) vectors as bitmasks (up to 256 coordinates) ----------------------------------------------------------
struct Bits {
  static constexpr int W = 4;
  uint64_t w[W] = {0, 0, 0, 0};
  bool get(int i) const { return (w[i >> 6] >> (i & 63)) & 1u; }
  void set(int i) { w[i >> 6] |= (uint64_t)1 << (i & 63); }
  void flip(int i) { w[i >> 6] ^= (uint64_t)1 << (i & 63); }
  bool zero() const { return !(w[0] | w[1] | w[2] | w[3]); }
  void operator^=(const Bits& o) { for (int i = 0; i < W; ++i) w[i] ^= o.w[i]; }
  int top() const {  // index of the highest set bit, -1 if zero
    for (int i = W - 1; i >= 0; --i) if (w[i]) return i * 64 + 63 - __builtin_clzll(w[i]);
    return -1;
  }
  static constexpr int capacity() { return 64 * W; }
};

// Echelon set of GF(2) vectors (at most CAP of them, inline storage); each row carries a tag (the combination it
// stands for in some other space).  reduce() applies the rows in insertion order: a row never contains the pivot bit of
// an EARLIER row (it was reduced by it before being stored), so a vector reduces to zero iff it is in the span.
template <class V, class T, int CAP>
struct Echelon {
  int n = 0;
  int piv[CAP];
  V row[CAP];
  T tag[CAP];
  // reduces v (and t) by the rows; returns true if what is left of v is non-zero (v independent of the rows)
  bool reduce(V& v, T& t) const {
    for (int i = 0; i < n; ++i) if (bit(v, piv[i])) { v ^= row[i]; t ^= tag[i]; }
    return !is_zero(v);
  }
  bool add(V v, T t) {
    if (!reduce(v, t)) return false;
    push_reduced(v, t);
    return true;
  }
  void push_reduced(const V& v, const T& t) {  // v must already be reduced and non-zero
    if (n >= CAP) throw std::logic_error("refzz: echelon capacity exceeded");
    piv[n] = top(v);
    row[n] = v;
    tag[n] = t;
    ++n;
  }
  int rank() const { return n; }

  static bool bit(const uint64_t& v, int i) { return (v >> i) & 1u; }
  static bool bit(const Bits& v, int i) { return v.get(i); }
  static bool is_zero(const uint64_t& v) { return v == 0; }
  static bool is_zero(const Bits& v) { return v.zero(); }
  static int top(const uint64_t& v) { return v ? 63 - __builtin_clzll(v) : -1; }
  static int top(const Bits& v) { return v.top(); }
};

// uniform bit access for the two vector types used by the rank computation
inline void vflip(uint64_t& v, int i) { v ^= (uint64_t)1 << i; }
inline void vflip(Bits& v, int i) { v.flip(i); }
inline bool vget(const uint64_t& v, int i) { return (v >> i) & 1u; }
inline bool vget(const Bits& v, int i) { return v.get(i); }

struct Cell {
  int dim;
  uint64_t bd;  // boundary chain over GF(2): bitmask of universe cells (all of dimension dim-1)
};

struct Interval {
  int dim, birth, death;  // death = -1: still open after the last complex
  bool operator<(const Interval& o) const { return std::tie(dim, birth, death) < std::tie(o.dim, o.birth, o.death); }
  bool operator==(const Interval& o) const { return dim == o.dim && birth == o.birth && death == o.death; }
};

// H_k(K) with explicit generators
struct Homology {
  Echelon<uint64_t, uint64_t, 64> ech;  // rows: boundaries (tag 0) then generators (tag = unit vector)
  std::vector<uint64_t> gens;       // cycles representing the generators
  int h() const { return (int)gens.size(); }
  // class of the cycle z in the generators (throws if z is not in the span of cycles known here)
  uint64_t coords(uint64_t z) const {
    uint64_t t = 0;
    if (ech.reduce(z, t)) throw std::logic_error("refzz: chain is not a cycle of this complex");
    return t;
  }
};

class RefZigzag {
 public:
  explicit RefZigzag(std::vector<Cell> universe) : U_(std::move(universe)), maxdim_(0) {
    if (U_.size() > 64) throw std::logic_error("refzz: universe too large");
    for (auto& c : U_) maxdim_ = std::max(maxdim_, c.dim);
  }
  bool exact_all = false;   // compute every r(b,d) from the definition, no monotonicity shortcut
  bool force_wide = false;  // always use the 256-bit vectors
  int max_dim() const { return maxdim_; }
  int length() const { return (int)K_.size(); }

  // appends the complex K (bitmask of universe cells); must contain or be contained in the previous one
  void push(uint64_t K) {
    check_complex(K);
    int n = (int)K_.size();
    bool fwd = true;
    if (n > 0) {
      uint64_t P = K_.back();
      if ((P & K) == P) fwd = true;
      else if ((P & K) == K) fwd = false;
      else throw std::logic_error("refzz: consecutive complexes are not nested");
    }
    K_.push_back(K);
    forward_.push_back(fwd);
    H_.emplace_back();
    map_.emplace_back();
    r_.emplace_back();
    H_.back().resize(maxdim_ + 1);
    map_.back().resize(maxdim_ + 1);
    r_.back().resize(maxdim_ + 1);
    for (int k = 0; k <= maxdim_; ++k) {
      H_[n][k] = homology(K, k);
      if (n > 0) {
        // matrix of the arrow between V_{n-1} and V_n: column j = image of generator j of the source
        const Homology& src = fwd ? H_[n - 1][k] : H_[n][k];
        const Homology& dst = fwd ? H_[n][k] : H_[n - 1][k];
        std::vector<uint64_t>& M = map_[n][k];
        for (uint64_t g : src.gens) M.push_back(dst.coords(g));
      }
      // r(b,n) for b = n, n-1, ..., 0.  lim -> colim over [b,n] factors through lim -> colim over [b+1,n] (restrict,
      // then include) and through every V_i, so once a value is 0 every value further left is 0 as well; the
      // shortcut is switched off by exact_all (the start-up self-test compares the two).
      r_[n][k].assign(n + 1, 0);
      for (int b = n; b >= 0; --b) {
        int v = rank_lim_colim(k, b, n);
        r_[n][k][b] = v;
        if (v == 0 && !exact_all) break;
      }
    }
  }
  void pop() {
    K_.pop_back(); forward_.pop_back(); H_.pop_back(); map_.pop_back(); r_.pop_back();
  }

  int betti(int i, int k) const { return H_[i][k].h(); }
  int r(int k, int b, int d) const {
    if (b < 0 || d >= (int)K_.size() || b > d) return 0;
    return r_[d][k][b];
  }

  // the interval decomposition, GUDHI conventions, sorted
  std::vector<Interval> intervals() const {
    std::vector<Interval> out;
    int n = (int)K_.size();
    for (int k = 0; k <= maxdim_; ++k)
      for (int b = 0; b < n; ++b)
        for (int d = b; d < n; ++d) {
          int m = r(k, b, d) - r(k, b - 1, d) - r(k, b, d + 1) + r(k, b - 1, d + 1);
          if (m < 0) throw std::logic_error("refzz: negative multiplicity");
          for (int c = 0; c < m; ++c) out.push_back({k, b, d + 1 < n ? d + 1 : -1});
        }
    std::sort(out.begin(), out.end());
    return out;
  }

 private:
  std::vector<Cell> U_;
  int maxdim_;
  std::vector<uint64_t> K_;
  std::vector<char> forward_;                          // forward_[i]: arrow between i-1 and i points to i
  std::vector<std::vector<Homology>> H_;               // [i][k]
  std::vector<std::vector<std::vector<uint64_t>>> map_;  // [i][k]: arrow between i-1 and i
  std::vector<std::vector<std::vector<int>>> r_;       // [d][k][b]

  void check_complex(uint64_t K) const {
    for (size_t c = 0; c < U_.size(); ++c)
      if ((K >> c & 1) && (U_[c].bd & ~K)) throw std::logic_error("refzz: not a complex (boundary cell missing)");
  }

  Homology homology(uint64_t K, int k) const {
    Homology H;
    // B_k: boundaries of the (k+1)-cells of K
    for (size_t c = 0; c < U_.size(); ++c)
      if ((K >> c & 1) && U_[c].dim == k + 1) H.ech.add(U_[c].bd, 0);
    // Z_k: kernel of d_k on the k-cells of K, by elimination of the boundaries with the combination as tag
    Echelon<uint64_t, uint64_t, 64> img;
    std::vector<uint64_t> Z;
    for (size_t c = 0; c < U_.size(); ++c)
      if ((K >> c & 1) && U_[c].dim == k) {
        uint64_t v = U_[c].bd, t = (uint64_t)1 << c;
        if (img.reduce(v, t)) img.add(v, t);  // v,t already reduced: add() re-reduces to the same thing
        else Z.push_back(t);                  // boundary vanished: t is a cycle
      }
    // complement of B_k in Z_k
    for (uint64_t z : Z) {
      uint64_t v = z, t = 0;
      if (H.ech.reduce(v, t)) {
        int j = (int)H.gens.size();
        H.gens.push_back(z);
        // store the reduced vector; its tag must make coords(z) = e_j:  z = v + (rows used), so v = z + rows used
        H.ech.push_reduced(v, t ^ ((uint64_t)1 << j));
      }
    }
    return H;
  }

  // rank of lim -> colim of the restriction of the degree-k module to [b,d]
  int rank_lim_colim(int k, int b, int d) const {
    int D = 0, C = 0;
    for (int i = b; i <= d; ++i) {
      D += H_[i][k].h();
      if (i > b) C += forward_[i] ? H_[i][k].h() : H_[i - 1][k].h();
    }
    if (D == 0) return 0;
    if (D <= 64 && C <= 64 && !force_wide) return rank_lim_colim_t<uint64_t, 64>(k, b, d);
    if (D > Bits::capacity() || C > Bits::capacity()) throw std::logic_error("refzz: direct sum too large");
    return rank_lim_colim_t<Bits, 256>(k, b, d);
  }

  template <class V, int CAP>
  int rank_lim_colim_t(int k, int b, int d) const {
    int len = d - b + 1;
    std::vector<int> off(len + 1, 0);
    for (int i = 0; i < len; ++i) off[i + 1] = off[i] + H_[b + i][k].h();
    auto embed = [&](int i, uint64_t coords, V& out) {  // add coords (in V_{b+i}) into the direct sum vector
      for (int j = 0; j < H_[b + i][k].h(); ++j) if (coords >> j & 1) vflip(out, off[i] + j);
    };
    // relations of the colimit: x ~ image(x) for every arrow and every generator x of its source
    Echelon<V, int, CAP> rel;
    for (int i = 1; i < len; ++i) {
      int a = b + i;  // arrow between a-1 and a
      bool fwd = forward_[a];
      int si = fwd ? i - 1 : i, ti = fwd ? i : i - 1;
      const std::vector<uint64_t>& M = map_[a][k];
      for (size_t j = 0; j < M.size(); ++j) {
        V v{};
        vflip(v, off[si] + (int)j);
        embed(ti, M[j], v);
        rel.add(v, 0);
      }
    }
    int rank_rel = rel.rank();
    // limit: tuples (v_i) with arrow(v_src) = v_dst; kernel of the constraint map, by elimination with tags.
    // constraint space: one block per arrow, of the dimension of the arrow's target
    std::vector<int> coff(len + 1, 0);  // coff[i]: offset of the block of the arrow between b+i-1 and b+i (i>=1)
    int Cdim = 0;
    for (int i = 1; i < len; ++i) {
      coff[i] = Cdim;
      Cdim += forward_[b + i] ? H_[b + i][k].h() : H_[b + i - 1][k].h();
    }
    Echelon<V, V, CAP> con;
    std::vector<V> lim;
    for (int i = 0; i < len; ++i) {
      for (int j = 0; j < H_[b + i][k].h(); ++j) {
        V c{}, t{};
        vflip(t, off[i] + j);
        // arrow on the left of i (between i-1 and i)
        if (i >= 1) {
          bool fwd = forward_[b + i];
          if (fwd) vflip(c, coff[i] + j);  // target is V_i: contributes v_i itself
          else {                            // backward: source is V_i, target V_{i-1}: contributes g(v_i)
            uint64_t im = map_[b + i][k][j];
            for (int q = 0; q < H_[b + i - 1][k].h(); ++q) if (im >> q & 1) vflip(c, coff[i] + q);
          }
        }
        // arrow on the right of i (between i and i+1)
        if (i + 1 < len) {
          bool fwd = forward_[b + i + 1];
          if (fwd) {  // source is V_i, target V_{i+1}: contributes f(v_i)
            uint64_t im = map_[b + i + 1][k][j];
            for (int q = 0; q < H_[b + i + 1][k].h(); ++q) if (im >> q & 1) vflip(c, coff[i + 1] + q);
          } else vflip(c, coff[i + 1] + j);  // target is V_i
        }
        if (con.reduce(c, t)) con.push_reduced(c, t);
        else lim.push_back(t);
      }
    }
    // images in the colimit of the b-components of a basis of the limit
    for (const V& l : lim) {
      V v{};
      for (int j = 0; j < H_[b][k].h(); ++j) if (vget(l, off[0] + j)) vflip(v, off[0] + j);
      rel.add(v, 0);
    }
    return rel.rank() - rank_rel;
  }
};

}  // namespace refzz

#endif
