// Verification of a Matrix<Options> against the reference model of its history (the whole C05 observation): shared by
// C05 (checks/c05_matrix_barcode.cpp) and by the matrix part of C15 (checks/c15_matrix.cpp).
#ifndef VF_PM_VERIFY_HPP
#define VF_PM_VERIFY_HPP

#include "pm_common.hpp"

namespace pmc {

inline bool g_tail = true;  // R-only matrices: after the barcode, remove_last until empty, comparing after each
inline std::string g_cls_suffix;  // appended to every class of a history that calls remove_last on an empty matrix

enum Counter {
  EV_TRACES, EV_TRANSITIONS, EV_EVALUATIONS, EV_NONTRIVIAL, MISMATCHES, NV_ESSENTIAL, NV_FINITE, NV_CHANGED, NV_REMHIST,
  NV_OFFDIAG, NV_TAIL, NV_NONUNIT, NV_CHAINMULTI, NV_EMPTYREM, CASES_FIRST  // + flavour * 2 + (zp ? 1 : 0)
};
inline const char* counter_names[] = {
  "ev.traces", "ev.transitions", "ev.evaluations", "ev.nontrivial", "mismatches_total", "nv.bars_essential", "nv.bars_finite",
  "nv.columns_changed_by_reduction", "nv.histories_with_remove_last", "nv.ru_cases_with_offdiagonal_factor",
  "nv.tail_remove_last_after_barcode", "nv.zp_non_unit_coefficient", "nv.chain_columns_with_several_cells",
  "nv.histories_with_remove_last_on_empty_matrix",
  "cases.boundary.z2", "cases.boundary.zp", "cases.ru.z2", "cases.ru.zp", "cases.chain.z2", "cases.chain.zp"};

template <class O>
struct Verifier {
  using E = Exec<O>;
  using Index = unsigned int;
  static constexpr Index NUL = (Index)-1;
  std::string cfg = opt_name<O>();
  std::string fl = fl_name(O::flavour);
  long long comparisons = 0;
  std::string cls_prefix = "C05:";  // C15 (matrix part) sets "C15:matrix:<kind>:<object and stage>:"

  void bad(const std::string& cls, const std::string& detail) {
    std::string full = with_suffix(cls_prefix + cls, g_cls_suffix);
    cnt(MISMATCHES)++;
    if (class_should_print(full)) vf::mismatch(full, cfg + " " + detail);
  }
  template <class A, class B>
  bool eq(const A& got, const B& want, const std::string& cls, const std::string& what) {
    ++comparisons;
    if (got == want) return true;
    std::ostringstream o;
    o << what << " got " << got << " want " << want;
    bad(cls, o.str());
    return false;
  }

  // ---- parts common to the three flavours ----
  void common(E& ex) {
    Model& md = ex.mod;
    phase("get_number_of_columns");
    eq((long long)ex.m->get_number_of_columns(), (long long)md.n(), "get_number_of_columns:" + fl, "number of columns");
    if constexpr (O::has_matrix_maximal_dimension_access) {
      phase("get_max_dimension");
      eq((int)ex.m->get_max_dimension(), md.max_dim(), "get_max_dimension:" + fl, "max dimension");
    }
  }

  std::vector<ref::Pair> oracle_pairs(const Model& md) { return ref::persistence(md.ref_cells(), md.p); }

  void compare_barcode(E& ex, const std::string& stage) {
    if constexpr (O::has_column_pairings) {
      auto got = ex.barcode();
      auto want = oracle_pairs(ex.mod);
      ++comparisons;
      if (!(got == want)) bad("barcode:" + fl + stage, "got " + pairs_str(got) + " want " + pairs_str(want));
      for (auto& q : want) cnt(q.death < 0 ? NV_ESSENTIAL : NV_FINITE)++;
    }
  }

  // rows: every stored entry must appear in its row and conversely (only for rows that hold at least one entry)
  // cols[j] = column of the cell at position j by position; uidx[j] = container index of that column
  void check_rows(E& ex, const std::vector<Vec>& cols, const std::vector<Index>& uidx, const std::string& stage) {
    if constexpr (O::has_row_access) {
      Model& md = ex.mod;
      int n = md.n();
      for (int r = 0; r < n; ++r) {
        std::map<Index, int> want;
        for (int j = 0; j < n; ++j) if (cols[j][r]) want[uidx[j]] = cols[j][r];
        if (want.empty()) continue;
        std::map<Index, int> got;
        bool rowok = true;
        phase("get_row");
        const auto& row = ex.m->get_row(md.ids[r]);
        for (const auto& e : row) {
          int val = 1;
          if constexpr (!O::is_z2) val = (int)e.get_element();
          got[e.get_column_index()] += val;
          if (e.get_row_index() != md.ids[r]) rowok = false;
        }
        ++comparisons;
        if (!rowok || got != want) {
          std::ostringstream o;
          o << "row of id " << md.ids[r] << " (position " << r << ") holds columns {";
          for (auto& kv : got) o << kv.first << ":" << kv.second << " ";
          o << "} want {";
          for (auto& kv : want) o << kv.first << ":" << kv.second << " ";
          o << "}";
          bad("get_row:" + fl + stage, o.str());
        }
      }
    }
  }

  // oracle: which positions are deaths, and the lowest entry of their reduced column
  struct Lows {
    std::vector<int> low;  // low[j] = birth position killed by j, -1 if the reduced column j is zero
  };
  Lows oracle_lows(const Model& md) {
    Lows l;
    l.low.assign(md.n(), -1);
    for (auto& q : oracle_pairs(md)) if (q.death >= 0) l.low[q.death] = q.birth;
    return l;
  }

  // R: non-zero columns have distinct lowest entries, the zero pattern and lowest entries are the canonical ones,
  // and R_j = c B_j + combination of earlier boundaries, c != 0
  void check_R(E& ex, const std::vector<Vec>& R, const std::string& stage) {
    Model& md = ex.mod;
    int n = md.n();
    auto B = md.boundary_matrix();
    Lows lw = oracle_lows(md);
    std::set<int> lows;
    bool reduced = true;
    for (int j = 0; j < n; ++j) {
      int l = low_of(R[j]);
      if (l >= 0 && !lows.insert(l).second) reduced = false;
    }
    ++comparisons;
    if (!reduced) bad("R_reduced:" + fl + stage, "two non-zero columns of R share their lowest entry");
    for (int j = 0; j < n; ++j) {
      int l = low_of(R[j]);
      ++comparisons;
      if (l != lw.low[j]) {
        bad("R_lowest_entry:" + fl + stage, "position " + std::to_string(j) + " R column " + vstr(R[j]) + " lowest " +
                                                std::to_string(l) + " want " + std::to_string(lw.low[j]));
        continue;
      }
      // R_j in span(B_0..B_j), and (if non-zero) not in span(B_0..B_{j-1})
      std::vector<Vec> before(B.begin(), B.begin() + j);
      std::vector<Vec> upto(B.begin(), B.begin() + j + 1);
      ++comparisons;
      bool ok = in_span(upto, R[j], md.p) && (is_zero(R[j]) || !in_span(before, R[j], md.p));
      if (!ok) bad("R_not_column_equivalent_to_boundary:" + fl + stage,
                   "position " + std::to_string(j) + " R column " + vstr(R[j]) + " boundary " + vstr(B[j]));
      if (!(R[j] == B[j])) cnt(NV_CHANGED)++;
    }
  }

  void pivots_and_zero(E& ex, const std::vector<Vec>& R, const std::string& stage) {
    Model& md = ex.mod;
    for (int j = 0; j < md.n(); ++j) {
      Index idx = ex.index_of(j);
      int l = low_of(R[j]);
      Index want = l < 0 ? NUL : md.ids[l];
      phase("get_pivot");
      eq(ex.m->get_pivot(idx), want, "get_pivot:" + fl + stage, "pivot of the column at position " + std::to_string(j));
      phase("is_zero_column");
      eq(ex.m->is_zero_column(idx), l < 0, "is_zero_column:" + fl + stage, "position " + std::to_string(j));
      phase("get_column_dimension");
      eq((int)ex.m->get_column_dimension(idx), md.dim(j), "get_column_dimension:" + fl + stage,
         "position " + std::to_string(j));
      if constexpr (O::flavour == F_RU) {
        phase("get_column_with_pivot");
        if (l >= 0) eq(ex.m->get_column_with_pivot(md.ids[l]), idx, "get_column_with_pivot:" + fl + stage,
                       "column with pivot id " + std::to_string(md.ids[l]));
      }
    }
  }

  std::vector<Vec> read_main(E& ex, const std::string& stage, bool& ok) {
    Model& md = ex.mod;
    std::vector<Vec> R;
    ok = true;
    for (int j = 0; j < md.n(); ++j) {
      phase("get_column");
      auto r = ex.read_by_id(ex.m->get_column(ex.index_of(j)));
      ++comparisons;
      if (!r.ok) {
        ok = false;
        bad("column_entry_on_unknown_row:" + fl + stage, "position " + std::to_string(j) + " holds" + r.bad);
      }
      R.push_back(r.v);
    }
    return R;
  }

  // ---- R-only boundary matrix ----
  void after_boundary(E& ex, const std::string& stage, bool reduced) {
    Model& md = ex.mod;
    common(ex);
    bool ok;
    auto R = read_main(ex, stage, ok);
    if (!ok) return;
    std::vector<Index> uidx;
    for (int j = 0; j < md.n(); ++j) uidx.push_back((Index)j);
    if (!reduced) {
      auto B = md.boundary_matrix();
      for (int j = 0; j < md.n(); ++j) {
        ++comparisons;
        if (!(R[j] == B[j])) bad("boundary:column_before_reduction", "position " + std::to_string(j) + " got " + vstr(R[j]) +
                                                                      " want " + vstr(B[j]));
      }
    } else {
      check_R(ex, R, stage);
    }
    pivots_and_zero(ex, R, stage);
    check_rows(ex, R, uidx, stage);
  }

  void run_boundary(E& ex, const std::vector<int>& ops) {
    for (int op : ops) ex.apply(op);
    verify_boundary(ex);
  }
  // R-only boundary matrix not reduced yet: columns before the barcode, the barcode (reduces the matrix), the reduced
  // matrix, then remove_last until empty
  void verify_boundary(E& ex) {
    after_boundary(ex, ":before_barcode", false);
    compare_barcode(ex, "");
    after_boundary(ex, "", true);
    if constexpr (E::CAN_REMOVE) {
      if (g_tail) {
        while (ex.mod.n() > 0) {
          ex.remove_last();
          cnt(NV_TAIL)++;
          compare_barcode(ex, ":after_remove_last");
          after_boundary(ex, ":after_remove_last", true);
        }
      }
    }
  }

  // ---- RU ----
  void run_ru(E& ex, const std::vector<int>& ops) {
    for (int op : ops) ex.apply(op);
    verify_ru(ex);
  }
  void verify_ru(E& ex) {
    Model& md = ex.mod;
    int n = md.n(), p = md.p;
    common(ex);
    compare_barcode(ex, "");
    bool ok;
    auto R = read_main(ex, "", ok);
    if (!ok) return;
    check_R(ex, R, "");
    pivots_and_zero(ex, R, "");
    std::vector<Index> uidx;
    for (int j = 0; j < n; ++j) uidx.push_back((Index)j);
    check_rows(ex, R, uidx, "");
    // the second factor (rows are positions)
    std::vector<Vec> S;
    bool sok = true;
    for (int j = 0; j < n; ++j) {
      ColRead r;
      phase("get_column(U)");
      if constexpr (!E::ID_IDX) r = ex.read_by_pos(ex.m->get_column((Index)j, false));
      else r = ex.read_by_pos(ex.under().mirrorMatrixU_.get_column((Index)j));
      ++comparisons;
      if (!r.ok) {
        sok = false;
        bad(std::string("ru:second_factor_entry_on_removed_row:") + (O::is_z2 ? "z2" : "zp"),
            "stored column " + std::to_string(j) + " of the second factor holds" + r.bad + " with " + std::to_string(n) +
                " cells present");
      }
      S.push_back(r.v);
    }
    if (!sok) return;
    auto B = md.boundary_matrix();
    bool offdiag = false;
    if constexpr (O::is_z2) {
      // stored = transpose of U, B = R * U, U upper triangular with unit diagonal
      bool shape = true;
      for (int k = 0; k < n; ++k) {
        if (S[k][k] != 1) shape = false;
        for (int r = 0; r < k; ++r) if (S[k][r]) shape = false;
        for (int r = k + 1; r < n; ++r) if (S[k][r]) offdiag = true;
      }
      ++comparisons;
      if (!shape) bad("ru:second_factor_not_unitriangular:z2", "stored (transposed) factor is not lower unitriangular");
      for (int j = 0; j < n; ++j) {
        Vec acc(n, 0);
        for (int k = 0; k < n; ++k) if (S[k][j]) axpy(acc, S[k][j], R[k], p);
        ++comparisons;
        if (!(acc == B[j])) {
          bad("ru:B_equals_R_times_U:z2", "column " + std::to_string(j) + " of R*U is " + vstr(acc) + " boundary " + vstr(B[j]));
          break;
        }
      }
    } else {
      // stored = V, B * V = R, V upper triangular with non-zero diagonal
      bool shape = true;
      for (int j = 0; j < n; ++j) {
        if (!S[j][j]) shape = false;
        for (int r = j + 1; r < n; ++r) if (S[j][r]) shape = false;
        for (int r = 0; r < j; ++r) if (S[j][r]) offdiag = true;
      }
      ++comparisons;
      if (!shape) bad("ru:second_factor_not_triangular:zp", "stored factor is not upper triangular with non-zero diagonal");
      for (int j = 0; j < n; ++j) {
        Vec acc(n, 0);
        for (int k = 0; k < n; ++k) if (S[j][k]) axpy(acc, S[j][k], B[k], p);
        ++comparisons;
        if (!(acc == R[j])) {
          bad("ru:B_times_V_equals_R:zp", "column " + std::to_string(j) + " of B*V is " + vstr(acc) + " R column " + vstr(R[j]));
          break;
        }
        for (int k = 0; k < j; ++k) if (S[j][k] > 1 && S[j][k] < p - 1) cnt(NV_NONUNIT)++;
      }
    }
    if (offdiag) cnt(NV_OFFDIAG)++;
  }

  // ---- chain ----
  void run_chain(E& ex, const std::vector<int>& ops) {
    for (int op : ops) ex.apply(op);
    verify_chain(ex);
  }
  void verify_chain(E& ex) {
    Model& md = ex.mod;
    int n = md.n(), p = md.p;
    common(ex);
    compare_barcode(ex, "");
    // pivots map back to their columns
    std::vector<Index> idx(n), uidx(n);
    std::map<Index, int> upos;
    for (int j = 0; j < n; ++j) {
      phase("get_column_with_pivot");
      idx[j] = ex.index_of(j);
      uidx[j] = ex.under().get_column_with_pivot(md.ids[j]);
      upos[uidx[j]] = j;
      phase("get_pivot");
      eq(ex.m->get_pivot(idx[j]), md.ids[j], "get_pivot:chain", "pivot of the column of position " + std::to_string(j));
      Index want = E::ID_IDX ? md.ids[j] : E::POS_IDX ? (Index)j : uidx[j];
      phase("get_column_with_pivot");
      eq(ex.m->get_column_with_pivot(md.ids[j]), want, "get_column_with_pivot:chain", "column with pivot id " + std::to_string(md.ids[j]));
      phase("get_column_dimension");
      eq((int)ex.m->get_column_dimension(idx[j]), md.dim(j), "get_column_dimension:chain", "position " + std::to_string(j));
      phase("is_zero_column");
      eq(ex.m->is_zero_column(idx[j]), false, "is_zero_column:chain", "position " + std::to_string(j));
    }
    ++comparisons;
    if ((int)upos.size() != n) bad("chain:columns_not_distinct", "two cells share a column");
    bool ok;
    auto C = read_main(ex, "", ok);
    if (!ok) return;
    check_rows(ex, C, uidx, "");
    auto want = oracle_pairs(md);
    std::vector<int> partner(n, -1);
    for (auto& q : want) if (q.death >= 0) { partner[q.birth] = q.death; partner[q.death] = q.birth; }
    for (int j = 0; j < n; ++j) {
      // leading cell = the cell of the column, coefficient non-zero, homogeneous dimension
      ++comparisons;
      bool shape = low_of(C[j]) == j;
      for (int r = 0; r < n; ++r) if (C[j][r] && md.dim(r) != md.dim(j)) shape = false;
      if (!shape) { bad("chain:leading_cell", "column of position " + std::to_string(j) + " is " + vstr(C[j])); continue; }
      phase("get_column");
      const auto& col = ex.m->get_column(idx[j]);
      int got_partner = -1;
      if (col.is_paired()) {
        auto it = upos.find(col.get_paired_chain_index());
        got_partner = it == upos.end() ? -2 : it->second;
      }
      ++comparisons;
      if (got_partner != partner[j]) {
        bad("chain:pairing", "column of position " + std::to_string(j) + " paired with position " + std::to_string(got_partner) +
                                 " want " + std::to_string(partner[j]));
        continue;
      }
      Vec d = md.boundary_of(C[j]);
      ++comparisons;
      if (partner[j] < 0 || partner[j] > j) {
        if (!is_zero(d)) bad(partner[j] < 0 ? "chain:unpaired_column_not_a_cycle" : "chain:birth_column_not_a_cycle",
                             "column of position " + std::to_string(j) + " = " + vstr(C[j]) + " has boundary " + vstr(d));
      } else {
        if (!(d == C[partner[j]]))
          bad("chain:boundary_of_paired_column", "column of position " + std::to_string(j) + " = " + vstr(C[j]) + " has boundary " +
                                                     vstr(d) + " but its partner (position " + std::to_string(partner[j]) +
                                                     ") is " + vstr(C[partner[j]]));
      }
      int nz = 0;
      for (int r = 0; r < n; ++r) if (C[j][r]) { ++nz; if (C[j][r] > 1 && C[j][r] < p - 1) cnt(NV_NONUNIT)++; }
      if (nz > 1) cnt(NV_CHAINMULTI)++;
    }
  }
  // class of a death / exception: without the prefix and suffix (added by bad())
  std::string crash_class(const std::string& ph, const std::string& kind) {
    return "crash:" + fl + ":" + idx_name(O::column_indexation_type) + ":" + ph + ":" + kind;
  }
};

}  // namespace pmc

#endif
