// C19 oracles (no GUDHI code): finite metric spaces of a small scope, the Rips filtration by brute force, persistence
// diagrams through ref::persistence, and a bottleneck-threshold decision by bipartite matching in log scale.
#ifndef VF_C19_ORACLE_HPP
#define VF_C19_ORACLE_HPP

#include "ref_complex.hpp"

#include <cmath>
#include <cstdio>
#include <functional>
#include <limits>
#include <string>
#include <vector>

namespace c19 {

static const double INF = std::numeric_limits<double>::infinity();

// -------------------------------------------------------------------------------------------------------------------
// a finite metric space, either an explicit distance matrix or integer points with the Euclidean distance
// -------------------------------------------------------------------------------------------------------------------
struct Metric {
  int n = 0;
  bool from_points = false;
  std::vector<std::vector<int>> pts;  // integer coordinates (from_points)
  std::vector<double> D;              // n*n, symmetric, zero diagonal
  double d(int i, int j) const { return D[(size_t)i * n + j]; }
  double& at(int i, int j) { return D[(size_t)i * n + j]; }
  std::string enc() const {  // replayable text
    std::string o;
    char b[64];
    if (from_points) {
      o = "P=";
      for (int i = 0; i < n; ++i) {
        if (i) o += "|";
        for (size_t c = 0; c < pts[i].size(); ++c) { snprintf(b, sizeof b, "%s%d", c ? ":" : "", pts[i][c]); o += b; }
      }
    } else {
      o = "D=";
      bool f = true;
      for (int i = 1; i < n; ++i)
        for (int j = 0; j < i; ++j) { snprintf(b, sizeof b, "%s%.17g", f ? "" : ",", d(i, j)); o += b; f = false; }
    }
    return o;
  }
};

// the distance function handed to GUDHI for point inputs, and used by the oracle: one definition, harness-side
inline double euclid(const std::vector<int>& a, const std::vector<int>& b) {
  double s = 0;
  for (size_t c = 0; c < a.size(); ++c) { double x = (double)a[c] - (double)b[c]; s += x * x; }
  return std::sqrt(s);
}

inline Metric metric_from_points(const std::vector<std::vector<int>>& pts) {
  Metric m;
  m.n = (int)pts.size();
  m.from_points = true;
  m.pts = pts;
  m.D.assign((size_t)m.n * m.n, 0);
  for (int i = 0; i < m.n; ++i) for (int j = 0; j < m.n; ++j) if (i != j) m.at(i, j) = euclid(pts[i], pts[j]);
  return m;
}
inline Metric metric_from_lower(int n, const std::vector<double>& low) {
  Metric m;
  m.n = n;
  m.D.assign((size_t)n * n, 0);
  size_t k = 0;
  for (int i = 1; i < n; ++i) for (int j = 0; j < i; ++j) { m.at(i, j) = m.at(j, i) = low[k++]; }
  return m;
}
inline bool is_metric(const Metric& m, double tol = 0) {
  for (int i = 0; i < m.n; ++i)
    for (int j = 0; j < m.n; ++j) {
      if (i != j && !(m.d(i, j) > 0)) return false;
      if (m.d(i, j) != m.d(j, i)) return false;
      for (int k = 0; k < m.n; ++k) if (m.d(i, j) > m.d(i, k) + m.d(k, j) + tol) return false;
    }
  return true;
}

// every labelled metric on n points with distances in vals (triangle inequality, distinct points), by backtracking
// over the lower triangle; canon_only: only the lexicographically smallest labelling of each isometry class
inline void enum_int_metrics(int n, const std::vector<int>& vals, bool canon_only,
                             const std::function<void(const Metric&)>& f) {
  std::vector<std::pair<int, int>> pos;
  for (int i = 1; i < n; ++i) for (int j = 0; j < i; ++j) pos.push_back({i, j});
  Metric m;
  m.n = n;
  m.D.assign((size_t)n * n, 0);
  std::vector<int> perm(n);
  auto is_canon = [&]() {
    for (int i = 0; i < n; ++i) perm[i] = i;
    while (std::next_permutation(perm.begin(), perm.end())) {
      int c = 0;
      for (auto& p : pos) {
        double a = m.d(perm[p.first], perm[p.second]), b = m.d(p.first, p.second);
        if (a != b) { c = a < b ? -1 : 1; break; }
      }
      if (c < 0) return false;
    }
    return true;
  };
  std::function<void(size_t)> rec = [&](size_t k) {
    if (k == pos.size()) {
      if (!canon_only || is_canon()) f(m);
      return;
    }
    int i = pos[k].first, j = pos[k].second;
    for (int v : vals) {
      bool ok = true;
      for (int t = 0; t < j && ok; ++t) {
        double a = m.d(i, t), b = m.d(j, t);
        if (v > a + b || a > v + b || b > v + a) ok = false;
      }
      if (!ok) continue;
      m.at(i, j) = m.at(j, i) = v;
      rec(k + 1);
    }
    m.at(i, j) = m.at(j, i) = 0;
  };
  if (n == 1) { f(m); return; }
  rec(0);
}

// every k-subset of {0..universe-1}, in lexicographic order
inline void enum_subsets(int universe, int k, const std::function<void(const std::vector<int>&)>& f) {
  std::vector<int> c(k);
  for (int i = 0; i < k; ++i) c[i] = i;
  if (k > universe) return;
  for (;;) {
    f(c);
    int i = k - 1;
    while (i >= 0 && c[i] == universe - k + i) --i;
    if (i < 0) break;
    ++c[i];
    for (int j = i + 1; j < k; ++j) c[j] = c[j - 1] + 1;
  }
}

// -------------------------------------------------------------------------------------------------------------------
// filtered complex on at most 16 labelled points, simplices as bit masks of their vertex sets (boring and fast)
// -------------------------------------------------------------------------------------------------------------------
struct MComplex {
  int n = 0;
  std::vector<char> in;      // in[mask] : simplex present
  std::vector<double> val;   // val[mask]: its filtration value
  size_t count = 0;
  explicit MComplex(int n_ = 0) : n(n_), in((size_t)1 << n_, 0), val((size_t)1 << n_, 0) {}
  bool has(unsigned m) const { return in[m] != 0; }
  void set(unsigned m, double v) { if (!in[m]) ++count; in[m] = 1; val[m] = v; }
  int dimension() const {
    int d = -1;
    for (unsigned m = 1; m < in.size(); ++m) if (in[m]) d = std::max(d, __builtin_popcount(m) - 1);
    return d;
  }
  bool closed_under_faces() const {
    for (unsigned m = 1; m < in.size(); ++m)
      if (in[m]) for (int i = 0; i < n; ++i) if ((m >> i & 1) && (m & ~(1u << i)) && !in[m & ~(1u << i)]) return false;
    return true;
  }
  bool monotone() const {  // a facet never has a larger value (with closure under faces: every face)
    for (unsigned m = 1; m < in.size(); ++m)
      if (in[m]) for (int i = 0; i < n; ++i) {
        unsigned f = m & ~(1u << i);
        if ((m >> i & 1) && f && in[f] && val[f] > val[m]) return false;
      }
    return true;
  }
  bool has_nan() const {
    for (unsigned m = 1; m < in.size(); ++m) if (in[m] && std::isnan(val[m])) return true;
    return false;
  }
  static std::string name(unsigned m) {
    std::string o = "[";
    for (int i = 0; i < 32; ++i) if (m >> i & 1) { if (o.size() > 1) o += " "; o += std::to_string(i); }
    return o + "]";
  }
  std::string key() const {
    std::string o;
    char b[40];
    for (unsigned m = 1; m < in.size(); ++m) if (in[m]) { snprintf(b, sizeof b, ":%.9g;", val[m]); o += name(m) + b; }
    return o;
  }
};

// Rips filtration by brute force: every subset of at most dim_max+1 points, value = largest pairwise distance
inline MComplex rips(const Metric& m, int dim_max) {
  MComplex c(m.n);
  for (unsigned mask = 1; mask < (1u << m.n); ++mask) {
    if (__builtin_popcount(mask) > dim_max + 1) continue;
    double v = 0;
    for (int a = 0; a < m.n; ++a) for (int b = a + 1; b < m.n; ++b) if ((mask >> a & 1) && (mask >> b & 1)) v = std::max(v, m.d(a, b));
    c.set(mask, v);
  }
  return c;
}

// -------------------------------------------------------------------------------------------------------------------
// persistence diagrams of a filtered complex (must be closed under faces and monotone), by ref::persistence over Z_p
// -------------------------------------------------------------------------------------------------------------------
struct Pt { double b, d; };
using Diagram = std::vector<Pt>;  // one dimension, zero-length intervals dropped

inline std::vector<Diagram> diagrams(const MComplex& c, int p, int ndims) {
  std::vector<unsigned> order;
  for (unsigned m = 1; m < c.in.size(); ++m) if (c.in[m]) order.push_back(m);
  std::sort(order.begin(), order.end(), [&](unsigned a, unsigned b) {
    if (c.val[a] != c.val[b]) return c.val[a] < c.val[b];
    int pa = __builtin_popcount(a), pb = __builtin_popcount(b);
    if (pa != pb) return pa < pb;
    return a < b;
  });
  std::vector<int> idx(c.in.size(), -1);
  for (size_t i = 0; i < order.size(); ++i) idx[order[i]] = (int)i;
  std::vector<ref::Cell> cells(order.size());
  for (size_t i = 0; i < order.size(); ++i) {
    unsigned m = order[i];
    cells[i].dim = __builtin_popcount(m) - 1;
    if (cells[i].dim == 0) continue;
    int k = 0;  // position of the omitted vertex: boundary = sum (-1)^k [.. omit k-th ..]
    for (int v = 0; v < c.n; ++v) if (m >> v & 1) { cells[i].bd.push_back({idx[m & ~(1u << v)], (k % 2 == 0) ? 1 : -1}); ++k; }
  }
  std::vector<ref::Pair> pairs = ref::persistence(cells, p);
  std::vector<Diagram> out(ndims);
  for (auto& pr : pairs) {
    if (pr.dim >= ndims) continue;
    double b = c.val[order[pr.birth]];
    double d = pr.death < 0 ? INF : c.val[order[pr.death]];
    if (b == d) continue;
    out[pr.dim].push_back({b, d});
  }
  return out;
}

// -------------------------------------------------------------------------------------------------------------------
// bottleneck threshold decision in log scale.  A point (b,d) becomes (log b, log d); log 0 = -inf, log inf = +inf.
// Coordinates that are both -inf (or both +inf) are at distance 0; an infinite coordinate is at infinite distance of a
// finite one; a point with an infinite coordinate cannot be sent to the diagonal.
// -------------------------------------------------------------------------------------------------------------------
inline Pt to_log(const Pt& x) { return {std::log(x.b), std::isinf(x.d) ? INF : std::log(x.d)}; }
inline double cdiff(double x, double y) {
  if (x == y) return 0;
  if (std::isinf(x) || std::isinf(y)) return INF;
  return std::fabs(x - y);
}
inline double pt_cost(const Pt& a, const Pt& b) { return std::max(cdiff(a.b, b.b), cdiff(a.d, b.d)); }
inline double diag_cost(const Pt& a) { return (std::isinf(a.b) || std::isinf(a.d)) ? INF : (a.d - a.b) / 2; }

// is there a perfect matching of (A + projections of B) with (B + projections of A) using only pairs of cost <= delta
inline bool matching_within(const Diagram& A, const Diagram& B, double delta) {  // A, B already in log scale
  size_t na = A.size(), nb = B.size(), N = na + nb;
  if (N == 0) return true;
  std::vector<std::vector<int>> adj(N);
  for (size_t i = 0; i < na; ++i) {
    for (size_t j = 0; j < nb; ++j) if (pt_cost(A[i], B[j]) <= delta) adj[i].push_back((int)j);
    if (diag_cost(A[i]) <= delta) adj[i].push_back((int)(nb + i));
  }
  for (size_t j = 0; j < nb; ++j) {
    if (diag_cost(B[j]) <= delta) adj[na + j].push_back((int)j);
    for (size_t i = 0; i < na; ++i) adj[na + j].push_back((int)(nb + i));
  }
  std::vector<int> match_r(N, -1);
  std::vector<char> seen;
  std::function<bool(int)> aug = [&](int u) -> bool {
    for (int v : adj[u]) {
      if (seen[v]) continue;
      seen[v] = 1;
      if (match_r[v] < 0 || aug(match_r[v])) { match_r[v] = u; return true; }
    }
    return false;
  };
  for (size_t u = 0; u < N; ++u) {
    seen.assign(N, 0);
    if (!aug((int)u)) return false;
  }
  return true;
}

// exact log-bottleneck distance (smallest feasible threshold among the candidate costs), +inf if none
inline double log_bottleneck(const Diagram& A, const Diagram& B) {
  std::vector<double> cand{0};
  for (auto& a : A) { cand.push_back(diag_cost(a)); for (auto& b : B) cand.push_back(pt_cost(a, b)); }
  for (auto& b : B) cand.push_back(diag_cost(b));
  std::sort(cand.begin(), cand.end());
  cand.erase(std::unique(cand.begin(), cand.end()), cand.end());
  while (!cand.empty() && std::isinf(cand.back())) cand.pop_back();
  if (cand.empty() || !matching_within(A, B, cand.back())) return INF;
  size_t lo = 0, hi = cand.size() - 1;
  while (lo < hi) {
    size_t mid = (lo + hi) / 2;
    if (matching_within(A, B, cand[mid])) hi = mid; else lo = mid + 1;
  }
  return cand[lo];
}

inline Diagram log_diagram(const Diagram& d) {
  Diagram r;
  for (auto& x : d) r.push_back(to_log(x));
  return r;
}
inline std::string diagram_str(const Diagram& d) {
  std::string o;
  char b[80];
  for (auto& x : d) { snprintf(b, sizeof b, "(%.6g,%.6g)", x.b, x.d); o += b; }
  return o.empty() ? "-" : o;
}

}  // namespace c19

#endif
