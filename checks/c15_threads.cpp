// C15 (threads part) - independent objects used from different threads: every interleaving of 2 (thorough: 3) threads at
// allocation/deallocation points with a bounded number of preemptions; each thread's result must equal the
// sequential result.  With -DVF_FREE_RUN the same bodies run unscheduled (for ThreadSanitizer, sampling).
#ifndef VF_FREE_RUN
#include "sched.hpp"
#else
#include "harness.hpp"
#include <thread>
#endif

#include <gudhi/Simplex_tree.h>
#include <gudhi/Persistent_cohomology.h>
#include <gudhi/Persistent_cohomology/Field_Zp.h>
#include <gudhi/Matrix.h>
#include <gudhi/persistence_matrix_options.h>
#include <gudhi/zigzag_persistence.h>

#include <functional>
#include <sstream>

struct Opt_link : Gudhi::Simplex_tree_options_default { static const bool link_nodes_by_label = true; };

static std::string g_result[4];

template <class ST>
static std::string tree_digest(ST& st) {
  std::ostringstream o;
  st.clear_filtration();
  for (auto sh : st.filtration_simplex_range()) {
    for (auto v : st.simplex_vertex_range(sh)) o << v << ".";
    o << "@" << st.filtration(sh) << " ";
  }
  return o.str();
}

// body A: insertions with all faces + persistence
template <class ST>
static void body_tree(int id, int base, int prime) {
  ST st;
  st.insert_simplex_and_subfaces({base, base + 1, base + 2}, 1.0 + id);
  st.insert_simplex_and_subfaces({base + 1, base + 2, base + 3}, 2.0 + id);
  st.insert_simplex_and_subfaces({base, base + 3}, 0.5);
  st.insert_simplex({base + 4}, 0.25);
  st.make_filtration_non_decreasing();
  std::ostringstream o;
  o << tree_digest(st) << "|";
  {
    Gudhi::persistent_cohomology::Persistent_cohomology<ST, Gudhi::persistent_cohomology::Field_Zp> pc(st, true);
    pc.init_coefficients(prime);
    pc.compute_persistent_cohomology(-1);
    std::vector<std::string> ps;
    for (auto& p : pc.get_persistent_pairs()) {
      std::ostringstream q;
      q << st.dimension(std::get<0>(p)) << ":" << st.filtration(std::get<0>(p)) << ":" << st.filtration(std::get<1>(p));
      ps.push_back(q.str());
    }
    std::sort(ps.begin(), ps.end());
    for (auto& s : ps) o << s << " ";
  }
  // star / cofaces and a removal
  for (auto sh : st.star_simplex_range(st.find({base + 1}))) o << st.dimension(sh);
  st.remove_maximal_simplex(st.find({base, base + 1, base + 2}));
  o << "|" << st.dimension() << "|" << st.num_simplices();
  g_result[id] = o.str();
}

// body B: flag expansion route
static void body_expansion(int id, int n) {
  using ST = Gudhi::Simplex_tree<>;
  ST st;
  for (int i = 0; i < n; ++i) st.insert_simplex({i}, 0.);
  for (int i = 0; i < n; ++i) for (int j = i + 1; j < n; ++j) if ((i + j + id) % 3 != 0) st.insert_simplex({i, j}, 1.0 + ((i * j + id) % 2));
  st.expansion(3);
  std::ostringstream o;
  o << tree_digest(st) << "|" << st.dimension();
  g_result[id] = o.str();
}

struct Matrix_thread_opts : Gudhi::persistence_matrix::Default_options<Gudhi::persistence_matrix::Column_types::INTRUSIVE_SET, true> {
  static const bool has_column_pairings = true;
  static const bool has_vine_update = true;
  static const bool can_retrieve_representative_cycles = false;
};
// body C: a persistence matrix (RU, vine-capable) on a small complex
static void body_matrix(int id) {
  using namespace Gudhi::persistence_matrix;
  Matrix<Matrix_thread_opts> m;
  // triangle + edge, order depends on id
  m.insert_boundary({});
  m.insert_boundary({});
  m.insert_boundary({});
  m.insert_boundary({0, 1});
  m.insert_boundary({1, 2});
  m.insert_boundary({0, 2});
  m.insert_boundary({3, 4, 5});
  if (id % 2) m.vine_swap(3);
  std::ostringstream o;
  std::vector<std::string> bars;
  for (auto& b : m.get_current_barcode()) {
    std::ostringstream q;
    q << b.dim << ":" << b.birth << ":" << (long long)b.death;
    bars.push_back(q.str());
  }
  std::sort(bars.begin(), bars.end());
  for (auto& s : bars) o << s << " ";
  g_result[id] = o.str();
}

// body D: other matrix flavours (chain with vine/representatives, plain boundary, base) and zigzag persistence
struct Chain_thread_opts : Gudhi::persistence_matrix::Default_options<Gudhi::persistence_matrix::Column_types::INTRUSIVE_LIST, true> {
  static const bool has_column_pairings = true;
  static const bool is_of_boundary_type = false;
  static const bool has_vine_update = true;
  static const bool can_retrieve_representative_cycles = true;
  static const Gudhi::persistence_matrix::Column_indexation_types column_indexation_type =
      Gudhi::persistence_matrix::Column_indexation_types::POSITION;
};
struct Boundary_thread_opts : Gudhi::persistence_matrix::Default_options<Gudhi::persistence_matrix::Column_types::VECTOR, false> {
  static const bool has_column_pairings = true;
};
template <class M>
static std::string matrix_digest(M& m) {
  std::ostringstream o;
  std::vector<std::string> bars;
  for (auto& b : m.get_current_barcode()) {
    std::ostringstream q;
    q << b.dim << ":" << b.birth << ":" << (long long)b.death;
    bars.push_back(q.str());
  }
  std::sort(bars.begin(), bars.end());
  for (auto& s : bars) o << s << " ";
  return o.str();
}
// boundaries of the 2-skeleton of a tetrahedron, order rotated by id
static std::vector<std::vector<unsigned>> tetra_boundaries() {
  return {{}, {}, {}, {}, {0, 1}, {0, 2}, {1, 2}, {0, 3}, {1, 3}, {2, 3}, {4, 5, 6}, {4, 7, 8}, {5, 7, 9}, {6, 8, 9}};
}
static void body_chain(int id) {
  using namespace Gudhi::persistence_matrix;
  Matrix<Chain_thread_opts> m;
  for (auto& b : tetra_boundaries()) m.insert_boundary(b);
  std::ostringstream o;
  o << matrix_digest(m);
  if (id % 2) m.vine_swap(4);
  o << "|" << matrix_digest(m);
  m.update_representative_cycles();
  o << "|" << m.get_representative_cycles().size();
  g_result[id] = o.str();
}
static void body_boundary(int id) {
  using namespace Gudhi::persistence_matrix;
  Matrix<Boundary_thread_opts> m(7, 5);
  std::vector<std::vector<std::pair<unsigned, unsigned>>> bs = {{}, {}, {}, {{0, 4}, {1, 1}}, {{1, 4}, {2, 1}}, {{0, 4}, {2, 1}}, {{3, 1}, {4, 1}, {5, 4}}};
  for (auto& b : bs) m.insert_boundary(b);
  g_result[id] = matrix_digest(m) + (id ? "" : "");
}
static void body_zigzag(int id) {
  std::ostringstream o;
  Gudhi::zigzag_persistence::Zigzag_persistence<> zp([&](int dim, int b, int d) { o << dim << ":" << b << ":" << d << " "; });
  using V = std::vector<int>;
  zp.insert_cell(V{}, 0);          // 0
  zp.insert_cell(V{}, 0);          // 1
  zp.insert_cell(V{}, 0);          // 2
  zp.insert_cell(V{0, 1}, 1);      // 3
  zp.insert_cell(V{1, 2}, 1);      // 4
  zp.insert_cell(V{0, 2}, 1);      // 5
  if (id % 2) { zp.insert_cell(V{3, 4, 5}, 2); zp.remove_cell(6); }
  zp.remove_cell(5);
  zp.remove_cell(4);
  zp.insert_cell(V{1, 2}, 1);
  zp.get_current_infinite_intervals([&](int dim, int b) { o << dim << ":" << b << ":inf "; });
  g_result[id] = o.str();
}

static std::vector<std::function<void()>> make_bodies(const std::string& scenario, int nthreads) {
  std::vector<std::function<void()>> b;
  for (int i = 0; i < nthreads; ++i) {
    if (scenario == "tree") b.push_back([i]() { body_tree<Gudhi::Simplex_tree<>>(i, 10 * i, i == 0 ? 2 : 3); });
    else if (scenario == "tree_link") b.push_back([i]() { body_tree<Gudhi::Simplex_tree<Opt_link>>(i, 10 * i, 3); });
    else if (scenario == "expansion") b.push_back([i]() { body_expansion(i, 5); });
    else if (scenario == "matrix") b.push_back([i]() { body_matrix(i); });
    else if (scenario == "chain") b.push_back([i]() { body_chain(i); });
    else if (scenario == "boundary") b.push_back([i]() { body_boundary(i); });
    else if (scenario == "zigzag") b.push_back([i]() { body_zigzag(i); });
    else if (scenario == "mixed") {
      if (i == 0) b.push_back([i]() { body_tree<Gudhi::Simplex_tree<>>(i, 0, 2); });
      else if (i == 1) b.push_back([i]() { body_expansion(i, 5); });
      else b.push_back([i]() { body_matrix(i); });
    }
  }
  return b;
}
static std::string collect(int n) {
  std::string s;
  for (int i = 0; i < n; ++i) s += "T" + std::to_string(i) + "=" + g_result[i] + ";";
  return s;
}

int main(int argc, char** argv) {
  vf::Args a = vf::parse_args(argc, argv);
  vf::install_handlers();
  double t0 = vf::now_s();
  std::string scenario = a.get("scenario", "tree");
  int nthreads = (int)a.geti("threads", 2);
  int bound = (int)a.geti("bound", 1);
  // sequential reference
  {
    auto bodies = make_bodies(scenario, nthreads);
    for (auto& f : bodies) f();
  }
  std::string expected = collect(nthreads);
  for (auto& r : g_result) r.clear();
#ifndef VF_FREE_RUN
  auto mk = [&]() { return make_bodies(scenario, nthreads); };
  auto col = [&]() { return collect(nthreads); };
  std::string tag = "scenario=" + scenario + ";threads=" + std::to_string(nthreads);
  if (!a.replay.empty()) {
    auto kv = vf::parse_kv(a.replay);
    std::vector<int> prefix = vf::parse_ints(kv["schedule"]);
    vf::set_case(a.replay);
    for (int rep = 0; rep < 2; ++rep) {
      sch::RunResult r = sch::run_in_child(mk, col, prefix, 40);
      if (!r.ok) vf::mismatch("C15:threads:schedule-crashed-or-hung", a.replay);
      else if (r.outcome != expected) vf::mismatch("C15:threads:result-differs-from-sequential", a.replay);
    }
    vf::finish();
    return 0;
  }
  sch::ExploreStats st;
  long long total = 0;
  bool all_complete = true;
  int done_bound = -1;
  for (int b = 0; b <= bound; ++b) {  // iterate the bound: 0, then 1, then 2 ...
    sch::ExploreStats sb;
    bool complete = true;
    sch::explore(mk, col, b, expected, tag + ";bound=" + std::to_string(b), sb, t0 + (double)a.geti("budget", 200), complete);
    total += sb.schedules;
    vf::stats().add("schedules.bound" + std::to_string(b), sb.schedules);
    vf::stats().maxi("points_in_a_schedule", sb.points_max);
    for (auto& o : sb.outcomes) vf::stats().distinct("outcomes", o);
    if (!complete) { all_complete = false; break; }
    done_bound = b;
  }
  vf::stats().maxi("completed_preemption_bound." + scenario, done_bound);
  vf::stats().add("ev.states", total);
  vf::stats().add("ev.transitions", total);
  vf::stats().add("ev.traces", total);
  vf::stats().add("ev.evaluations", total);
  vf::stats().add("ev.nontrivial", total > 1 ? total - 1 : 0);
  if (!all_complete) vf::stats().add("ev.incomplete", 1);
  vf::stats().sample(tag + ";expected=" + expected.substr(0, 200));
#else
  // free-running pass for ThreadSanitizer (a detector; sampling)
  int reps = (int)a.geti("reps", 50);
  for (int r = 0; r < reps; ++r) {
    auto bodies = make_bodies(scenario, nthreads);
    std::vector<std::thread> th;
    for (auto& f : bodies) th.emplace_back(f);
    for (auto& t : th) t.join();
    if (collect(nthreads) != expected) vf::mismatch("C15:threads(free-run):result-differs-from-sequential", scenario);
    vf::stats().add("free_runs(sampled)");
  }
  vf::stats().add("ev.states", 1);
  vf::stats().add("ev.transitions", reps);
  vf::stats().add("ev.traces", reps);
  vf::stats().add("ev.evaluations", reps);
  vf::stats().add("ev.nontrivial", 2);
#endif
  vf::finish();
  return 0;
}
