// C05 - every persistence-matrix flavour computes the same, correct barcode and keeps its defining identities.
// E1 (bounded, no merging): every history over {insert_boundary(cell), remove_last} on small cell universes is executed on
// a fresh real Gudhi::persistence_matrix::Matrix<Options> for each option set of this unit (-DVF_CFG=k), each field and
// each identifier scheme, and the whole observable state after the last operation is compared with an independent
// dense reduction over Z_p (ref::persistence) and with the identities named in the property.
#include "pm_verify.hpp"
#include "pm_configs.hpp"

using namespace pmc;

// sanitizer reports of isolated children are kept short (no symbolization: a report costs ~0.2 s otherwise and
// configurations hit by a crash defect die often); replay a case with ASAN_OPTIONS=symbolize=1 to get file:line
extern "C" const char* __asan_default_options() { return "symbolize=0:fast_unwind_on_fatal=1"; }
extern "C" const char* __ubsan_default_options() { return "symbolize=0"; }

template <class O>
struct Check : Verifier<O> {
  using E = Exec<O>;
  using Verifier<O>::cfg;
  using Verifier<O>::fl;
  using Verifier<O>::comparisons;
  using Verifier<O>::bad;
  using Verifier<O>::crash_class;
  using Verifier<O>::run_boundary;
  using Verifier<O>::run_ru;
  using Verifier<O>::run_chain;

  void run_case(const Universe& U, int p, int idm, int ctor, const std::vector<int>& ops) {
    vf::set_case(case_string(cfg, U, p, idm, ctor, ops));
    HistInfo hi = hist_info(ops);
    g_cls_suffix = hi.empty_remove ? ":history_with_remove_last_on_empty_matrix" : "";
    long long c0 = comparisons;
    long long calls = 0;
    try {
      E ex(U, p, idm, ctor);
      if constexpr (O::flavour == F_BOUNDARY) run_boundary(ex, ops);
      else if constexpr (O::flavour == F_RU) run_ru(ex, ops);
      else run_chain(ex, ops);
      calls = ex.calls;
      phase("destructor");
    } catch (const std::out_of_range& e) {
      bad(crash_class(g_phase, "exception_out_of_range"), std::string("exception thrown: ") + e.what());
    } catch (const std::exception& e) {
      bad(crash_class(g_phase, "exception"), std::string("exception thrown: ") + e.what());
    }
    phase("between_cases");
    vf::end_case();
    cnt(EV_TRACES)++;
    cnt(EV_TRANSITIONS) += calls;
    cnt(EV_EVALUATIONS) += comparisons - c0;
    if (hi.removes > 0 || hi.inserts >= 3) cnt(EV_NONTRIVIAL)++;
    if (hi.removes > 0) cnt(NV_REMHIST)++;
    if (hi.empty_remove) cnt(NV_EMPTYREM)++;
    cnt(CASES_FIRST + O::flavour * 2 + (O::is_z2 ? 0 : 1))++;
  }
};

template <class T>
struct Tag { using type = T; };
template <class F, class... Os>
void for_each_config(List<Os...>, F&& f) { (f(Tag<Os>{}), ...); }

struct PlanItem { std::string u; int max_ins, max_rem; std::vector<int> primes; bool empty_remove = false; };

int main(int argc, char** argv) {
  vf::Args a = vf::parse_args(argc, argv);
  vf::install_handlers();
  vf::g_case_timeout = 6;
  shared_init();
  bool thorough = a.thorough();
  g_tail = a.geti("tail", 1) != 0;
  double t0 = vf::now_s();
  double budget = (double)a.geti("budget", thorough ? 2000 : 400);

  auto finish = [&]() {
    auto& st = vf::stats();
    for (int i = 0; i < CASES_FIRST + 6; ++i) st.add(counter_names[i], cnt(i));
    st.add("ev.states", cnt(EV_TRACES));  // every case is a distinct input (configuration, field, identifiers, call sequence)
    st.add("ev.incomplete", g_sh->incomplete ? 1 : 0);
    st.mismatches = cnt(MISMATCHES);
    vf::finish();
  };

  if (!a.replay.empty()) {
    auto kv = vf::parse_kv(a.replay);
    Universe U = make_universe(kv["u"]);
    int p = atoi(kv["p"].c_str()), idm = atoi(kv["idm"].c_str()), ctor = atoi(kv["ctor"].c_str());
    std::vector<int> ops = vf::parse_ints(kv["ops"]);
    bool found = false;
    for_each_config(Group{}, [&](auto tag) {
      using O = typename decltype(tag)::type;
      if (opt_name<O>() != kv["cfg"]) return;
      found = true;
      Check<O> c;
      HistInfo hi = hist_info(ops);
      std::string suffix = hi.empty_remove ? ":history_with_remove_last_on_empty_matrix" : "";
      run_isolated(
          1, [&](size_t) { c.run_case(U, p, idm, ctor, ops); return true; },
          [&](size_t) { return case_string(c.cfg, U, p, idm, ctor, ops); },
          [&](const std::string& ph, const std::string& kind) { return with_suffix("C05:" + c.crash_class(ph, kind), suffix); }, EV_TRACES);
    });
    if (!found) fprintf(stderr, "configuration %s is not in this unit\n", kv["cfg"].c_str());
    finish();
    return found ? 0 : 2;
  }

  // plan: universe:max_insertions:max_remove_last, ...
  std::vector<PlanItem> plan;
  {
    std::string s = a.get("plan", thorough ? "tet:8:1:2+3,tet:7:2:2+3+5,tri:7:4:2+3,square:9:1:2+3,strip:7:1:2+3,cw:7:2:2+3+5"
                                      : "tet:7:2:2,tet:6:2:3,square:6:1:2+3,cw:6:1:2+3+5,tet:4:3:2+3:e"), cur;
    for (char ch : s + ",") {
      if (ch != ',') { cur += ch; continue; }
      if (cur.empty()) continue;
      PlanItem it;
      size_t c1 = cur.find(':'), c2 = cur.find(':', c1 + 1), c3 = cur.find(':', c2 + 1);
      it.u = cur.substr(0, c1);
      it.max_ins = atoi(cur.substr(c1 + 1, c2 - c1 - 1).c_str());
      it.max_rem = atoi(cur.substr(c2 + 1, c3 == std::string::npos ? std::string::npos : c3 - c2 - 1).c_str());
      if (c3 != std::string::npos) {  // optional: primes of this item, then ":e" = also remove_last on an empty matrix
        size_t c4 = cur.find(':', c3 + 1);
        it.primes = vf::parse_ints(cur.substr(c3 + 1, c4 == std::string::npos ? std::string::npos : c4 - c3 - 1), '+');
        it.empty_remove = c4 != std::string::npos && cur.substr(c4 + 1) == "e";
      }
      plan.push_back(it);
      cur.clear();
    }
  }
  std::vector<int> primes = vf::parse_ints(a.get("primes", thorough ? "2,3,5" : "2,3"));
  // (idmode, ctor) combinations, written idmode*10+ctor
  std::vector<int> modes = vf::parse_ints(a.get("modes", thorough ? "00,11,20,31,41,01,21,40" : "00,11,20,41"));

  for (auto& item : plan) {
    Universe U = make_universe(item.u);
    HistoryBounds hb;
    hb.max_ins = item.max_ins;
    hb.max_rem = item.max_rem;
    hb.empty_remove = item.empty_remove;
    for (int p : item.primes.empty() ? primes : item.primes) {
      long long raw = 0;
      auto H = enumerate_histories(U, hb, p, &raw);
      vf::stats().add("histories_enumerated_raw", raw);
      vf::stats().add("histories_distinct_call_sequences", (long long)H.size());
      vf::stats().maxi("max_history_length", (long long)(hb.max_ins + hb.max_rem));
      if (H.size() > 3) vf::stats().sample(case_string("(every configuration of the unit)", U, p, 0, 0, H[H.size() / 2]), 8);
      std::vector<HistInfo> info;
      for (auto& h : H) info.push_back(hist_info(h));
      for_each_config(Group{}, [&](auto tag) {
        using O = typename decltype(tag)::type;
        if (O::is_z2 && p != 2) return;
        Check<O> c;
        vf::stats().distinct("configs", c.cfg);
        for (int mc : modes) {
          int idm = mc / 10, ctor = mc % 10;
          std::vector<size_t> sel;
          for (size_t i = 0; i < H.size(); ++i) {
            if ((int)(i % (size_t)a.nshards) != a.shard) continue;
            if (info[i].removes > 0 && !Exec<O>::CAN_REMOVE) continue;
            // default identifiers after a removal: the documentation is ambiguous (position vs insertion count), not generated
            if (idm == 0 && info[i].insert_after_remove) continue;
            sel.push_back(i);
          }
          std::stable_partition(sel.begin(), sel.end(), [&](size_t i) { return !info[i].empty_remove; });
          size_t left = run_isolated(
              sel.size(),
              [&](size_t k) {
                if (vf::now_s() - t0 > budget) return false;
                c.run_case(U, p, idm, ctor, H[sel[k]]);
                return true;
              },
              [&](size_t k) { return case_string(c.cfg, U, p, idm, ctor, H[sel[k]]); },
              [&](const std::string& ph, const std::string& kind) {
                return with_suffix("C05:" + c.crash_class(ph, kind),
                                   info[sel[g_sh->cur]].empty_remove ? ":history_with_remove_last_on_empty_matrix" : "");
              },
              EV_TRACES);
          if (left) {
            vf::stats().add("cases_not_executed_after_repeated_deaths", (long long)left);
            vf::stats().add("blocks_abandoned_after_repeated_deaths");
            g_sh->incomplete = 1;
          }
        }
      });
    }
  }
  finish();
  return 0;
}
