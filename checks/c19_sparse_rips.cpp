// C19 - The sparse Rips filtration stays within its approximation guarantee.
// E2 bounded-exhaustive input enumeration: every finite metric space of a small scope x every starting point of the
// farthest-point ordering x every epsilon / bound / maximal-dimension configuration is given to the real
// Gudhi::rips_complex::Sparse_rips_complex + Simplex_tree; the output complex is read back and compared with
//   (a) validity: closed under faces, monotone, no NaN, dimension <= dim_max                      (every configuration)
//   (b) filtered subcomplex of the brute-force Rips filtration, values >= Rips values            (epsilon < 1)
//   (c) log-bottleneck(D_sparse, D_rips) <= log(1/(1-epsilon)) in every dimension < dim_max      (epsilon < 1, no bounds)
//   (d) the farthest-point order and insertion radii are a greedy permutation of the input       (every build)
// The only entropy source of the class (std::random_device picking the first landmark) is replaced by a deterministic
// stand-in so that every starting point is enumerated through the unmodified constructor.
#include "harness.hpp"
#include "c19_oracle.hpp"

// everything choose_n_farthest_points.h includes, first, so that the macro below only touches that header
#include <boost/version.hpp>
#include <boost/range.hpp>
#include <boost/range/irange.hpp>
#include <boost/heap/d_ary_heap.hpp>
#if BOOST_VERSION >= 108100
#include <boost/unordered/unordered_flat_set.hpp>
#else
#include <boost/unordered_set.hpp>
#endif
#include <iterator>
#include <limits>
#include <memory>
#include <random>
#include <utility>
#include <vector>
#include <gudhi/Null_output_iterator.h>
#include <gudhi/Simplex_tree.h>

namespace vfrd { static unsigned g_seed = 0; static long g_draws = 0; }
namespace std {
struct vf_random_device {
  typedef unsigned result_type;
  unsigned operator()() { ++vfrd::g_draws; return vfrd::g_seed; }
  static constexpr unsigned min() { return 0; }
  static constexpr unsigned max() { return ~0u; }
};
}  // namespace std
#define random_device vf_random_device
#include <gudhi/choose_n_farthest_points.h>
#undef random_device
#include <gudhi/Sparse_rips_complex.h>

#ifndef VF_FLOAT
using FV = double;
using STOpt = Gudhi::Simplex_tree_options_default;
static const double TOL = 1e-9;
static const char* fv_name = "double";
#else
using FV = float;
struct STOpt : Gudhi::Simplex_tree_options_default { typedef float Filtration_value; };
static const double TOL = 2e-6;  // relative rounding of float values, absolute in log scale
static const char* fv_name = "float";
#endif
using ST = Gudhi::Simplex_tree<STOpt>;
using SR = Gudhi::rips_complex::Sparse_rips_complex<FV>;
using c19::Metric;
using c19::INF;

// seed such that the constructor's "uniform_int_distribution(0,n-1)(mt19937(seed))" picks `start`
static unsigned seed_for(int n, int start) {
  static std::map<std::pair<int, int>, unsigned> cache;
  auto it = cache.find({n, start});
  if (it != cache.end()) return it->second;
  for (unsigned s = 0;; ++s) {
    std::mt19937 gen(s);
    std::uniform_int_distribution<std::size_t> dis(0, n - 1);
    if ((int)dis(gen) == start) { cache[{n, start}] = s; return s; }
  }
}

static double parse_bound(const std::string& s, double none) { return s == "none" ? none : atof(s.c_str()); }
static std::vector<std::string> split(const std::string& s, char sep = ',') {
  std::vector<std::string> r;
  std::string cur;
  for (char ch : s) { if (ch == sep) { if (!cur.empty()) r.push_back(cur); cur.clear(); } else cur += ch; }
  if (!cur.empty()) r.push_back(cur);
  return r;
}

struct RipsInfo {
  c19::MComplex full;                      // Rips filtration, all dimensions
  std::vector<c19::Diagram> logdiag;       // per dimension 0..n-2, log scale
  std::vector<c19::Diagram> diag;
};

static int g_prime = 2;
// every distance (and finite mini / maxi) is handed to the library multiplied by 2^g_scale2, and radii / filtration values
// are divided by it when read back: an exact operation in binary floating point, so the construction must come out
// identical at every scale (the property does not fix a unit of length)
static int g_scale2 = 0;
static double scale() { return std::ldexp(1.0, g_scale2); }

static RipsInfo rips_info(const Metric& M) {
  RipsInfo R;
  R.full = c19::rips(M, M.n - 1);
  R.diag = c19::diagrams(R.full, g_prime, std::max(1, M.n - 1));
  for (auto& d : R.diag) R.logdiag.push_back(c19::log_diagram(d));
  return R;
}

struct Build {  // one constructed Sparse_rips_complex
  std::unique_ptr<SR> sr;
  std::vector<std::vector<FV>> dm;
  std::vector<std::vector<int>> pts;
};

struct Group {
  const Metric* M;
  const RipsInfo* R;
  int start;
  std::string eps_s, mini_s, maxi_s;
  double eps, mini, maxi;
  bool bounded() const { return mini_s != "none" || maxi_s != "none"; }
  std::string case_str(int dim) const {
    std::ostringstream o;
    o << "fv=" << fv_name << ";n=" << M->n << ";" << M->enc() << ";start=" << start << ";eps=" << eps_s << ";mini=" << mini_s
      << ";maxi=" << maxi_s << ";dim=" << dim;
    if (g_scale2) o << ";scale2=" << g_scale2;
    return o.str();
  }
};

static void construct(const Group& g, Build& b) {
  const Metric& M = *g.M;
  vfrd::g_seed = seed_for(M.n, g.start);
  const double sc = scale();
  FV mini = (FV)(g.mini * sc), maxi = (FV)(g.maxi * sc);
  if (M.from_points) {
    b.pts = M.pts;
    auto dist = [sc](const std::vector<int>& p, const std::vector<int>& q) { return (FV)((FV)c19::euclid(p, q) * (FV)sc); };
    if (g.bounded()) b.sr.reset(new SR(b.pts, dist, g.eps, mini, maxi));
    else b.sr.reset(new SR(b.pts, dist, g.eps));
  } else {
    b.dm.assign(M.n, {});
    for (int i = 0; i < M.n; ++i) for (int j = 0; j < i; ++j) b.dm[i].push_back((FV)((FV)M.d(i, j) * (FV)sc));
    if (g.bounded()) b.sr.reset(new SR(b.dm, g.eps, mini, maxi));
    else b.sr.reset(new SR(b.dm, g.eps));
  }
  vf::stats().add("api.constructor");
}

// (d) the order and radii produced for this input are a greedy (farthest-first) permutation
static void check_greedy(const Group& g, const SR& sr) {
  const Metric& M = *g.M;
  vf::Stats& S = vf::stats();
  S.add("ev.transitions");
  int n = M.n;
  const auto& sp = sr.sorted_points;
  std::vector<FV> pr(sr.params.begin(), sr.params.end());
  for (auto& x : pr) x = (FV)(x / (FV)scale());
  std::ostringstream got;
  got << "order=" << vf::join(sp) << " radii=" << vf::join(pr);
  if ((int)sp.size() != n || (int)pr.size() != n) { vf::mismatch("C19:farthest_points:size", got.str()); return; }
  std::vector<int> sorted(sp.begin(), sp.end());
  std::sort(sorted.begin(), sorted.end());
  for (int i = 0; i < n; ++i) if (sorted[i] != i) { vf::mismatch("C19:farthest_points:not_a_permutation", got.str()); return; }
  if (sp[0] != g.start) { vf::mismatch("C19:engine:start_not_controlled", got.str()); return; }
  if (!(pr[0] == std::numeric_limits<FV>::infinity())) vf::mismatch("C19:farthest_points:first_radius", got.str());
  bool tie = false;
  for (int i = 1; i < n; ++i) {
    auto dist_to_prev = [&](int p) { double r = INF; for (int k = 0; k < i; ++k) r = std::min(r, M.d(p, sp[k])); return r; };
    double want = dist_to_prev(sp[i]);
    if (std::fabs((double)pr[i] - want) > TOL * std::max(1.0, want)) {
      vf::mismatch("C19:farthest_points:radius", got.str() + " position " + std::to_string(i) + " want " + std::to_string(want));
      return;
    }
    for (int k = i + 1; k < n; ++k) {
      double o = dist_to_prev(sp[k]);
      if (o > want + TOL * std::max(1.0, want)) {
        vf::mismatch("C19:farthest_points:not_farthest", got.str() + " position " + std::to_string(i) + ": point " +
                                                              std::to_string(sp[k]) + " is at " + std::to_string(o));
        return;
      }
      if (o == want) tie = true;
    }
  }
  S.add(tie ? "greedy.with_ties" : "greedy.no_tie");
}

// branch classes of compute_sparse_graph, classified from the (validated) radii - counters only, never compared
static void count_branches(const Group& g, const SR& sr) {
  vf::Stats& S = vf::stats();
  const Metric& M = *g.M;
  size_t nv = sr.graph_.vlist.size();
  S.add("vertices.kept", (long long)nv);
  S.add("vertices.dropped_by_mini", (long long)(M.n - (int)nv));
  double cst = g.eps * (1 - g.eps) / 2;
  for (size_t i = 0; i < nv; ++i)
    for (size_t j = i + 1; j < nv; ++j) {
      double d = M.d(sr.sorted_points[i], sr.sorted_points[j]), li = sr.params[i] / scale(), lj = sr.params[j] / scale(), alpha = d;
      if (d * g.eps <= 2 * lj) S.add("branch.alpha_eq_d");
      else if (d * g.eps > li + lj) { S.add("branch.cut_both_frozen"); continue; }
      else {
        alpha = (d - lj / g.eps) * 2;
        if (g.eps < 1 && alpha * cst > lj) { S.add("branch.cut_vertex_dead"); continue; }
        S.add("branch.alpha_stretched");
      }
      if (!(alpha <= g.maxi)) S.add("branch.cut_maxi");
    }
}

struct ReadBack {
  c19::MComplex G;
  bool dup = false, unknown_vertex = false;
  std::string bad;
};
static ReadBack read_complex(ST& st, int n) {
  ReadBack r;
  r.G = c19::MComplex(n);
  for (auto sh : st.complex_simplex_range()) {
    unsigned m = 0;
    bool rep = false;
    std::string txt;
    for (auto v : st.simplex_vertex_range(sh)) {
      txt += std::to_string((long long)v) + " ";
      if ((long long)v < 0 || (long long)v >= n) { r.unknown_vertex = true; continue; }
      if (m >> v & 1) rep = true;
      m |= 1u << v;
    }
    if (rep || m == 0 || r.G.has(m)) { r.dup = true; r.bad = txt; }
    if (r.unknown_vertex) { r.bad = txt; break; }
    r.G.set(m, (double)st.filtration(sh) / scale());
  }
  return r;
}

static void run_case(const Group& g, Build& b, int dim, bool first_of_group) {
  vf::Stats& S = vf::stats();
  const Metric& M = *g.M;
  vf::set_case(g.case_str(dim));
  if (!b.sr) construct(g, b);
  SR& sr = *b.sr;
  if (first_of_group) { check_greedy(g, sr); count_branches(g, sr); }
  ST st;
  sr.create_complex(st, dim);
  S.add("api.create_complex");
  ReadBack rb = read_complex(st, M.n);
  vf::end_case();
  const c19::MComplex& G = rb.G;
  const c19::MComplex& RC = g.R->full;

  S.add("ev.states");
  S.add("ev.traces");
  S.add("ev.evaluations");
  std::string cfgclass = g.eps >= 1 ? "eps_ge_1" : (g.bounded() ? "bounded" : "guarantee");
  S.add("cases." + cfgclass);
  S.add("cases.n" + std::to_string(M.n) + ".dim" + std::to_string(dim));
  S.maxi("simplices_max", (long long)G.count);

  // (a) validity ---------------------------------------------------------------------------------------------------
  S.add("ev.transitions");
  bool valid = true;
  if (rb.unknown_vertex) { vf::mismatch("C19:valid:unknown_vertex", "simplex " + rb.bad); valid = false; }
  if (valid && rb.dup) { vf::mismatch("C19:valid:duplicate_simplex", "simplex " + rb.bad + " complex=" + G.key()); valid = false; }
  if (valid && G.has_nan()) { vf::mismatch("C19:valid:nan", "complex=" + G.key()); valid = false; }
  if (valid && !G.closed_under_faces()) { vf::mismatch("C19:valid:not_closed_under_faces", "complex=" + G.key()); valid = false; }
  if (valid && !G.monotone()) { vf::mismatch("C19:valid:not_monotone", "complex=" + G.key()); valid = false; }
  if (valid && G.dimension() > dim) {
    vf::mismatch("C19:valid:dimension_above_dim_max", "dimension " + std::to_string(G.dimension()) + " complex=" + G.key());
    valid = false;
  }
  if (!valid) return;

  // outcome classes (non-vacuity) -----------------------------------------------------------------------------------
  long long delayed = 0, absent = 0, e_same = 0, e_delayed = 0, e_absent = 0;
  unsigned full = 1u << M.n;
  for (unsigned m = 1; m < full; ++m) {
    int pc = __builtin_popcount(m);
    if (pc > dim + 1) continue;
    bool edge = pc == 2;
    if (!G.has(m)) { ++absent; if (edge) ++e_absent; }
    else if (G.val[m] > RC.val[m] + TOL * std::max(1.0, RC.val[m])) { ++delayed; if (edge) ++e_delayed; }
    else if (edge) ++e_same;
  }
  S.add("edges.same_as_rips", e_same);
  S.add("edges.delayed", e_delayed);
  S.add("edges.absent", e_absent);
  bool differs = absent || delayed;
  bool has_edge = e_same + e_delayed > 0;
  if (differs && has_edge) S.add("ev.nontrivial");
  S.add(std::string("outcome.") + cfgclass + (!differs ? ".equals_rips" : absent ? (delayed ? ".sparser_and_delayed" : ".sparser") : ".delayed"));
  if (g.eps < 1) {
    // cliques of the output graph (on the output vertices) that the vertex-death blocker removed
    long long blocked = 0;
    for (unsigned m = 1; m < full; ++m) {
      int pc = __builtin_popcount(m);
      if (pc < 3 || pc > dim + 1 || G.has(m)) continue;
      bool clique = true;
      for (int u = 0; u < M.n && clique; ++u)
        for (int v = u + 1; v < M.n; ++v)
          if ((m >> u & 1) && (m >> v & 1) && !G.has((1u << u) | (1u << v))) { clique = false; break; }
      if (clique) ++blocked;
    }
    S.add("blocker.cliques_removed", blocked);
    if (blocked) S.add("blocker.cases_with_removed_clique");
  }

  // (b) filtered subcomplex of Rips, never earlier -------------------------------------------------------------------
  if (g.eps < 1) {
    S.add("ev.transitions");
    for (unsigned m = 1; m < full; ++m) {
      if (!G.has(m)) continue;
      double rv = RC.val[m];
      if (G.val[m] < rv - TOL * std::max(1.0, rv)) {
        std::ostringstream d;
        d << "simplex " << c19::MComplex::name(m) << " value " << G.val[m] << " Rips value " << rv << " order=" << vf::join(sr.sorted_points)
          << " radii=" << vf::join(sr.params);
        vf::mismatch("C19:rips_subcomplex:earlier_than_rips", d.str());
        break;
      }
    }
  }
  if (g.eps >= 1 || g.bounded()) return;

  // (c) the guarantee ------------------------------------------------------------------------------------------------
  for (int v = 0; v < M.n; ++v)
    if (!G.has(1u << v)) { vf::mismatch("C19:guarantee:vertex_missing", "vertex " + std::to_string(v)); return; }
  double bound = std::log(1.0 / (1.0 - g.eps));
  std::vector<c19::Diagram> DG = c19::diagrams(G, g_prime, std::max(1, dim));
  for (int k = 0; k < dim && k < (int)g.R->logdiag.size(); ++k) {
    S.add("ev.transitions");
    c19::Diagram lg = c19::log_diagram(DG[k]);
    const c19::Diagram& lr = g.R->logdiag[k];
    std::string hk = "H" + std::to_string(k);
    if (lg.empty() && lr.empty()) { S.add("diagram." + hk + ".both_empty"); continue; }
    bool ok = c19::matching_within(lg, lr, bound + TOL);
    if (!ok) {
      std::ostringstream d;
      d << "dimension " << k << " log-bottleneck " << c19::log_bottleneck(lg, lr) << " > bound " << bound << " sparse=" << c19::diagram_str(DG[k])
        << " rips=" << c19::diagram_str(g.R->diag[k]) << " order=" << vf::join(sr.sorted_points) << " radii=" << vf::join(sr.params)
        << " complex=" << G.key();
      vf::mismatch("C19:log_bottleneck_above_bound:" + hk, d.str());
      continue;
    }
    if (c19::matching_within(lg, lr, 0)) { S.add("diagram." + hk + ".identical"); continue; }
    double dist = c19::log_bottleneck(lg, lr);
    S.add("diagram." + hk + ".different_within_bound");
    S.maxi("tightness_permille." + hk, (long long)(1000.0 * dist / bound));
  }
}

struct Plan {
  std::vector<std::string> geps, veps, beps, minis, maxis;
  bool all_dims = true;
};

static void run_metric(const Metric& M, const Plan& P) {
  vf::Stats& S = vf::stats();
  S.add("metrics");
  S.add("metrics.n" + std::to_string(M.n));
  RipsInfo R = rips_info(M);
  std::vector<int> dims;
  if (M.n < 2) dims = {1};
  else if (P.all_dims) for (int d = M.n - 1; d >= 1; --d) dims.push_back(d);
  else dims = {M.n - 1};
  if (S.samples.size() < 3) {
    Group g{&M, &R, 0, P.geps.empty() ? "0.5" : P.geps.back(), "none", "none", 0.5, -INF, INF};
    S.sample(g.case_str(dims[0]));
  }
  auto group = [&](int start, const std::string& e, const std::string& mi, const std::string& ma) {
    Group g{&M, &R, start, e, mi, ma, atof(e.c_str()), parse_bound(mi, -INF), parse_bound(ma, INF)};
    Build b;
    bool first = true;
    for (int d : dims) { run_case(g, b, d, first); first = false; }
  };
  for (int start = 0; start < M.n; ++start) {
    for (auto& e : P.geps) group(start, e, "none", "none");
    for (auto& e : P.veps) group(start, e, "none", "none");
    for (auto& e : P.beps)
      for (auto& mi : P.minis)
        for (auto& ma : P.maxis)
          if (mi != "none" || ma != "none") group(start, e, mi, ma);
  }
}

int main(int argc, char** argv) {
  vf::Args a = vf::parse_args(argc, argv);
  vf::install_handlers();
  vf::Stats& S = vf::stats();
  g_prime = (int)a.geti("prime", 2);
  g_scale2 = (int)a.geti("scale2", 0);

  if (!a.replay.empty()) {
    auto kv = vf::parse_kv(a.replay);
    if (kv.count("scale2")) g_scale2 = atoi(kv["scale2"].c_str());
    Metric M;
    int n = atoi(kv["n"].c_str());
    if (kv.count("P")) {
      std::vector<std::vector<int>> pts;
      for (auto& p : split(kv["P"], '|')) pts.push_back(vf::parse_ints(p, ':'));
      M = c19::metric_from_points(pts);
    } else {
      std::vector<double> low;
      for (auto& x : split(kv["D"])) low.push_back(atof(x.c_str()));
      M = c19::metric_from_lower(n, low);
    }
    RipsInfo R = rips_info(M);
    Group g{&M, &R, atoi(kv["start"].c_str()), kv["eps"], kv["mini"], kv["maxi"], atof(kv["eps"].c_str()),
            parse_bound(kv["mini"], -INF), parse_bound(kv["maxi"], INF)};
    Build b;
    run_case(g, b, atoi(kv["dim"].c_str()), true);
    vf::finish();
    return 0;
  }

  Plan P;
  auto list = [&](const char* key, const char* def) {  // "-" = empty list
    std::string v = a.get(key, def);
    return v == "-" ? std::vector<std::string>() : split(v);
  };
  P.geps = list("geps", "0.05,0.1,0.25,0.5,0.75,0.9,0.99");  // guarantee configurations (epsilon < 1, no bounds)
  P.veps = list("veps", "1,1.5,3");                           // validity only (epsilon >= 1, no bounds)
  P.beps = list("beps", "0.5,1.5");                           // epsilon used with every (mini,maxi) combination
  P.minis = list("minis", "none,1.5,2.5");
  P.maxis = list("maxis", "none,2.5,6.5");
  P.all_dims = a.get("dims", "all") == "all";
  std::string fam = a.get("fam", "int");
  std::vector<int> ns = vf::parse_ints(a.get("n", "3"));
  long long index = 0;
  auto visit = [&](const Metric& M) {
    long long i = index++;
    if (i % a.nshards != a.shard) return;
    run_metric(M, P);
  };
  for (int n : ns) {
    if (fam == "int") {
      std::vector<int> vals = vf::parse_ints(a.get("vals", "1,2,3,4"));
      c19::enum_int_metrics(n, vals, a.geti("canon", 0) != 0, visit);
    } else if (fam == "line") {
      int N = (int)a.geti("N", 12);  // points 0 = x_0 < x_1 < ... <= N on the real line
      c19::enum_subsets(N, n - 1, [&](const std::vector<int>& c) {
        std::vector<std::vector<int>> pts{{0}};
        for (int x : c) pts.push_back({x + 1});
        visit(c19::metric_from_points(pts));
      });
    } else if (fam == "grid") {
      std::vector<int> cs = vf::parse_ints(a.get("coords", "0,1,2,3"));
      int m = (int)cs.size();
      c19::enum_subsets(m * m, n, [&](const std::vector<int>& c) {
        std::vector<std::vector<int>> pts;
        for (int x : c) pts.push_back({cs[x / m], cs[x % m]});
        visit(c19::metric_from_points(pts));
      });
    }
  }
  S.add("engine.random_device_draws", 0);  // key present even if 0
  S.c["engine.random_device_draws"] = vfrd::g_draws;
  vf::finish();
  return 0;
}
