// C18 reference oracle ("RefLandscape"): persistence landscapes straight from the definition, no GUDHI code.
//
//   lambda_k(t) = k-th largest (k = 0, 1, ...) of  max(0, min(t - b, d - t))  over the intervals (b, d) of the diagram.
//
// A function (one per level) is kept as a *sample table*: its values at x0 + j*q, j = 0..J, where `sub` consecutive
// steps make one "node cell".  Every function that enters an integral here is linear on each node cell (the
// breakpoints of the landscapes of the enumerated diagrams are nodes: that claim is checked when a table is built from
// a diagram, see Table::node_linear_defect), so
//   * sums, differences, scalar multiples and averages are the same operations on the samples,
//   * the integral of a product of two such functions over a node cell is given exactly by Simpson's rule with the
//     cell midpoint (the integrand is a quadratic), the integral of |h| by the two-triangle formula when h changes sign
//     inside the cell and by the trapezoid otherwise, the supremum of |h| is attained at a node.
// The absolute value is taken pointwise on the samples (exact at every sample, not node-linear any more: only
// evaluated, never integrated).  abs_nodewise is the documented *gridded* absolute value (|.| at the nodes, linear
// in between).
#ifndef C18_ORACLE_HPP
#define C18_ORACLE_HPP

#include <algorithm>
#include <cmath>
#include <functional>
#include <string>
#include <utility>
#include <vector>

namespace c18 {

typedef std::vector<std::pair<double, double>> RDiag;  // real coordinates, as handed to the library

inline double tent(double b, double d, double t) {
  double v = std::min(t - b, d - t);
  return v > 0 ? v : 0.0;
}

inline double lambda_def(const RDiag& D, size_t k, double t) {
  std::vector<double> v;
  v.reserve(D.size());
  for (auto& p : D) v.push_back(tent(p.first, p.second, t));
  std::sort(v.begin(), v.end(), std::greater<double>());
  return k < v.size() ? v[k] : 0.0;
}

struct Table {
  double x0 = 0, q = 1;  // sample j is at x0 + j*q
  int J = 0;             // samples 0..J
  int sub = 2;           // samples per node cell (even); nodes are the samples with j % sub == 0
  std::vector<std::vector<double>> v;  // v[level][j]

  size_t levels() const { return v.size(); }
  double x(int j) const { return x0 + j * q; }
  double at(size_t k, int j) const { return k < v.size() ? v[k][j] : 0.0; }
  bool is_node(int j) const { return j % sub == 0; }

  // number of (level, cell, sample) positions where the function is not linear on a node cell
  long node_linear_defect() const {
    long bad = 0;
    for (auto& f : v)
      for (int j = 0; j + sub <= J; j += sub)
        for (int s = 1; s < sub; ++s) {
          double want = f[j] + (f[j + sub] - f[j]) * s / sub;
          if (std::fabs(f[j + s] - want) > 1e-12) ++bad;
        }
    return bad;
  }
  // number of levels that do not vanish at the first / last sample (the functions are meant to be 0 outside the table)
  long boundary_defect() const {
    long bad = 0;
    for (auto& f : v) if (f[0] != 0 || f[J] != 0) ++bad;
    return bad;
  }
};

// the landscape of a diagram, by the definition at every sample; levels 0..|D|-1 that are not identically zero on the
// samples are kept (trailing zero levels dropped)
inline Table table_of_diagram(const RDiag& D, double x0, double q, int J, int sub) {
  Table T;
  T.x0 = x0; T.q = q; T.J = J; T.sub = sub;
  T.v.assign(D.size(), std::vector<double>(J + 1, 0.0));
  std::vector<double> col;
  for (int j = 0; j <= J; ++j) {
    double t = T.x(j);
    col.clear();
    for (auto& p : D) col.push_back(tent(p.first, p.second, t));
    std::sort(col.begin(), col.end(), std::greater<double>());
    for (size_t k = 0; k < col.size(); ++k) T.v[k][j] = col[k];
  }
  while (!T.v.empty()) {
    bool zero = true;
    for (double y : T.v.back()) if (y != 0) { zero = false; break; }
    if (!zero) break;
    T.v.pop_back();
  }
  return T;
}

inline Table like(const Table& a, size_t levels) {
  Table r;
  r.x0 = a.x0; r.q = a.q; r.J = a.J; r.sub = a.sub;
  r.v.assign(levels, std::vector<double>(a.J + 1, 0.0));
  return r;
}

// ca*a + cb*b, pointwise
inline Table lin(const Table& a, double ca, const Table& b, double cb) {
  Table r = like(a, std::max(a.levels(), b.levels()));
  for (size_t k = 0; k < r.levels(); ++k)
    for (int j = 0; j <= a.J; ++j) r.v[k][j] = ca * a.at(k, j) + cb * b.at(k, j);
  return r;
}
inline Table scaled(const Table& a, double c) {
  Table r = like(a, a.levels());
  for (size_t k = 0; k < r.levels(); ++k)
    for (int j = 0; j <= a.J; ++j) r.v[k][j] = c * a.v[k][j];
  return r;
}
inline Table abs_pointwise(const Table& a) {
  Table r = like(a, a.levels());
  for (size_t k = 0; k < r.levels(); ++k)
    for (int j = 0; j <= a.J; ++j) r.v[k][j] = std::fabs(a.v[k][j]);
  return r;
}
inline Table abs_nodewise(const Table& a) {
  Table r = like(a, a.levels());
  for (size_t k = 0; k < r.levels(); ++k) {
    for (int j = 0; j <= a.J; j += a.sub) r.v[k][j] = std::fabs(a.v[k][j]);
    for (int j = 0; j + a.sub <= a.J; j += a.sub)
      for (int s = 1; s < a.sub; ++s) r.v[k][j + s] = r.v[k][j] + (r.v[k][j + a.sub] - r.v[k][j]) * s / a.sub;
  }
  return r;
}

// ---- integrals of node-linear tables (sum over levels, as the library defines them) ---------------------------------
inline double integral(const Table& f) {  // sum_k int f_k
  double s = 0, w = f.q * f.sub;
  for (auto& y : f.v)
    for (int j = 0; j + f.sub <= f.J; j += f.sub) s += w * (y[j] + 4 * y[j + f.sub / 2] + y[j + f.sub]) / 6;
  return s;
}
inline double integral_level(const Table& f, size_t k) {
  if (k >= f.levels()) return 0;
  double s = 0, w = f.q * f.sub;
  auto& y = f.v[k];
  for (int j = 0; j + f.sub <= f.J; j += f.sub) s += w * (y[j] + 4 * y[j + f.sub / 2] + y[j + f.sub]) / 6;
  return s;
}
inline double inner(const Table& f, const Table& g) {  // sum_k int f_k g_k   (Simpson, exact for a quadratic)
  double s = 0, w = f.q * f.sub;
  int m = f.sub / 2;
  for (size_t k = 0; k < std::min(f.levels(), g.levels()); ++k) {
    auto& a = f.v[k];
    auto& b = g.v[k];
    for (int j = 0; j + f.sub <= f.J; j += f.sub)
      s += w * (a[j] * b[j] + 4 * a[j + m] * b[j + m] + a[j + f.sub] * b[j + f.sub]) / 6;
  }
  return s;
}
inline double integral_abs(const Table& h) {  // sum_k int |h_k|
  double s = 0, w = h.q * h.sub;
  for (auto& y : h.v)
    for (int j = 0; j + h.sub <= h.J; j += h.sub) {
      double a = y[j], b = y[j + h.sub];
      if (a * b >= 0) s += w * (std::fabs(a) + std::fabs(b)) / 2;
      else s += w * (a * a + b * b) / (2 * (std::fabs(a) + std::fabs(b)));
    }
  return s;
}
inline double integral_sq(const Table& h) { return inner(h, h); }  // sum_k int h_k^2
inline double sup_abs(const Table& h) {
  double m = 0;
  for (auto& y : h.v) for (double z : y) m = std::max(m, std::fabs(z));
  return m;
}
// number of node cells (over all levels) in whose interior h changes sign / on which |h| is a non-zero constant
inline long sign_change_cells(const Table& h) {
  long n = 0;
  for (auto& y : h.v) for (int j = 0; j + h.sub <= h.J; j += h.sub) if (y[j] * y[j + h.sub] < 0) ++n;
  return n;
}
inline long flat_nonzero_cells(const Table& h) {
  long n = 0;
  for (auto& y : h.v) for (int j = 0; j + h.sub <= h.J; j += h.sub) if (y[j] != 0 && std::fabs(y[j]) == std::fabs(y[j + h.sub]) && y[j] * y[j + h.sub] > 0) ++n;
  return n;
}

// distance between two landscapes, p = 1, 2 or 0 (meaning the supremum), from the definition
inline double distance(const Table& f, const Table& g, int p) {
  Table h = lin(f, 1, g, -1);
  if (p == 1) return integral_abs(h);
  if (p == 2) return std::sqrt(integral_sq(h));
  return sup_abs(h);
}

// ---- abstract diagrams with small integer endpoints --------------------------------------------------------------------
typedef std::pair<int, int> Iv;
typedef std::vector<Iv> Diag;

inline std::vector<Iv> all_intervals(int E) {  // 0 <= b < d <= E, lexicographic
  std::vector<Iv> r;
  for (int b = 0; b <= E; ++b) for (int d = b + 1; d <= E; ++d) r.push_back(Iv(b, d));
  return r;
}
// every multiset of at most n intervals (non-decreasing index sequences), sizes 0, 1, ..., n in that order
inline std::vector<Diag> all_diagrams(int E, int n) {
  std::vector<Iv> I = all_intervals(E);
  std::vector<Diag> out;
  for (int sz = 0; sz <= n; ++sz) {
    std::vector<int> idx(sz, 0);
    while (true) {
      Diag d;
      for (int i : idx) d.push_back(I[i]);
      out.push_back(d);
      int p = sz - 1;
      while (p >= 0 && idx[p] == (int)I.size() - 1) --p;
      if (p < 0) break;
      ++idx[p];
      for (int r = p + 1; r < sz; ++r) idx[r] = idx[p];
    }
  }
  return out;
}
inline long long binom(int n, int k) {
  long long r = 1;
  for (int i = 1; i <= k; ++i) r = r * (n - k + i) / i;
  return r;
}
inline long long expected_diagram_count(int E, int n) {  // sum_{s<=n} C(m+s-1, s), m = E(E+1)/2
  int m = E * (E + 1) / 2;
  long long r = 0;
  for (int s = 0; s <= n; ++s) r += (m == 0) ? (s == 0) : binom(m + s - 1, s);
  return r;
}

inline std::string diag_str(const Diag& d) {
  std::string s;
  for (size_t i = 0; i < d.size(); ++i) {
    if (i) s += ",";
    s += std::to_string(d[i].first) + "-" + std::to_string(d[i].second);
  }
  return s;
}
inline Diag parse_diag(const std::string& s) {
  Diag d;
  size_t i = 0;
  while (i < s.size()) {
    size_t j = s.find(',', i);
    if (j == std::string::npos) j = s.size();
    std::string item = s.substr(i, j - i);
    size_t m = item.find('-');
    if (m != std::string::npos) d.push_back(Iv(atoi(item.substr(0, m).c_str()), atoi(item.substr(m + 1).c_str())));
    i = j + 1;
  }
  return d;
}

// configuration classes of a diagram (non-vacuity counters)
struct DiagClass { bool repeated = false, nested = false, touching = false, crossing = false, disjoint = false,
                   shared_endpoint = false; };
inline DiagClass classify(const Diag& d) {
  DiagClass c;
  for (size_t i = 0; i < d.size(); ++i)
    for (size_t j = i + 1; j < d.size(); ++j) {
      Iv a = d[i], b = d[j];
      if (a == b) { c.repeated = true; continue; }
      if (a.second == b.first || b.second == a.first) { c.touching = true; continue; }
      if (a.second < b.first || b.second < a.first) { c.disjoint = true; continue; }
      if ((a.first <= b.first && b.second <= a.second) || (b.first <= a.first && a.second <= b.second)) {
        c.nested = true;
        if (a.first == b.first || a.second == b.second) c.shared_endpoint = true;
        continue;
      }
      c.crossing = true;
    }
  return c;
}

}  // namespace c18
#endif
