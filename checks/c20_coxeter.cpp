// C20 - Coxeter / Freudenthal-Kuhn triangulations: consistent face lattice and exact point location.
// E2 bounded-exhaustive input enumeration on the real GUDHI code, oracle = RefFK (c20_common.hpp).
//
//   -DVF_PART=1  combinatorics: vertex_range / face_range / facet_range / coface_range / cofacet_range / is_face_of
//                of Permutahedral_representation for every simplex around a vertex (base vertex in {-1,0,1}^d, every
//                ordered set partition of {0..d}).
//   -DVF_PART=2  geometry: locate_point / cartesian_coordinates / barycenter of Freudenthal_triangulation and
//                Coxeter_triangulation for every point of a rational grid (hits faces of every dimension), points
//                1e-10 / 1e-8 off the faces, and the barycentre of every simplex, for several affine maps and scales.
//
// Documented preconditions assumed: the partition is an ordered set partition of {0..d} (constructor doc);
// face_range(k): 0 <= k <= dim; coface_range(l): dim <= l <= d; facet_range: dim > 0; cofacet_range: dim < d;
// the matrix is invertible; the point has d coordinates.  coface_range / is_face_of are only called on *canonical*
// representations (d in the last part): the coface iterator itself calls anything else "not a permutahedral
// representation" and the property is stated for simplices "in permutahedral representation".
#include "c20_common.hpp"

#ifndef VF_PART
#define VF_PART 1
#endif

#include <gudhi/Permutahedral_representation.h>
#if VF_PART == 2
#include <gudhi/Freudenthal_triangulation.h>
#include <gudhi/Coxeter_triangulation.h>
#endif

#include <cmath>
#include <memory>

using fk::Pt;
using fk::Parts;
using fk::Rep;
using SH = Gudhi::coxeter_triangulation::Permutahedral_representation<std::vector<int>, std::vector<std::vector<std::size_t>>>;

static long long g_calls = 0;   // API calls executed and compared

// UBSan (halt_on_error) terminates through its own "Die" path, not through a signal or the ASan hook: leave the
// breadcrumb from the UBSan report hook (weak symbol of libubsan, same mechanism as __asan_on_error in harness.hpp).
extern "C" __attribute__((used, visibility("default"))) void __ubsan_on_report(void) {
  if (vf::g_in_case) vf::crash_out("UBSAN");
  signal(SIGABRT, SIG_DFL);   // the runtime aborts next; one CRASH record per event is enough
}

#if VF_PART == 1
static Pt pt_of(const std::vector<int>& v) { return Pt(v.begin(), v.end()); }

static std::string shape_of(const Parts& w) {
  std::string s;
  for (auto& p : w) s += std::to_string(p.size());
  return s;
}

// vertex_range of a GUDHI simplex as sorted point list
static std::vector<Pt> gudhi_vertices(const SH& s, size_t* count) {
  std::vector<Pt> got;
  for (auto& v : s.vertex_range()) got.push_back(pt_of(v));
  ++g_calls;
  if (count) *count = got.size();
  std::sort(got.begin(), got.end());
  return got;
}

// ====================================================================================================================
// PART 1: combinatorics
// ====================================================================================================================
struct UEntry { Rep rep; SH sh; std::vector<Pt> verts; };
static std::map<int, std::vector<UEntry>> g_universe;   // d -> canonical simplices with base in {ulo..uhi}^d
static int g_ulo = -1, g_uhi = 1;

static const std::vector<UEntry>& universe(int d) {
  auto it = g_universe.find(d);
  if (it != g_universe.end()) return it->second;
  std::vector<UEntry>& u = g_universe[d];
  auto parts = fk::ordered_partitions(d, true);
  for (auto& y : fk::box_points(d, g_ulo, g_uhi))
    for (auto& w : parts) {
      Rep r{y, w};
      u.push_back({r, fk::to_gudhi<SH>(r), fk::sorted_vertices(r)});
    }
  return u;
}

static bool is_zero(const Pt& y) { for (int x : y) if (x) return false; return true; }

// observe one simplex completely.  canonical=false: only vertex_range / face_range at vertex-set level.
static void check_simplex(int d, const Rep& rep, bool canonical, const std::string& pairs_mode) {
  vf::Stats& st = vf::stats();
  const std::string ctx = " simplex{" + fk::str(rep) + "}";
  const std::string sfx = canonical ? "" : ":noncanonical_input";
  SH s = fk::to_gudhi<SH>(rep);
  const int k = (int)rep.w.size() - 1;
  const std::vector<Pt> refv = fk::sorted_vertices(rep);
  if (!fk::is_fk_simplex(refv) || (int)refv.size() != k + 1)
    vf::mismatch("ENGINE:refFK_inconsistent", "reference vertices are not a simplex:" + ctx);

  // --- dimension, vertex_range ---------------------------------------------------------------------------------
  ++g_calls;
  if ((int)s.dimension() != k) vf::mismatch("C20:dimension" + sfx, "got " + std::to_string(s.dimension()) + ctx);
  {
    size_t cnt = 0;
    auto got = gudhi_vertices(s, &cnt);
    bool distinct = std::adjacent_find(got.begin(), got.end()) == got.end();
    if ((int)cnt != k + 1 || !distinct || got != refv)
      vf::mismatch("C20:vertex_range" + sfx, "got " + fk::vstr(got) + " want " + fk::vstr(refv) + ctx);
  }

  // --- faces ---------------------------------------------------------------------------------------------------
  std::vector<std::pair<int, SH>> all_faces;
  for (int kk = 0; kk <= k; ++kk) {
    std::vector<SH> faces;
    for (auto& f : s.face_range(kk)) faces.push_back(f);
    ++g_calls;
    std::set<std::vector<Pt>> seen;
    for (auto& f : faces) {
      Rep fr = fk::from_gudhi(f, false);
      bool canon = false;
      const std::string fctx = " face{" + fk::str(fr) + "} k=" + std::to_string(kk) + ctx;
      if (!fk::valid_rep(fr, d, &canon) || (canonical && !canon)) {
        vf::mismatch("C20:face_range:invalid_representation" + sfx, fctx);
        continue;
      }
      ++g_calls;
      if ((int)f.dimension() != kk) vf::mismatch("C20:face_range:dimension" + sfx, fctx);
      auto fv = fk::sorted_vertices(fr);
      if ((int)fv.size() != kk + 1 || !fk::subset(fv, refv))
        vf::mismatch("C20:face_range:not_a_vertex_subset" + sfx, "face vertices " + fk::vstr(fv) + fctx);
      seen.insert(fv);
      size_t cnt = 0;
      if (gudhi_vertices(f, &cnt) != fv || (int)cnt != kk + 1) vf::mismatch("C20:vertex_range:of_face" + sfx, fctx);
      if (canonical) {
        ++g_calls;
        if (!f.is_face_of(s)) vf::mismatch("C20:is_face_of:listed_face_not_recognised", fctx);
        all_faces.push_back({kk, f});
      }
    }
    long long want = fk::binom(k + 1, kk + 1);
    if ((long long)faces.size() != want || (long long)seen.size() != want)
      vf::mismatch("C20:face_range:count_or_duplicates" + sfx,
                   "listed " + std::to_string(faces.size()) + " distinct vertex subsets " + std::to_string(seen.size()) +
                       " want " + std::to_string(want) + " k=" + std::to_string(kk) + ctx);
    st.add("faces.listed", (long long)faces.size());
    if (kk == k - 1 && k > 0) {
      std::vector<SH> facets;
      for (auto& f : s.facet_range()) facets.push_back(f);
      ++g_calls;
      bool same = facets.size() == faces.size();
      for (size_t i = 0; same && i < facets.size(); ++i) same = facets[i] == faces[i];
      if (!same) vf::mismatch("C20:facet_range" + sfx, "differs from face_range(dim-1)" + ctx);
    }
    if (kk == k && canonical && !(faces.size() == 1 && faces[0] == s))
      vf::mismatch("C20:face_range:top_dimension_not_self", ctx);
  }
  if (!canonical) { st.add("simplices.noncanonical"); return; }
  st.add("simplices.canonical");
  st.add("simplices.dim" + std::to_string(k));

  // --- cofaces -------------------------------------------------------------------------------------------------
  for (int l = k; l <= d; ++l) {
    std::vector<SH> cofs;
    for (auto& c : s.coface_range(l)) cofs.push_back(c);
    ++g_calls;
    std::set<std::vector<Pt>> want = fk::cofaces(refv, l);
    std::set<std::vector<Pt>> seen;
    bool dup = false;
    for (auto& c : cofs) {
      Rep cr = fk::from_gudhi(c, false);
      bool canon = false;
      const std::string cctx = " coface{" + fk::str(cr) + "} l=" + std::to_string(l) + ctx;
      if (!fk::valid_rep(cr, d, &canon) || !canon) {
        vf::mismatch("C20:coface_range:invalid_representation", cctx);
        continue;
      }
      ++g_calls;
      if ((int)c.dimension() != l) vf::mismatch("C20:coface_range:dimension", cctx);
      auto cv = fk::sorted_vertices(cr);
      if (!fk::subset(refv, cv)) vf::mismatch("C20:coface_range:does_not_contain_simplex", "coface vertices " + fk::vstr(cv) + cctx);
      if ((int)cv.size() != l + 1 || !fk::is_fk_simplex(cv)) vf::mismatch("C20:coface_range:not_a_simplex_of_requested_dimension", cctx);
      if (!seen.insert(cv).second) dup = true;
      size_t cnt = 0;
      if (gudhi_vertices(c, &cnt) != cv || (int)cnt != l + 1) vf::mismatch("C20:vertex_range:of_coface", cctx);
      ++g_calls;
      if (!s.is_face_of(c)) vf::mismatch("C20:is_face_of:listed_coface_not_recognised", cctx);
      // the simplex must be listed (once) among the k-faces of its coface
      int found = 0;
      for (auto& f : c.face_range(k)) if (f == s) ++found;
      ++g_calls;
      if (found != 1)
        vf::mismatch("C20:coface_range:simplex_not_among_faces_of_listed_coface", "found " + std::to_string(found) + " times" + cctx);
    }
    if (dup) vf::mismatch("C20:coface_range:duplicate", "l=" + std::to_string(l) + ctx);
    if (seen != want) {
      std::string miss, extra;
      for (auto& w : want) if (!seen.count(w) && miss.size() < 300) miss += "[" + fk::vstr(w) + "]";
      for (auto& w : seen) if (!want.count(w) && extra.size() < 300) extra += "[" + fk::vstr(w) + "]";
      vf::mismatch("C20:coface_range:set_differs_from_reference",
                   "l=" + std::to_string(l) + " listed " + std::to_string(seen.size()) + " want " + std::to_string(want.size()) +
                       " missing " + miss + " extra " + extra + ctx);
    }
    st.add("cofaces.listed", (long long)cofs.size());
    st.add("cofaces.d" + std::to_string(d) + ".k" + std::to_string(k) + ".l" + std::to_string(l), (long long)cofs.size());
    if (l == k && !(cofs.size() == 1 && cofs[0] == s)) vf::mismatch("C20:coface_range:own_dimension_not_self", ctx);
    if (l == k + 1) {
      std::vector<SH> cofacets;
      for (auto& c : s.cofacet_range()) cofacets.push_back(c);
      ++g_calls;
      bool same = cofacets.size() == cofs.size();
      for (size_t i = 0; same && i < cofacets.size(); ++i) same = cofacets[i] == cofs[i];
      if (!same) vf::mismatch("C20:cofacet_range", "differs from coface_range(dim+1)" + ctx);
    }
  }

  // --- converse: the simplex must be listed among the cofaces of each of its listed faces --------------------------
  for (auto& kf : all_faces) {
    int found = 0;
    for (auto& c : kf.second.coface_range(k)) if (c == s) ++found;
    ++g_calls;
    if (found != 1)
      vf::mismatch("C20:coface_range:simplex_not_among_cofaces_of_its_face",
                   "found " + std::to_string(found) + " times; face{" + fk::str(fk::from_gudhi(kf.second, false)) + "}" + ctx);
  }

  // --- is_face_of == vertex-set inclusion, over the universe -------------------------------------------------------
  const auto& U = universe(d);
  bool both = false;
  if (pairs_mode == "none") return;
  if (pairs_mode == "base0") { if (!is_zero(rep.y)) return; both = true; }
  long long nt = 0, nf = 0;
  for (auto& t : U) {
    bool want = fk::subset(refv, t.verts);
    bool got = s.is_face_of(t.sh);
    ++g_calls;
    (want ? nt : nf)++;
    if (got != want)
      vf::mismatch(std::string("C20:is_face_of:pair:") + (want ? "face_not_recognised" : "non_face_accepted"),
                   "self" + ctx + " other{" + fk::str(t.rep) + "}");
    if (both) {
      bool want2 = fk::subset(t.verts, refv);
      bool got2 = t.sh.is_face_of(s);
      ++g_calls;
      (want2 ? nt : nf)++;
      if (got2 != want2)
        vf::mismatch(std::string("C20:is_face_of:pair:") + (want2 ? "face_not_recognised" : "non_face_accepted"),
                     "self{" + fk::str(t.rep) + "} other" + ctx);
    }
  }
  st.add("is_face_of.pairs_true", nt);
  st.add("is_face_of.pairs_false", nf);
}

struct Case1 { int d; Rep rep; bool canonical; };

static std::string encode(const Case1& c) {
  return std::string("k=") + (c.canonical ? "simplex" : "nc") + ";d=" + std::to_string(c.d) + ";" + fk::str(c.rep);
}

int main(int argc, char** argv) {
  vf::Args a = vf::parse_args(argc, argv);
  vf::install_handlers();
  vf::g_case_timeout = 60;
  std::string pairs = a.get("pairs", "base0");
  {
    std::vector<int> ub = vf::parse_ints(a.get("ubox", "-1,1"));     // base vertices of the is_face_of universe
    g_ulo = ub[0]; g_uhi = ub[1];
  }
  vf::Stats& st = vf::stats();
  if (!a.replay.empty()) {
    auto kv = vf::parse_kv(a.replay);
    Case1 c{atoi(kv["d"].c_str()), Rep{vf::parse_ints(kv["y"]), fk::parse_parts(kv["w"])}, kv["k"] == "simplex"};
    c.rep.y.resize(c.d, 0);
    vf::set_case(encode(c));
    check_simplex(c.d, c.rep, c.canonical, pairs);
    vf::end_case();
    vf::finish();
    return 0;
  }
  std::vector<int> dims = vf::parse_ints(a.get("dims", "1,2,3"));
  bool with_nc = a.geti("nc", 1) != 0;
  std::vector<int> bases = vf::parse_ints(a.get("bases", "-1,1"));   // base vertices of the enumerated simplices
  long long idx = 0, nontrivial = 0, cases = 0;
  std::set<std::string> shapes;
  for (int d : dims) {
    auto canon = fk::ordered_partitions(d, true);
    auto allp = fk::ordered_partitions(d, false);
    st.add("partitions.canonical.d" + std::to_string(d), a.shard == 0 ? (long long)canon.size() : 0);
    st.add("partitions.all.d" + std::to_string(d), a.shard == 0 ? (long long)allp.size() : 0);
    for (auto& y : fk::box_points(d, bases[0], bases[1]))
      for (auto& w : allp) {
        bool canonical = std::find(w.back().begin(), w.back().end(), d) != w.back().end();
        if (!canonical && !with_nc) continue;
        if (idx++ % a.nshards != a.shard) continue;
        Case1 c{d, Rep{y, w}, canonical};
        std::string enc = encode(c);
        vf::set_case(enc);
        check_simplex(d, c.rep, canonical, pairs);
        vf::end_case();
        ++cases;
        bool big = false;
        for (auto& p : w) if (p.size() >= 2) big = true;
        if (w.size() >= 2 && big) ++nontrivial;
        shapes.insert(std::to_string(d) + ":" + shape_of(w));
        if (cases % 997 == 1) st.sample(enc);
      }
  }
  st.maxi("partition_shapes_seen_by_one_process", (long long)shapes.size());
  st.add("ev.states", cases);
  st.add("ev.traces", cases);
  st.add("ev.transitions", g_calls);
  st.add("ev.evaluations", g_calls);
  st.add("ev.nontrivial", nontrivial);
  st.add("ev.incomplete", 0);
  vf::finish();
  return 0;
}

#else
// ====================================================================================================================
// PART 2: point location, Cartesian coordinates, barycentres
// ====================================================================================================================
using FK = Gudhi::coxeter_triangulation::Freudenthal_triangulation<SH>;
using CX = Gudhi::coxeter_triangulation::Coxeter_triangulation<SH>;
typedef long long i64;

// lattice coordinates are exact rationals num / DEN
static const i64 DEN = 600000000000LL;            // 60 * 1e10: multiples of 1/6, 1/(k+1) for k<=4, and of 1e-10 are exact
static const i64 NEGL = 300;                      // 5e-10 : a weight / gap up to here is negligible (documented 1e-9)
static const i64 SIGN = 3000;                     // 5e-9  : a weight / gap from here on is significant

static const int NTR = 7;
static const char* tr_name[NTR] = {"fk_identity", "matrix_2I", "shear_plus_offset", "identity_change_offset",
                                   "identity_change_matrix", "coxeter", "antidiagonal_signed_half"};
static const double OFFS[6] = {0.5, -1.25, 2.0, 0.75, -0.375, 1.5};

struct Tri {
  std::unique_ptr<FK> tr;
  int d;
  std::vector<std::vector<long double>> M;   // reference copy of the linear map
  std::vector<long double> b;
};

static Tri make_tr(int d, int id) {
  Eigen::MatrixXd M = Eigen::MatrixXd::Identity(d, d);
  Eigen::VectorXd b = Eigen::VectorXd::Zero(d);
  Tri t;
  t.d = d;
  bool known = true;
  switch (id) {
    case 0: t.tr.reset(new FK(d)); break;
    case 1: M *= 2.0; t.tr.reset(new FK(d, M)); break;
    case 2:
      for (int i = 0; i < d; ++i) for (int j = i; j < d; ++j) M(i, j) = 1;
      for (int i = 0; i < d; ++i) b(i) = OFFS[i];
      t.tr.reset(new FK(d, M, b));
      break;
    case 3:
      for (int i = 0; i < d; ++i) b(i) = OFFS[i];
      t.tr.reset(new FK(d));
      t.tr->change_offset(b);
      break;
    case 4:
      for (int i = 1; i < d; ++i) M(i, 0) = -1;
      t.tr.reset(new FK(d));
      t.tr->change_matrix(M);
      break;
    case 5: { CX c(d); t.tr.reset(new FK(c)); known = false; break; }
    case 6:
      M.setZero();
      for (int i = 0; i < d; ++i) M(i, d - 1 - i) = (i % 2) ? -0.5 : 0.5;
      t.tr.reset(new FK(d, M));
      break;
  }
  ++g_calls;
  const std::string ctx = std::string(" tr=") + tr_name[id] + " d=" + std::to_string(d);
  if ((int)t.tr->dimension() != d) vf::mismatch("C20:triangulation_dimension", ctx);
  if (known && (t.tr->matrix() != M || t.tr->offset() != b)) vf::mismatch("C20:matrix_offset_accessors", ctx);
  t.M.assign(d, std::vector<long double>(d));
  t.b.assign(d, 0);
  for (int i = 0; i < d; ++i) {
    for (int j = 0; j < d; ++j) t.M[i][j] = t.tr->matrix()(i, j);
    t.b[i] = t.tr->offset()(i);
  }
  if (id == 5) {
    // type A~_d: the images u_0..u_{d-1} of the unit vectors and u_d = -(u_0+..+u_{d-1}) have equal norms and equal
    // pairwise scalar products -|u|^2/d (vertex lattice = A_d^*), the documented "Coxeter triangulation of type A~_d"
    std::vector<std::vector<long double>> u(d + 1, std::vector<long double>(d, 0));
    for (int j = 0; j < d; ++j) for (int i = 0; i < d; ++i) { u[j][i] = t.M[i][j]; u[d][i] -= t.M[i][j]; }
    auto dot = [&](int p, int q) { long double s = 0; for (int i = 0; i < d; ++i) s += u[p][i] * u[q][i]; return s; };
    long double n0 = dot(0, 0);
    bool ok = n0 > 1e-6L;
    for (int p = 0; p <= d; ++p)
      for (int q = p; q <= d; ++q) {
        long double want = p == q ? n0 : -n0 / d;
        if (fabsl(dot(p, q) - want) > 1e-9L) ok = false;
      }
    if (!ok) vf::mismatch("C20:coxeter_matrix:not_type_A_tilde", ctx);
  }
  return t;
}

static std::vector<long double> ref_cartesian(const Tri& t, const std::vector<long double>& x, double scale) {
  std::vector<long double> p(t.d);
  for (int i = 0; i < t.d; ++i) {
    long double s = 0;
    for (int j = 0; j < t.d; ++j) s += t.M[i][j] * (x[j] / (long double)scale);
    p[i] = s + t.b[i];
  }
  return p;
}

static i64 floor_div(i64 a, i64 b) { i64 q = a / b; if ((a % b != 0) && ((a < 0) != (b < 0))) --q; return q; }

struct RefLoc { Rep rep; bool ambiguous = false; bool wrapped = false; };

// reference point location in exact arithmetic: floor, sort the fractional parts, merge gaps that are negligible
// (<= 5e-10) -- cyclically, i.e. a fractional part within 5e-10 below 1 is the next integer.
static RefLoc ref_locate(const std::vector<i64>& x) {
  int d = (int)x.size();
  RefLoc r;
  r.rep.y.resize(d);
  std::vector<std::pair<i64, int>> z;
  for (int i = 0; i < d; ++i) {
    i64 y = floor_div(x[i], DEN);
    r.rep.y[i] = (int)y;
    z.push_back({x[i] - y * DEN, i});
  }
  z.push_back({0, d});
  std::sort(z.begin(), z.end(), [](const std::pair<i64, int>& p, const std::pair<i64, int>& q) {
    return p.first != q.first ? p.first > q.first : p.second < q.second; });
  Parts groups;
  groups.push_back({z[0].second});
  for (size_t i = 1; i < z.size(); ++i) {
    i64 gap = z[i - 1].first - z[i].first;
    if (gap > NEGL && gap < SIGN) r.ambiguous = true;
    if (gap > NEGL) groups.push_back({});
    groups.back().push_back(z[i].second);
  }
  i64 wrap_gap = DEN - z[0].first;
  if (wrap_gap > NEGL && wrap_gap < SIGN) r.ambiguous = true;
  if (wrap_gap <= NEGL && groups.size() > 1) {
    for (int i : groups[0]) r.rep.y[i] += 1;
    for (int i : groups[0]) groups.back().push_back(i);
    groups.erase(groups.begin());
    r.wrapped = true;
  }
  for (auto& g : groups) std::sort(g.begin(), g.end());
  r.rep.w = groups;
  return r;
}

// barycentric weights (numerators over DEN) of x with respect to the vertices of a canonical representation, computed
// from the vertex coordinates only.  Returns false if x is not (within 5e-10) in the affine hull / weights not >= -5e-10
static bool ref_weights(const Rep& got, const std::vector<i64>& x, std::vector<i64>& lambda) {
  auto v = fk::vertices(got);   // chain order v_0 < v_1 < ...
  int k = (int)v.size() - 1, d = (int)x.size();
  std::vector<i64> tmin(k + 2, 0), tmax(k + 2, 0);
  std::vector<bool> have(k + 2, false);
  bool inside = true;
  for (int i = 0; i < d; ++i) {
    i64 a = x[i] - (i64)v[0][i] * DEN;
    int m = -1;
    for (int j = 1; j <= k; ++j) if (v[j][i] - v[0][i] == 1) { m = j; break; }
    if (m < 0) { if (a > NEGL || a < -NEGL) inside = false; continue; }
    if (!have[m]) { tmin[m] = tmax[m] = a; have[m] = true; }
    else { tmin[m] = std::min(tmin[m], a); tmax[m] = std::max(tmax[m], a); }
  }
  lambda.assign(k + 1, 0);
  for (int j = 1; j <= k; ++j) if (!have[j] || tmax[j] - tmin[j] > NEGL) inside = false;
  auto t = [&](int j) -> i64 { return j > k ? 0 : tmin[j]; };
  lambda[0] = k >= 1 ? DEN - tmax[1] : DEN;
  for (int j = 1; j <= k; ++j) lambda[j] = t(j) - (j + 1 > k ? 0 : tmax[j + 1]);
  for (i64 l : lambda) if (l < -NEGL) inside = false;
  return inside;
}

struct Case2 {
  int d = 1, tr = 0, sc = 0;
  std::string kind = "pt";   // "pt": locate the point with lattice coordinates x/DEN ; "bary": barycentre of simplex
  std::vector<i64> x;
  Rep simplex;
};
static const double SCALES[3] = {1.0, 0.5, 3.0};

static std::string encode(const Case2& c) {
  std::string s = "k=" + c.kind + ";d=" + std::to_string(c.d) + ";tr=" + std::to_string(c.tr) + ";sc=" + std::to_string(c.sc);
  if (c.kind == "pt") s += ";x=" + vf::join(c.x, ",");
  else s += ";" + fk::str(c.simplex);
  return s;
}

static long long g_nontrivial = 0;

static void check_locate(const Tri& T, const Case2& c, const std::vector<i64>& x, const std::vector<double>* given_p) {
  vf::Stats& st = vf::stats();
  const int d = c.d;
  const double scale = SCALES[c.sc];
  RefLoc want = ref_locate(x);
  if (want.ambiguous) { st.add("locate.skipped_ambiguous_gap"); return; }
  std::vector<long double> xl(d);
  for (int i = 0; i < d; ++i) xl[i] = (long double)x[i] / (long double)DEN;
  std::vector<double> p(d);
  if (given_p) p = *given_p;
  else { auto pl = ref_cartesian(T, xl, scale); for (int i = 0; i < d; ++i) p[i] = (double)pl[i]; }
  SH out;
  if (c.tr == 2) {   // Point_d = Eigen vector for this configuration, std::vector<double> elsewhere
    Eigen::VectorXd pe(d);
    for (int i = 0; i < d; ++i) pe(i) = p[i];
    out = T.tr->locate_point(pe, scale);
  } else {
    out = T.tr->locate_point(p, scale);
  }
  ++g_calls;
  Rep raw = fk::from_gudhi(out, false), got = fk::from_gudhi(out, true);
  if (!(raw == got)) st.add("locate.parts_returned_unsorted");
  const int kw = (int)want.rep.w.size() - 1;
  st.add("locate.carrier_dim" + std::to_string(kw));
  if (kw < d) ++g_nontrivial;
  if (want.wrapped) st.add("locate.point_within_5e-10_below_integer");
  std::vector<i64> lambda;
  auto det = [&]() {   // only built when something disagrees
    std::ostringstream o;
    o.precision(17);
    o << "tr=" << tr_name[c.tr] << " scale=" << scale << " point=(";
    for (int i = 0; i < d; ++i) o << (i ? "," : "") << p[i];
    o << ") lattice=(";
    for (int i = 0; i < d; ++i) o << (i ? "," : "") << (double)xl[i];
    o << ") got{" << fk::str(got) << "} want{" << fk::str(want.rep) << "}";
    if (!lambda.empty()) o << " weights*DEN=" << vf::join(lambda, ",");
    return o.str();
  };
  bool canon = false;
  if (!fk::valid_rep(got, d, &canon) || !canon) {
    vf::mismatch("C20:locate_point:invalid_representation", det());
    return;
  }
  ++g_calls;
  if ((int)out.dimension() != (int)got.w.size() - 1) vf::mismatch("C20:dimension:of_located_simplex", det());
  if (got == want.rep) { st.add("locate.agree"); return; }
  bool inside = ref_weights(got, x, lambda);
  if (!inside) { vf::mismatch("C20:locate_point:point_not_in_returned_simplex", det()); return; }
  bool neg_inner = false, neg0 = false;
  for (size_t j = 0; j < lambda.size(); ++j) if (lambda[j] <= NEGL) (j == 0 ? neg0 : neg_inner) = true;
  if (neg_inner) vf::mismatch("C20:locate_point:negligible_weight_vertex_kept", det());
  else if (neg0)   // only the weight of the base vertex y is negligible: some coordinate is within 5e-10 below an integer
    vf::mismatch(want.wrapped ? "C20:locate_point:negligible_weight_vertex_kept:coordinate_1e-10_below_integer"
                              : "C20:locate_point:negligible_weight_vertex_kept:integer_coordinate_rounded_below",
                 det());
  else vf::mismatch("C20:locate_point:differs_from_reference", det());
}

static void run_case(const Tri& T, const Case2& c) {
  vf::Stats& st = vf::stats();
  const double scale = SCALES[c.sc];
  if (c.kind == "pt") { check_locate(T, c, c.x, nullptr); return; }
  // barycentre case: cartesian_coordinates of every vertex, barycenter, then locate the barycentre again
  const int d = c.d;
  SH s = fk::to_gudhi<SH>(c.simplex);
  auto verts = fk::vertices(c.simplex);
  const int k = (int)verts.size() - 1;
  const std::string ctx = std::string(" tr=") + tr_name[c.tr] + " scale=" + std::to_string(scale) + " simplex{" + fk::str(c.simplex) + "}";
  std::vector<long double> mean(d, 0);
  for (auto& v : verts) {
    std::vector<long double> xv(v.begin(), v.end());
    auto want = ref_cartesian(T, xv, scale);
    Eigen::VectorXd got = T.tr->cartesian_coordinates(std::vector<int>(v.begin(), v.end()), scale);
    ++g_calls;
    bool ok = got.size() == d;
    for (int i = 0; ok && i < d; ++i) ok = fabsl((long double)got(i) - want[i]) <= 1e-9L;
    if (!ok) vf::mismatch("C20:cartesian_coordinates", "vertex (" + fk::str(v) + ")" + ctx);
    for (int i = 0; i < d; ++i) mean[i] += want[i] / (k + 1);
  }
  Eigen::VectorXd bc = T.tr->barycenter(s, scale);
  ++g_calls;
  bool ok = bc.size() == d;
  for (int i = 0; ok && i < d; ++i) ok = fabsl((long double)bc(i) - mean[i]) <= 1e-9L;
  if (!ok) vf::mismatch("C20:barycenter", ctx);
  st.add("barycenter.checked");
  std::vector<i64> x(d, 0);
  for (auto& v : verts) for (int i = 0; i < d; ++i) x[i] += (i64)v[i] * (DEN / (k + 1));
  std::vector<double> p(d);
  for (int i = 0; i < d; ++i) p[i] = ok ? bc(i) : (double)mean[i];
  check_locate(T, c, x, &p);   // must give the simplex back
}

int main(int argc, char** argv) {
  vf::Args a = vf::parse_args(argc, argv);
  vf::install_handlers();
  vf::Stats& st = vf::stats();
  if (!a.replay.empty()) {
    auto kv = vf::parse_kv(a.replay);
    Case2 c;
    c.kind = kv["k"]; c.d = atoi(kv["d"].c_str()); c.tr = atoi(kv["tr"].c_str()); c.sc = atoi(kv["sc"].c_str());
    if (c.kind == "pt") { c.x = fk::parse_ll(kv["x"]); c.x.resize(c.d, 0); }
    else { c.simplex = Rep{vf::parse_ints(kv["y"]), fk::parse_parts(kv["w"])}; c.simplex.y.resize(c.d, 0); }
    vf::set_case(c.kind == "construct" ? a.replay : encode(c));
    Tri T = make_tr(c.d, c.tr);
    if (c.kind != "construct") run_case(T, c);
    vf::end_case();
    vf::finish();
    return 0;
  }
  std::vector<int> dims = vf::parse_ints(a.get("dims", "1,2,3"));
  std::vector<int> trs = vf::parse_ints(a.get("trs", "0,1,2,3,4,5,6"));
  std::vector<int> scs = vf::parse_ints(a.get("scales", "0,1,2"));
  std::vector<int> grid = vf::parse_ints(a.get("grid", "-6,12"));          // numerators over 6, inclusive range
  std::vector<int> pbase = vf::parse_ints(a.get("pbase", "-6,-3,0,2,3,6"));  // numerators over 6 of the perturbed points
  std::vector<int> peps = vf::parse_ints(a.get("peps", "60,6000"));        // perturbation sizes in 1/DEN (1e-10, 1e-8)
  std::vector<int> bbox = vf::parse_ints(a.get("bbox", "-1,1"));           // base vertices of the barycentre simplices
  long long idx = 0, cases = 0;
  for (int d : dims) {
    auto canon = fk::ordered_partitions(d, true);
    auto bases = fk::box_points(d, bbox[0], bbox[1]);
    auto deltas = fk::box_points(d, -1, 1);
    for (int tr : trs) {
      vf::set_case("k=construct;d=" + std::to_string(d) + ";tr=" + std::to_string(tr));
      Tri T = make_tr(d, tr);
      vf::end_case();
      for (int sc : scs) {
        Case2 c;
        c.d = d; c.tr = tr; c.sc = sc;
        auto exec = [&]() {
          if (idx++ % a.nshards != a.shard) return;
          std::string enc = encode(c);
          vf::set_case(enc);
          run_case(T, c);
          vf::end_case();
          if (++cases % 99991 == 1) st.sample(enc);
        };
        // (A) the rational grid
        c.kind = "pt";
        for (auto& g : fk::box_points(d, grid[0], grid[1])) {
          c.x.assign(d, 0);
          for (int i = 0; i < d; ++i) c.x[i] = (i64)g[i] * (DEN / 6);
          exec();
        }
        // (B) points 1e-10 (negligible) and 1e-8 (significant) off the faces, every sign pattern
        std::vector<int> pidx(d, 0);
        for (;;) {
          for (int eps : peps)
            for (auto& dl : deltas) {
              bool zero = true;
              for (int v : dl) if (v) zero = false;
              if (zero) continue;
              c.x.assign(d, 0);
              for (int i = 0; i < d; ++i) c.x[i] = (i64)pbase[pidx[i]] * (DEN / 6) + (i64)dl[i] * eps;
              exec();
            }
          int i = d - 1;
          while (i >= 0 && ++pidx[i] == (int)pbase.size()) pidx[i--] = 0;
          if (i < 0) break;
        }
        // (C) barycentre of every simplex of the universe: coordinates, barycenter, round trip through locate_point
        c.kind = "bary";
        c.x.clear();
        for (auto& y : bases)
          for (auto& w : canon) {
            c.simplex = Rep{y, w};
            exec();
          }
      }
    }
  }
  st.add("ev.states", cases);
  st.add("ev.traces", cases);
  st.add("ev.transitions", g_calls);
  st.add("ev.evaluations", g_calls);
  st.add("ev.nontrivial", g_nontrivial);
  st.add("ev.incomplete", 0);
  vf::finish();
  return 0;
}
#endif
