// Shared by the Simplex_tree checks (C01, C03, C04, C15): option sets, model <-> tree helpers, and the complete
// observation of a Simplex_tree against the reference complex.
#ifndef VF_ST_COMMON_HPP
#define VF_ST_COMMON_HPP

#include <gudhi/Simplex_tree.h>
#include <gudhi/graph_simplicial_complex.h>

#include "harness.hpp"
#include "ref_complex.hpp"

namespace stc {

struct Opt_fast_cofaces : Gudhi::Simplex_tree_options_default {
  static const bool link_nodes_by_label = true;
};
struct Opt_stable : Gudhi::Simplex_tree_options_default {
  static const bool stable_simplex_handles = true;
};
struct Opt_stable_fast_cofaces : Gudhi::Simplex_tree_options_default {
  static const bool link_nodes_by_label = true;
  static const bool stable_simplex_handles = true;
};
struct Opt_short : Gudhi::Simplex_tree_options_default {
  typedef short Vertex_handle;
};

#ifndef VF_OPT
#define VF_OPT 0
#endif
#if VF_OPT == 0
using Opt = Gudhi::Simplex_tree_options_default;
static const char* opt_name = "default";
#elif VF_OPT == 1
using Opt = Gudhi::Simplex_tree_options_full_featured;
static const char* opt_name = "full_featured";
#elif VF_OPT == 2
using Opt = Gudhi::Simplex_tree_options_minimal;
static const char* opt_name = "minimal";
#elif VF_OPT == 3
using Opt = Gudhi::Simplex_tree_options_fast_persistence;
static const char* opt_name = "fast_persistence";
#elif VF_OPT == 4
using Opt = Opt_fast_cofaces;
static const char* opt_name = "fast_cofaces";
#elif VF_OPT == 5
using Opt = Opt_stable;
static const char* opt_name = "stable";
#elif VF_OPT == 6
using Opt = Opt_stable_fast_cofaces;
static const char* opt_name = "stable_fast_cofaces";
#elif VF_OPT == 7
using Opt = Opt_short;
static const char* opt_name = "short_vertex";
#endif

using ref::Simplex;

template <class ST>
std::vector<typename ST::Vertex_handle> to_vh(const Simplex& s) {
  std::vector<typename ST::Vertex_handle> v;
  for (int x : s) v.push_back((typename ST::Vertex_handle)x);
  return v;
}

template <class ST>
Simplex simplex_of(const ST& st, typename ST::Simplex_handle sh) {
  Simplex s;
  for (auto v : st.simplex_vertex_range(sh)) s.push_back((int)v);
  std::sort(s.begin(), s.end());
  return s;
}

inline std::string strset(const std::vector<Simplex>& v) {
  std::string r = "{";
  for (auto& s : v) r += ref::str(s);
  return r + "}";
}

// Build a tree holding exactly the model, by plain insert_simplex in the model's filtration order.
template <class ST>
void build_from_model(ST& st, const ref::Complex& m) {
  for (auto& s : m.filtration_order()) {
    if constexpr (ST::Options::store_filtration)
      st.insert_simplex(to_vh<ST>(s), (typename ST::Filtration_value)m.filt(s));
    else
      st.insert_simplex(to_vh<ST>(s));
  }
}

// Complete non-mutating observation.  `universe`: every candidate simplex (all non-empty subsets of the label set).
// `prop` prefixes the mismatch class.
template <class ST>
void observe(const ST& st, const ref::Complex& m, const std::vector<Simplex>& universe, const std::string& prop) {
  using SH = typename ST::Simplex_handle;
  constexpr bool has_filt = ST::Options::store_filtration;
  auto bad = [&](const std::string& obs, const std::string& d) {
    vf::mismatch(prop + ":" + obs, std::string(opt_name) + " " + d + " model=" + m.key());
  };
  int mdim = m.dimension();
  for (auto& s : universe) {
    SH sh = st.find(to_vh<ST>(s));
    bool present = sh != st.null_simplex();
    if (present != m.has(s)) {
      bad("find", "simplex " + ref::str(s) + " found=" + std::to_string(present));
      continue;
    }
    if (!present) continue;
    if constexpr (has_filt) {
      if ((double)st.filtration(sh) != m.filt(s))
        bad("filtration", ref::str(s) + " got " + std::to_string((double)st.filtration(sh)) + " want " +
                              std::to_string(m.filt(s)));
    }
    if (st.dimension(sh) != (int)s.size() - 1)
      bad("dimension(simplex)", ref::str(s) + " got " + std::to_string(st.dimension(sh)));
    {  // vertex range: documented decreasing order
      std::vector<int> got;
      for (auto v : st.simplex_vertex_range(sh)) got.push_back((int)v);
      std::vector<int> want(s.rbegin(), s.rend());
      if (got != want) bad("simplex_vertex_range", ref::str(s) + " got " + vf::join(got));
    }
    {  // boundary
      std::vector<Simplex> got;
      for (auto b : st.boundary_simplex_range(sh)) got.push_back(simplex_of(st, b));
      std::vector<Simplex> want = ref::facets_of(s);
      std::vector<Simplex> gs = got, ws = want;
      std::sort(gs.begin(), gs.end());
      std::sort(ws.begin(), ws.end());
      if (gs != ws) bad("boundary_simplex_range", ref::str(s) + " got " + strset(got));
      else if (got.size() > 1) {
        // omitted vertex must run monotonically through the simplex (that is what makes the alternating sum a boundary)
        std::vector<Simplex> rev(want.rbegin(), want.rend());
        if (got != want && got != rev) bad("boundary_simplex_range.order", ref::str(s) + " got " + strset(got));
      }
      std::vector<std::pair<Simplex, int>> gp;
      for (auto b : st.boundary_opposite_vertex_simplex_range(sh))
        gp.push_back({simplex_of(st, b.first), (int)b.second});
      bool ok = gp.size() == want.size();
      std::vector<int> opp;
      for (auto& pr : gp) {
        Simplex u = pr.first;
        u.push_back(pr.second);
        if (ref::norm(u) != s || pr.first.size() + 1 != s.size()) ok = false;
        if (!m.has(pr.first)) ok = false;
        opp.push_back(pr.second);
      }
      std::vector<int> os = opp;
      std::sort(os.begin(), os.end());
      if (s.size() > 1 && os != s) ok = false;
      if (s.size() == 1 && !gp.empty()) ok = false;
      if (!ok) bad("boundary_opposite_vertex_simplex_range", ref::str(s) + " opposite " + vf::join(opp));
      else if (opp.size() > 1 && !std::is_sorted(opp.begin(), opp.end()) &&
               !std::is_sorted(opp.rbegin(), opp.rend()))
        bad("boundary_opposite_vertex_simplex_range.order", ref::str(s) + " opposite " + vf::join(opp));
    }
    for (int c = 0; c <= 3; ++c) {  // star (c == 0) and cofaces of codimension c
      std::vector<Simplex> got;
      if (c == 0) { for (auto h : st.star_simplex_range(sh)) got.push_back(simplex_of(st, h)); }
      else { for (auto h : st.cofaces_simplex_range(sh, c)) got.push_back(simplex_of(st, h)); }
      std::sort(got.begin(), got.end());
      std::vector<Simplex> want = m.cofaces(s, c);
      std::sort(want.begin(), want.end());
      if (got != want) {
        std::string sub = (c == 0) ? "star_simplex_range" : "cofaces_simplex_range";
        bad(sub, ref::str(s) + " codim " + std::to_string(c) + " got " + strset(got) + " want " + strset(want) +
                     " ubdim=" + std::to_string(st.upper_bound_dimension()));
      }
      if (c == 0) {
        std::vector<Simplex> got2;
        for (auto h : st.cofaces_simplex_range(sh, 0)) got2.push_back(simplex_of(st, h));
        std::sort(got2.begin(), got2.end());
        if (got2 != got) bad("cofaces_simplex_range(0)!=star", ref::str(s));
      }
    }
    {
      bool want = false;
      for (auto& kv : m.s)
        if (kv.first.size() == s.size() + 1 && ref::subset(s, kv.first) && kv.first.back() > s.back() &&
            std::equal(s.begin(), s.end(), kv.first.begin()))
          want = true;
      if (st.has_children(sh) != want) bad("has_children", ref::str(s));
    }
  }
  {  // global enumerations
    std::vector<int> gv;
    for (auto v : st.complex_vertex_range()) gv.push_back((int)v);
    if (gv != m.vertices()) bad("complex_vertex_range", "got " + vf::join(gv));
    std::vector<Simplex> all;
    for (auto h : st.complex_simplex_range()) all.push_back(simplex_of(st, h));
    std::vector<Simplex> want;
    for (auto& kv : m.s) want.push_back(kv.first);
    // compared as a multiset (each simplex exactly once); the traversal order is not part of the property
    {
      std::vector<Simplex> a2 = all;
      std::sort(a2.begin(), a2.end());
      if (a2 != want) bad("complex_simplex_range", "got " + strset(all));
    }
    for (int d = 0; d <= 3; ++d) {
      std::vector<Simplex> sk, wsk;
      for (auto h : st.skeleton_simplex_range(d)) sk.push_back(simplex_of(st, h));
      for (auto& kv : m.s) if ((int)kv.first.size() - 1 <= d) wsk.push_back(kv.first);
      std::sort(sk.begin(), sk.end());
      if (sk != wsk) bad("skeleton_simplex_range", "d=" + std::to_string(d) + " got " + strset(sk));
    }
    if (st.num_vertices() != m.vertices().size()) bad("num_vertices", std::to_string(st.num_vertices()));
    if (st.num_simplices() != m.s.size()) bad("num_simplices", std::to_string(st.num_simplices()));
    if (st.is_empty() != m.empty()) bad("is_empty", "");
    if (st.upper_bound_dimension() < mdim)
      bad("upper_bound_dimension", std::to_string(st.upper_bound_dimension()) + " < " + std::to_string(mdim));
  }
}

// Mutating observers (they may recompute and cache the dimension / the filtration order); call last.
template <class ST>
void observe_mutating(ST& st, const ref::Complex& m, const std::string& prop, bool dim_first) {
  auto bad = [&](const std::string& obs, const std::string& d) {
    vf::mismatch(prop + ":" + obs, std::string(opt_name) + " " + d + " model=" + m.key());
  };
  auto check_dim = [&]() {
    int d = st.dimension();
    if (d != m.dimension()) bad("dimension()", "got " + std::to_string(d) + " want " + std::to_string(m.dimension()));
  };
  auto check_counts = [&]() {
    std::vector<size_t> got = st.num_simplices_by_dimension();
    std::vector<size_t> want(m.dimension() + 1, 0);
    for (auto& kv : m.s) want[kv.first.size() - 1]++;
    if (got != want) bad("num_simplices_by_dimension", "got " + vf::join(got) + " want " + vf::join(want));
  };
  if (dim_first) { check_dim(); check_counts(); check_dim(); }
  else { check_counts(); check_dim(); }
  if constexpr (ST::Options::store_key) {
    st.clear_filtration();
    std::vector<Simplex> got;
    for (auto h : st.filtration_simplex_range()) got.push_back(simplex_of(st, h));
    std::vector<Simplex> want = m.filtration_order();
    if (got != want) bad("filtration_simplex_range", "got " + strset(got) + " want " + strset(want));
  }
}

// equality against rebuilt trees (same options, and the default options for cross-option equality)
template <class ST>
void observe_equality(const ST& st, const ref::Complex& m, const std::string& prop) {
  auto bad = [&](const std::string& obs, const std::string& d) {
    vf::mismatch(prop + ":" + obs, std::string(opt_name) + " " + d + " model=" + m.key());
  };
  {
    ST same;
    build_from_model(same, m);
    if (!(st == same) || (st != same) || !(same == st)) bad("operator==", "tree != rebuild of its model");
    // a perturbed model must compare different
    if (!m.empty()) {
      ref::Complex p = m;
      // remove a maximal simplex (the last in filtration order is always maximal)
      Simplex last = m.filtration_order().back();
      p.s.erase(last);
      ST other;
      build_from_model(other, p);
      if (st == other || !(st != other)) bad("operator==", "equal to a tree lacking " + ref::str(last));
      if (ST::Options::store_filtration && m.filt(last) + 1 != m.filt(last)) {  // (not for +inf: inf + 1 == inf)
        ref::Complex q = m;
        q.s[last] = q.s[last] + 1;
        ST other2;
        build_from_model(other2, q);
        if (st == other2) bad("operator==", "equal to a tree with another value on " + ref::str(last));
      }
    }
  }
  if constexpr (!std::is_same_v<typename ST::Options, Gudhi::Simplex_tree_options_default> &&
                ST::Options::store_filtration) {
    Gudhi::Simplex_tree<Gudhi::Simplex_tree_options_default> d;
    build_from_model(d, m);
    if (!(st == d) || !(d == st)) bad("operator==(cross-option)", "tree != default-option rebuild of its model");
  }
}

inline std::vector<Simplex> universe_of(const std::vector<int>& labels) { return ref::nonempty_subsets(labels); }

}  // namespace stc

#endif
