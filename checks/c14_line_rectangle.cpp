// C14 - the specialised 1D (function on a line) and 2D (top cells of a rectangle) persistence routines agree with the
// generic persistence of the lower-star cubical filtration.
// E2 bounded-exhaustive input enumeration on the real routines; oracle = c14_oracle.hpp (Z_2 column reduction on the
// explicit cell complex), itself cross-checked against ref::persistence over Z_3 on the signed boundary.
//
// One source, three build units:  -DVF_PART=0 line routine, =1 rectangle with Filtration_value=double, Index=std::size_t,
// =2 rectangle with Filtration_value=float, Index=unsigned (the Python binding uses double/unsigned).
//
// Case encodings (replayable):   line;v=0,2,1,2        (ranks; every comparator configuration is run on them)
//                                rect;r=3;c=3;v=0,1,...  (row-major = C order top-cell values; both output modes are run)
#include "harness.hpp"
#include "c14_oracle.hpp"

#include <bitset>
#include <cmath>
#include <limits>
#include <map>

#ifndef VF_PART
#define VF_PART 0
#endif

#if VF_PART == 0
#include <gudhi/Persistence_on_a_line.h>
#include <boost/range/counting_range.hpp>
#include <boost/range/adaptor/transformed.hpp>
#include <list>
#else
#include <gudhi/Persistence_on_rectangle.h>
#endif

typedef std::tuple<int, long, long> Triple;  // (dim, birth, death) in key space or index space

// cheap counter: looks the map slot up once per call site
#define CNT(name, n) do { static long long* p_ = &vf::stats().c[name]; *p_ += (n); } while (0)

static long long g_case_index = 0;  // running index over every enumerated case of this process (for sharding)
static bool g_strict_zero_length = false;

static std::string triples_str(const std::vector<Triple>& v) {
  std::ostringstream o;
  o << "{";
  for (size_t i = 0; i < v.size(); ++i)
    o << (i ? " " : "") << "(" << std::get<0>(v[i]) << "," << std::get<1>(v[i]) << "," << std::get<2>(v[i]) << ")";
  o << "}";
  return o.str();
}

static void make_case(std::string& s, const char* prefix, const std::vector<int>& v) {
  s.assign(prefix);
  char b[16];
  for (size_t i = 0; i < v.size(); ++i) {
    int n = snprintf(b, sizeof b, i ? ",%d" : "%d", v[i]);
    s.append(b, n);
  }
}

// expected intervals (key space), from the oracle bars; returns false if the oracle output is not a barcode of a
// connected, acyclic-at-infinity complex (exactly one essential class, in dimension 0, born at the minimum)
static bool expected_from_bars(const std::vector<c14::Bar>& bars, const std::vector<int>& cell_key,
                               const std::vector<int>& owner, int min_key, std::vector<Triple>& by_key,
                               std::vector<Triple>& by_index) {
  by_key.clear();
  by_index.clear();
  int essential = 0;
  bool ok = true;
  for (auto& b : bars) {
    if (b.dcell < 0) {
      ++essential;
      if (b.dim != 0 || cell_key[b.bcell] != min_key) ok = false;
      continue;
    }
    if (cell_key[b.bcell] == cell_key[b.dcell]) continue;
    by_key.push_back(Triple(b.dim, cell_key[b.bcell], cell_key[b.dcell]));
    by_index.push_back(Triple(b.dim, owner[b.bcell], owner[b.dcell]));
  }
  std::sort(by_key.begin(), by_key.end());
  std::sort(by_index.begin(), by_index.end());
  return ok && essential == 1;
}

static void oracle_selfcheck_fail(const std::string& what) { vf::mismatch("C14:ENGINE:oracle_selfcheck", what); }

static bool all_distinct(const std::vector<int>& v) {  // values are small non-negative ints
  unsigned long long seen = 0;
  for (int x : v) {
    if (x < 0 || x >= 64) { std::vector<int> s(v); std::sort(s.begin(), s.end()); return std::adjacent_find(s.begin(), s.end()) == s.end(); }
    if (seen >> x & 1) return false;
    seen |= 1ull << x;
  }
  return true;
}

// =====================================================================================================================
#if VF_PART == 0
// =====================================================================================================================
namespace gp = Gudhi::persistent_cohomology;

static std::map<int, c14::CellComplex> g_vm, g_tm;

template <class F, class KeyFn, class MemberFn>
static void verify_line(const std::string& cfg, size_t n, const std::vector<std::pair<F, F>>& calls, KeyFn key,
                        MemberFn is_input, const std::vector<Triple>& expect, int min_key,
                        const std::vector<Triple>* expect_exact_index) {
  CNT("ev.transitions", 1);
  CNT("ev.evaluations", 1);
  if (n == 0) {
    if (!calls.empty()) vf::mismatch("C14:line:" + cfg + ":calls_on_empty_input", "out called " + std::to_string(calls.size()) + " times");
    return;
  }
  if (calls.empty()) { vf::mismatch("C14:line:" + cfg + ":no_infinite_interval", "out never called"); return; }
  for (auto& c : calls) {
    if (!is_input(c.first) || (&c != &calls.back() && !is_input(c.second))) {
      std::ostringstream o;
      o << "out(" << c.first << "," << c.second << ") has an argument that is not an element of the input";
      vf::mismatch("C14:line:" + cfg + ":value_not_in_input", o.str());
      return;
    }
  }
  auto& last = calls.back();
  if (key(last.first) != min_key) {
    std::ostringstream o;
    o << "last call out(" << last.first << "," << last.second << "), key " << key(last.first) << ", want the global minimum key " << min_key;
    vf::mismatch("C14:line:" + cfg + ":global_min", o.str());
  }
  if (!(last.second == std::numeric_limits<F>::infinity())) {
    std::ostringstream o;
    o << "last call out(" << last.first << "," << last.second << "): second argument is not numeric_limits::infinity()";
    vf::mismatch("C14:line:" + cfg + ":infinite_marker", o.str());
  }
  std::vector<Triple> got, got_idx;
  long zero = 0;
  for (size_t i = 0; i + 1 < calls.size(); ++i) {
    int kb = key(calls[i].first), kd = key(calls[i].second);
    if (kb == kd) { ++zero; continue; }
    got.push_back(Triple(0, kb, kd));
    got_idx.push_back(Triple(0, (long)calls[i].first, (long)calls[i].second));
  }
  if (zero) {
    // the documentation of the line routine says pairs of length 0 are not part of the output
    CNT("line.zero_length_intervals_emitted", zero);
    vf::mismatch("C14:line:" + cfg + ":zero_length_interval_emitted", std::to_string(zero) + " interval(s) with equivalent birth and death");
  }
  std::sort(got.begin(), got.end());
  if (got != expect) {
    vf::mismatch("C14:line:" + cfg + ":intervals", "got " + triples_str(got) + " want " + triples_str(expect) + " (dim,birth key,death key)");
    return;
  }
  if (expect_exact_index) {
    std::sort(got_idx.begin(), got_idx.end());
    if (got_idx != *expect_exact_index)
      vf::mismatch("C14:line:" + cfg + ":index_pairs", "got " + triples_str(got_idx) + " want " + triples_str(*expect_exact_index) + " (all values distinct)");
  }
}

static void check_line(const std::vector<int>& r) {
  static std::string cs;
  make_case(cs, "line;v=", r);
  vf::set_case(cs);
  size_t n = r.size();
  CNT("ev.states", 1);
  CNT("ev.traces", 1);
  { static long long* len_counter[64] = {}; if (n < 64) { if (!len_counter[n]) len_counter[n] = &vf::stats().c["line.len" + std::to_string(n)]; ++*len_counter[n]; } }
  vf::stats().sample(cs, 3);

  int maxr = 0, minr = 0;
  std::vector<Triple> exp_less, exp_less_idx, exp_greater, exp_greater_idx, tmp, tmp_idx;
  static std::vector<c14::Bar> bars;
  static std::vector<int> ck, ow;
  bool distinct = all_distinct(r);
  if (n > 0) {
    maxr = *std::max_element(r.begin(), r.end());
    minr = *std::min_element(r.begin(), r.end());
    if (!g_vm.count((int)n)) { g_vm[(int)n] = c14::path_vertex_model((int)n); g_tm[(int)n] = c14::path_topcell_model((int)n); }
    const c14::CellComplex& vm = g_vm[(int)n];
    const c14::CellComplex& tm = g_tm[(int)n];
    c14::persistence_z2(vm, r.data(), bars, ck, ow);
    if (!expected_from_bars(bars, ck, ow, minr, exp_less, exp_less_idx)) oracle_selfcheck_fail("line: essential classes");
    // the two conventions (values on vertices, PL / values on edges, lower star) must give the same diagram
    c14::persistence_z2(tm, r.data(), bars, ck, ow);
    if (!expected_from_bars(bars, ck, ow, minr, tmp, tmp_idx) || tmp != exp_less) oracle_selfcheck_fail("line: vertex model vs top-cell model");
    if (g_case_index % 16 == 0) {
      auto z3 = c14::persistence_zp_values(tm, ck, 3);
      std::vector<std::tuple<int, int, int>> mine;
      for (auto& t : tmp) mine.push_back(std::make_tuple(std::get<0>(t), (int)std::get<1>(t), (int)std::get<2>(t)));
      mine.push_back(std::make_tuple(0, minr, -1));
      std::sort(mine.begin(), mine.end());
      if (mine != z3) oracle_selfcheck_fail("line: Z_2 bitmask reduction vs dense Z_3 reduction");
      CNT("oracle.crosschecked_with_Z3", 1);
    }
    std::vector<int> rev(n);
    for (size_t i = 0; i < n; ++i) rev[i] = maxr - r[i];
    c14::persistence_z2(vm, rev.data(), bars, ck, ow);
    if (!expected_from_bars(bars, ck, ow, 0, exp_greater, exp_greater_idx)) oracle_selfcheck_fail("line: essential classes (reversed)");
    if (!exp_less.empty()) CNT("ev.nontrivial", 1);
    { static long long* k_counter[6] = {}; size_t k = std::min<size_t>(exp_less.size(), 5); if (!k_counter[k]) k_counter[k] = &vf::stats().c["line.expected_finite_intervals_" + std::to_string(k)]; ++*k_counter[k]; }
    if (!distinct) CNT("line.cases_with_ties", 1);
  }

  // --- less, std::vector<double>, default comparator
  {
    std::vector<double> in(r.begin(), r.end());
    std::vector<std::pair<double, double>> calls;
    gp::compute_persistence_of_function_on_line(in, [&](double b, double d) { calls.push_back({b, d}); });
    verify_line<double>("less", n, calls, [](double v) { return (int)v; },
                        [&](double v) { return std::find(in.begin(), in.end(), v) != in.end(); }, exp_less, minr, nullptr);
  }
  // --- std::greater (superlevel sets): key = max - v
  {
    std::vector<double> in(r.begin(), r.end());
    std::vector<std::pair<double, double>> calls;
    gp::compute_persistence_of_function_on_line(in, [&](double b, double d) { calls.push_back({b, d}); }, std::greater<>());
    verify_line<double>("greater", n, calls, [&](double v) { return maxr - (int)v; },
                        [&](double v) { return std::find(in.begin(), in.end(), v) != in.end(); }, exp_greater, 0, nullptr);
  }
  // --- comparator on a key: value = 4*rank + (position mod 4), lt compares floor(value/4); float
  {
    std::vector<float> in(n);
    for (size_t i = 0; i < n; ++i) in[i] = (float)(4 * r[i] + (int)(i & 3));
    std::vector<std::pair<float, float>> calls;
    auto lt = [](float a, float b) { return std::floor(a / 4) < std::floor(b / 4); };
    gp::compute_persistence_of_function_on_line(in, [&](float b, float d) { calls.push_back({b, d}); }, lt);
    verify_line<float>("key", n, calls, [](float v) { return (int)std::floor(v / 4); },
                       [&](float v) { return std::find(in.begin(), in.end(), v) != in.end(); }, exp_less, minr, nullptr);
  }
  // --- index mode: the input is the list of positions, compared through the values
  {
    std::vector<int> in(n);
    for (size_t i = 0; i < n; ++i) in[i] = (int)i;
    std::vector<std::pair<int, int>> calls;
    auto lt = [&](int a, int b) { return r[a] < r[b]; };
    gp::compute_persistence_of_function_on_line(in, [&](int b, int d) { calls.push_back({b, d}); }, lt);
    // the last call carries numeric_limits<int>::infinity() (= 0) as second argument: only the first one is an index
    verify_line<int>("index", n, calls, [&](int i) { return r[i]; }, [&](int i) { return i >= 0 && i < (int)n; }, exp_less,
                     minr, distinct ? &exp_less_idx : nullptr);
  }
  // --- input through a single-pass style range returning values (what the Python binding passes)
  {
    std::vector<double> in(r.begin(), r.end());
    auto rng = boost::adaptors::transform(boost::counting_range<std::ptrdiff_t>(0, (std::ptrdiff_t)n),
                                          [&](std::ptrdiff_t i) -> double { return in[i]; });
    std::vector<std::pair<double, double>> calls;
    gp::compute_persistence_of_function_on_line(rng, [&](double b, double d) { calls.push_back({b, d}); });
    verify_line<double>("less_transform_range", n, calls, [](double v) { return (int)v; },
                        [&](double v) { return std::find(in.begin(), in.end(), v) != in.end(); }, exp_less, minr, nullptr);
  }
  // --- std::list<double>, std::less<double> passed as an lvalue
  {
    std::list<double> in(r.begin(), r.end());
    std::vector<std::pair<double, double>> calls;
    std::less<double> cmp;
    auto out = [&](double b, double d) { calls.push_back({b, d}); };
    gp::compute_persistence_of_function_on_line(in, out, cmp);
    verify_line<double>("less_list", n, calls, [](double v) { return (int)v; },
                        [&](double v) { return std::find(in.begin(), in.end(), v) != in.end(); }, exp_less, minr, nullptr);
  }
  vf::end_case();
}

static void run_scope(const std::string& scope, const vf::Args& a) {
  // wo:<lo>-<hi>   every weak order of every length lo..hi ;  pow:<len>:<k>   {0..k-1}^len
  std::vector<std::string> parts;
  { std::string cur; for (char ch : scope) { if (ch == ':') { parts.push_back(cur); cur.clear(); } else cur += ch; } parts.push_back(cur); }
  auto visit = [&](const std::vector<int>& v) {
    long long idx = g_case_index++;
    if (idx % a.nshards != a.shard) return;
    check_line(v);
  };
  if (parts[0] == "wo") {
    int lo = 0, hi = 0;
    sscanf(parts[1].c_str(), "%d-%d", &lo, &hi);
    for (int n = lo; n <= hi; ++n) {
      long long before = g_case_index;
      c14::for_each_weak_order(n, visit);
      if (g_case_index - before != c14::FUBINI[n]) { CNT("ev.incomplete", 1); oracle_selfcheck_fail("weak-order enumerator count"); }
    }
  } else if (parts[0] == "pow") {
    int n = atoi(parts[1].c_str()), k = atoi(parts[2].c_str());
    c14::for_each_power(n, k, visit);
  } else {
    CNT("ev.incomplete", 1);
  }
}

static void replay(const std::string& cs) {
  auto kv = vf::parse_kv(cs);
  check_line(vf::parse_ints(kv["v"]));
}

// =====================================================================================================================
#else  // rectangle
// =====================================================================================================================
#if VF_PART == 1
typedef std::size_t Index;
typedef double Value;
#else
typedef unsigned Index;
typedef float Value;
#endif

static std::map<std::pair<int, int>, c14::CellComplex> g_rect;
static std::bitset<256> g_interior_seen;
static std::bitset<128> g_border_seen;   // side*32 + pattern of the 5 neighbours
static std::bitset<32> g_corner_seen;    // corner*8 + pattern of the 3 neighbours

static inline bool larger(const std::vector<int>& v, int a, int b) {  // square a after square b in the (value,index) order
  return v[a] > v[b] || (v[a] == v[b] && a > b);
}

static void record_patterns(int R, int C, const std::vector<int>& v) {
  for (int y = 0; y < R; ++y)
    for (int x = 0; x < C; ++x) {
      int i = y * C + x;
      unsigned pat = 0, k = 0;
      int nb = 0;
      for (int dy = -1; dy <= 1; ++dy)
        for (int dx = -1; dx <= 1; ++dx) {
          if (!dx && !dy) continue;
          int xx = x + dx, yy = y + dy;
          if (xx < 0 || yy < 0 || xx >= C || yy >= R) continue;
          if (larger(v, yy * C + xx, i)) pat |= 1u << k;
          ++k; ++nb;
        }
      if (nb == 8) g_interior_seen.set(pat);
      else if (nb == 5) { int side = (y == 0) ? 0 : (y == R - 1) ? 1 : (x == 0) ? 2 : 3; g_border_seen.set(side * 32 + pat); }
      else if (nb == 3) { int corner = (y ? 2 : 0) + (x ? 1 : 0); g_corner_seen.set(corner * 8 + pat); }
    }
}

// Input-side footprint of the "two corner squares share their interior vertex" situation (a side of 2 cells):
// true iff some interior vertex touched by >= 2 corner squares has, as the smallest ((value,index) order) of its 4
// surrounding squares, a corner square that is not the last of those corners in the routine's marking order.
static bool shared_corner_vertex_footprint(int R, int C, const std::vector<int>& v) {
  if (R > 2 && C > 2) return false;
  int sx = C - 1, sy = R - 1, dy = C;
  int sq[4] = {0, sx, dy * sy, sx + dy * sy};
  int vx[4] = {0, sx - 1, dy * (sy - 1), sx - 1 + dy * (sy - 1)};
  for (int k = 0; k < 4; ++k) {
    int last = k;
    for (int m = 0; m < 4; ++m) if (vx[m] == vx[k]) last = m;
    if (last == k) continue;  // k is the last corner marking this vertex (or the only one)
    int w = vx[k];
    int around[4] = {w, w + 1, w + dy, w + dy + 1};
    int best = around[0];
    for (int t : around) if (larger(v, best, t)) best = t;
    if (best == sq[k]) return true;
  }
  return false;
}

template <bool output_index>
static void run_mode(int R, int C, const std::vector<int>& v, const std::vector<Value>& in, const std::vector<Triple>& exp_key,
                     const std::vector<Triple>& exp_idx, bool distinct, int min_key, int argmin, const std::string& suffix) {
  const char* mode = output_index ? "indices" : "values";
  typedef std::conditional_t<output_index, Index, Value> Out;
  static std::vector<std::tuple<int, Out, Out>> raw;
  raw.clear();
  auto ret = Gudhi::cubical_complex::persistence_on_rectangle_from_top_cells<output_index>(
      in.data(), (Index)R, (Index)C, [&](Out b, Out d) { raw.push_back(std::make_tuple(0, b, d)); },
      [&](Out b, Out d) { raw.push_back(std::make_tuple(1, b, d)); });
  static_assert(std::is_same<decltype(ret), Out>::value, "return type of persistence_on_rectangle_from_top_cells");
  CNT("ev.transitions", 1);
  CNT("ev.evaluations", 1);
  long N = (long)R * C;
  static std::vector<Triple> got, got_idx;
  got.clear();
  got_idx.clear();
  long zero = 0;
  for (auto& t : raw) {
    long b, d;
    if (output_index) {
      long ib = (long)std::get<1>(t), id = (long)std::get<2>(t);
      if (ib < 0 || ib >= N || id < 0 || id >= N) {
        vf::mismatch(std::string("C14:rect:index_out_of_range:") + mode + suffix, "out" + std::to_string(std::get<0>(t)) + "(" + std::to_string(ib) + "," + std::to_string(id) + ")");
        return;
      }
      b = v[ib]; d = v[id];
      if (b != d) got_idx.push_back(Triple(std::get<0>(t), ib, id));
    } else {
      double fb = (double)std::get<1>(t), fd = (double)std::get<2>(t);
      if (!(fb == std::floor(fb)) || !(fd == std::floor(fd)) || std::fabs(fb) > 1e6 || std::fabs(fd) > 1e6) {
        std::ostringstream o; o << "out" << std::get<0>(t) << "(" << fb << "," << fd << ")";
        vf::mismatch(std::string("C14:rect:value_not_in_input:") + mode + suffix, o.str());
        return;
      }
      b = (long)fb; d = (long)fd;
    }
    if (b == d) { ++zero; continue; }
    got.push_back(Triple(std::get<0>(t), b, d));
  }
  if (zero) {
    if (output_index) { CNT("rect.zero_length_intervals_emitted.indices", zero); CNT("rect.cases_emitting_zero_length.indices", 1); }
    else { CNT("rect.zero_length_intervals_emitted.values", zero); CNT("rect.cases_emitting_zero_length.values", 1); }
    if (distinct) vf::mismatch(std::string("C14:rect:zero_length_with_distinct_values:") + mode + suffix, std::to_string(zero) + " pair(s) with birth == death although all values are distinct");
    else if (g_strict_zero_length) vf::mismatch(std::string("C14:rect:zero_length_interval_emitted:") + mode, std::to_string(zero) + " interval(s) with birth value == death value");
  }
  // returned global minimum
  if (output_index) {
    long gi = (long)ret;
    if (gi < 0 || gi >= N) vf::mismatch(std::string("C14:rect:index_out_of_range:") + mode + suffix, "returned index " + std::to_string(gi));
    else if (v[gi] != min_key || (distinct && gi != argmin))
      vf::mismatch(std::string("C14:rect:global_min:") + mode + suffix, "returned index " + std::to_string(gi) + " (value " + std::to_string(v[gi]) + "), want value " + std::to_string(min_key) + (distinct ? " at index " + std::to_string(argmin) : ""));
  } else {
    if (!((double)ret == (double)min_key)) {
      std::ostringstream o; o << "returned " << (double)ret << ", want " << min_key;
      vf::mismatch(std::string("C14:rect:global_min:") + mode + suffix, o.str());
    }
  }
  std::sort(got.begin(), got.end());
  if (got != exp_key) {
    vf::mismatch(std::string("C14:rect:intervals:") + mode + suffix, "got " + triples_str(got) + " want " + triples_str(exp_key) + " (dim,birth,death)");
    return;
  }
  if (output_index && distinct) {
    std::sort(got_idx.begin(), got_idx.end());
    if (got_idx != exp_idx)
      vf::mismatch(std::string("C14:rect:index_pairs:") + mode + suffix, "got " + triples_str(got_idx) + " want " + triples_str(exp_idx) + " (all values distinct)");
  }
}

static void check_rect(int R, int C, const std::vector<int>& v) {
  static std::string cs;
  {
    char b[48];
    snprintf(b, sizeof b, "rect;r=%d;c=%d;v=", R, C);
    make_case(cs, b, v);
  }
  vf::set_case(cs);
  CNT("ev.states", 1);
  CNT("ev.traces", 1);
  vf::stats().sample(cs, 3);
  auto key = std::make_pair(R, C);
  if (!g_rect.count(key)) g_rect[key] = c14::rectangle_topcell_model(R, C);
  const c14::CellComplex& cx = g_rect[key];
  static std::vector<c14::Bar> bars;
  static std::vector<int> ck, ow;
  static std::vector<Triple> exp_key, exp_idx;
  int argmin = 0;
  for (size_t i = 0; i < v.size(); ++i) if (v[i] < v[argmin]) argmin = (int)i;
  int min_key = v[argmin];
  c14::persistence_z2(cx, v.data(), bars, ck, ow);
  if (!expected_from_bars(bars, ck, ow, min_key, exp_key, exp_idx)) oracle_selfcheck_fail("rect: essential classes");
  if (v.size() <= 6 || g_case_index % 509 == 1) {
    auto z3 = c14::persistence_zp_values(cx, ck, 3);
    std::vector<std::tuple<int, int, int>> mine;
    for (auto& t : exp_key) mine.push_back(std::make_tuple(std::get<0>(t), (int)std::get<1>(t), (int)std::get<2>(t)));
    mine.push_back(std::make_tuple(0, min_key, -1));
    std::sort(mine.begin(), mine.end());
    if (mine != z3) oracle_selfcheck_fail("rect: Z_2 bitmask reduction vs dense Z_3 reduction");
    CNT("oracle.crosschecked_with_Z3", 1);
  }
  bool distinct = all_distinct(v);
  bool h0 = false, h1 = false;
  for (auto& t : exp_key) (std::get<0>(t) == 0 ? h0 : h1) = true;
  if (!exp_key.empty()) CNT("ev.nontrivial", 1);
  if (h0) CNT("rect.cases_with_finite_H0_interval", 1);
  if (h1) CNT("rect.cases_with_H1_interval", 1);
  if (distinct) CNT("rect.cases_all_values_distinct", 1); else CNT("rect.cases_with_ties", 1);
  vf::stats().maxi("rect.max_expected_intervals", (long long)exp_key.size());
  record_patterns(R, C, v);
  bool fp = shared_corner_vertex_footprint(R, C, v);
  if (fp) CNT("rect.cases_with_shared_corner_vertex_footprint", 1);
  std::string suffix = fp ? ":shared_corner_vertex" : "";

  static std::vector<Value> in;
  in.assign(v.begin(), v.end());
  run_mode<false>(R, C, v, in, exp_key, exp_idx, distinct, min_key, argmin, suffix);
  run_mode<true>(R, C, v, in, exp_key, exp_idx, distinct, min_key, argmin, suffix);
  vf::end_case();
}

static void run_scope(const std::string& scope, const vf::Args& a) {
  // wo:<R>x<C>  every weak order of the R*C cells ;  pow:<R>x<C>:<k>  {0..k-1}^(R*C)
  std::vector<std::string> parts;
  { std::string cur; for (char ch : scope) { if (ch == ':') { parts.push_back(cur); cur.clear(); } else cur += ch; } parts.push_back(cur); }
  int R = 0, C = 0;
  if (parts.size() < 2 || sscanf(parts[1].c_str(), "%dx%d", &R, &C) != 2 || R < 2 || C < 2 || (2 * R + 1) * (2 * C + 1) > 128) {
    CNT("ev.incomplete", 1);
    return;
  }
  long long& shape_counter = vf::stats().c["rect.shape_" + parts[1] + "_" + parts[0] + (parts.size() > 2 ? parts[2] : "")];
  auto visit = [&](const std::vector<int>& v) {
    long long idx = g_case_index++;
    if (idx % a.nshards != a.shard) return;
    check_rect(R, C, v);
    ++shape_counter;
  };
  if (parts[0] == "wo") {
    long long before = g_case_index;
    c14::for_each_weak_order(R * C, visit);
    if (g_case_index - before != c14::FUBINI[R * C]) { CNT("ev.incomplete", 1); oracle_selfcheck_fail("weak-order enumerator count"); }
  } else if (parts[0] == "pow" && parts.size() > 2) {
    c14::for_each_power(R * C, atoi(parts[2].c_str()), visit);
  } else {
    CNT("ev.incomplete", 1);
  }
}

static void finish_patterns() {
  vf::stats().maxi("rect.interior_neighbour_patterns_seen_of_256", (long long)g_interior_seen.count());
  vf::stats().maxi("rect.border_neighbour_patterns_seen_of_128", (long long)g_border_seen.count());
  vf::stats().maxi("rect.corner_neighbour_patterns_seen_of_32", (long long)g_corner_seen.count());
}

static void replay(const std::string& cs) {
  auto kv = vf::parse_kv(cs);
  check_rect(atoi(kv["r"].c_str()), atoi(kv["c"].c_str()), vf::parse_ints(kv["v"]));
}
#endif

int main(int argc, char** argv) {
  vf::Args a = vf::parse_args(argc, argv);
  vf::install_handlers();
  g_strict_zero_length = a.geti("strict-zero-length", 0) != 0;
  if (a.geti("case-timeout", 0) > 0) vf::g_case_timeout = (int)a.geti("case-timeout", 0);  // default: the harness's own
  if (!a.replay.empty()) {
    replay(a.replay);
  } else {
    std::string scopes = a.get("scope");
    size_t i = 0;
    while (i <= scopes.size() && !scopes.empty()) {
      size_t j = scopes.find(',', i);
      if (j == std::string::npos) j = scopes.size();
      run_scope(scopes.substr(i, j - i), a);
      i = j + 1;
    }
    if (scopes.empty()) CNT("ev.incomplete", 1);
  }
#if VF_PART != 0
  finish_patterns();
#endif
  CNT("ev.incomplete", 0);
  vf::finish();
  return 0;
}
