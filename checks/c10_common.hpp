// C10 - shared by every part of checks/c10_fields.cpp: the oracle (exact integer arithmetic in __int128 / GMP integers,
// reduced afterwards with a floor modulus; primes by trial division; partial-inverse / partial-identity contracts checked
// prime by prime), the comparison context that builds mismatch classes, and the generic testers for the two API shapes
// of the coefficient classes ("operators" objects working on raw elements, and element classes with overloaded operators).
// No GUDHI code is used to compute an expected value.
#ifndef VF_C10_COMMON_HPP
#define VF_C10_COMMON_HPP

#include <gmpxx.h>

#include <cassert>
#include <climits>
#include <csetjmp>
#include <functional>
#include <limits>
#include <stdexcept>
#include <string>
#include <type_traits>
#include <utility>
#include <vector>

#include "harness.hpp"

namespace c10 {

using i128 = __int128;
using u32 = unsigned int;
using u64 = unsigned long;

// ---------------------------------------------------------------------------------------------------------------
// oracle arithmetic
// ---------------------------------------------------------------------------------------------------------------
inline std::string S(i128 v) {
  if (v == 0) return "0";
  bool neg = v < 0;
  unsigned __int128 u = neg ? (unsigned __int128)(-(v + 1)) + 1 : (unsigned __int128)v;
  std::string s;
  while (u) { s += char('0' + (int)(u % 10)); u /= 10; }
  if (neg) s += '-';
  std::reverse(s.begin(), s.end());
  return s;
}
inline std::string S(const mpz_class& v) {
  std::string s = v.get_str();
  if (s.size() > 80) s = s.substr(0, 30) + "..(" + std::to_string(s.size()) + " digits).." + s.substr(s.size() - 30);
  return s;
}
inline i128 fmod_(i128 v, i128 m) { i128 r = v % m; return r < 0 ? r + m : r; }
inline mpz_class fmod_(const mpz_class& v, const mpz_class& m) {
  mpz_class r;
  mpz_fdiv_r(r.get_mpz_t(), v.get_mpz_t(), m.get_mpz_t());
  return r;
}
inline long smod(i128 v, long q) { return (long)fmod_(v, (i128)q); }
inline long smod(const mpz_class& v, long q) { return (long)mpz_fdiv_ui(v.get_mpz_t(), (unsigned long)q); }

inline bool is_prime(long n) {
  if (n < 2) return false;
  for (long d = 2; d * d <= n; ++d) if (n % d == 0) return false;
  return true;
}
inline std::vector<long> primes_in(long a, long b) {
  std::vector<long> r;
  for (long n = std::max(a, 2L); n <= b; ++n) if (is_prime(n)) r.push_back(n);
  return r;
}
template <class I>
inline I product(const std::vector<long>& ps) { I r = 1; for (long q : ps) r *= q; return r; }

// conversions of observed values into the oracle integer type
template <class I> struct To;
template <> struct To<i128> {
  template <class T> static i128 of(const T& v) { return (i128)v; }
};
template <> struct To<mpz_class> {
  static mpz_class of(const mpz_class& v) { return v; }
  static mpz_class of(unsigned long v) { return mpz_class(v); }
  static mpz_class of(long v) { return mpz_class(v); }
  static mpz_class of(unsigned int v) { return mpz_class(v); }
  static mpz_class of(int v) { return mpz_class(v); }
  static mpz_class of(bool v) { return mpz_class(v ? 1 : 0); }
};
template <class E> inline E from_I(i128 v) { return (E)v; }
template <class E> inline E from_I(const mpz_class& v) { return E(v); }

// size regime of a modulus: part of the mismatch class (a defect that only exists beyond a machine-word boundary
// must not share a class with one that exists for every modulus)
template <class I> inline const char* size_regime(const I& P) {
  static const I two31 = I(1) << 31, two32 = I(1) << 32;
  if (P >= two32) return ",P_ge_2e32";
  if (P >= two31) return ",P_ge_2e31";
  return "";
}
template <> inline const char* size_regime<mpz_class>(const mpz_class&) { return ""; }

template <class I> inline const char* raw_regime(const I& v, const I& P) {
  if (v < 0) return v < -P ? "raw_neg_lt_-P" : "raw_neg_ge_-P";
  return v < P ? "raw_reduced" : "raw_unreduced";
}

// ---------------------------------------------------------------------------------------------------------------
// comparison context
// ---------------------------------------------------------------------------------------------------------------
struct Tot {
  long long evals = 0, calls = 0, tuples = 0, nontrivial = 0;
};
inline Tot& tot() { static Tot t; return t; }

inline long long& skipped_overflow() { static long long n = 0; return n; }
inline long long& skipped_cascade() { static long long n = 0; return n; }

template <class I>
struct Ctx {
  std::string fam;     // label of the GUDHI class under test (goes into the mismatch class)
  std::string chs;     // characteristic / range as text
  I P = 0;
  std::string size;    // size regime suffix
  const I* a = nullptr; const I* b = nullptr; const I* c = nullptr; const I* q = nullptr;
  const char* rawtype = "";

  void set_modulus(const I& p, const std::string& ch) { P = p; chs = ch; size = size_regime(P); }
  void ops(const I* a_, const I* b_ = nullptr, const I* c_ = nullptr, const I* q_ = nullptr) { a = a_; b = b_; c = c_; q = q_; }

  std::string inputs() const {
    std::string s = "char=" + chs + " P=" + S(P);
    if (a) s += " a=" + S(*a);
    if (b) s += " b=" + S(*b);
    if (c) s += " c=" + S(*c);
    if (q) s += " Q=" + S(*q);
    if (rawtype[0]) s += std::string(" rawtype=") + rawtype;
    return s;
  }
  void fail(const char* obs, const char* regime, const std::string& got, const std::string& want) const {
    std::string cls = "C10:" + fam + ":" + obs + ":" + regime + size;
    // only the first five occurrences of a class are written out by the harness: later ones are only counted
    auto& st = vf::stats();
    auto it = st.mism_by_class.find(cls);
    if (it != st.mism_by_class.end() && it->second >= 5) { ++it->second; ++st.mismatches; return; }
    vf::mismatch(cls, "got=" + got + " want=" + want + " " + inputs());
  }
  // classes already reported five times from this context are only counted (no string is built any more)
  std::map<std::pair<const char*, const char*>, long long*> seen5;
  bool counted_only(const char* obs, const char* regime) {
    auto it = seen5.find({obs, regime});
    if (it != seen5.end()) { ++*it->second; ++vf::stats().mismatches; return true; }
    std::string cls = "C10:" + fam + ":" + obs + ":" + regime + size;
    auto& m = vf::stats().mism_by_class;
    auto jt = m.find(cls);
    if (jt != m.end() && jt->second >= 5) { seen5[{obs, regime}] = &jt->second; ++jt->second; ++vf::stats().mismatches; return true; }
    return false;
  }
  template <class G>
  void eq(const char* obs, const char* regime, const G& got, const I& want) {
    ++tot().evals;
    I g = To<I>::of(got);
    if (!(g == want) && !counted_only(obs, regime)) fail(obs, regime, S(g), S(want));
  }
  void eqb(const char* obs, const char* regime, bool got, bool want) {
    ++tot().evals;
    if (got != want && !counted_only(obs, regime)) fail(obs, regime, got ? "true" : "false", want ? "true" : "false");
  }
  void note(const char* obs, const char* regime, const std::string& got, const std::string& want) { fail(obs, regime, got, want); }
};

// ---------------------------------------------------------------------------------------------------------------
// SIGFPE guard: a few library paths divide by zero on some inputs; the enumeration must survive that and report it
// as a mismatch of its own class (units using it are built with -fno-sanitize=integer-divide-by-zero so that the
// hardware trap is what arrives).
// ---------------------------------------------------------------------------------------------------------------
static sigjmp_buf g_jb;
static volatile sig_atomic_t g_guard = 0;
inline void fpe_handler(int sig) {
  if (g_guard) { g_guard = 0; siglongjmp(g_jb, 1); }
  vf::on_signal(sig);
}
inline void install_fpe_guard() { signal(SIGFPE, fpe_handler); }
template <class Fn>
inline bool guarded(Fn&& fn) {
  if (sigsetjmp(g_jb, 1) == 0) {
    g_guard = 1;
    fn();
    g_guard = 0;
    return true;
  }
  return false;
}

// ---------------------------------------------------------------------------------------------------------------
// contracts of the multi-field specific operations, checked prime by prime
// ---------------------------------------------------------------------------------------------------------------
// expected T for (x, Q): product of the primes q | Q with x mod q != 0
template <class I>
inline I expected_T(const std::vector<long>& primes, const I& x, const I& Q) {
  I T = 1;
  for (long q : primes) if (smod(Q, q) == 0 && smod(x, q) != 0) T *= q;
  return T;
}
template <class I>
inline void check_partial_inverse(Ctx<I>& cx, const char* obs_T, const char* obs_v, const char* rg,
                                  const std::vector<long>& primes, const I& x, const I& Q, const I& got_v, const I& got_T) {
  I T = expected_T(primes, x, Q);
  cx.eq(obs_T, rg, got_T, T);
  ++tot().evals;
  if (got_v < 0 || !(got_v < cx.P)) { cx.fail(obs_v, rg, S(got_v), "a residue in [0,P)"); return; }
  for (long q : primes) {
    long r = smod(got_v, q);
    if (smod(T, q) == 0) {
      long xr = smod(x, q);
      if ((r * xr) % q != 1) {
        cx.fail(obs_v, rg, S(got_v) + " (=" + std::to_string(r) + " mod " + std::to_string(q) + ")",
                "inverse of x modulo " + std::to_string(q) + " (T=" + S(T) + ")");
        return;
      }
    } else if (r != 0) {
      cx.fail(obs_v, rg, S(got_v) + " (=" + std::to_string(r) + " mod " + std::to_string(q) + ")",
              "0 modulo " + std::to_string(q) + " (T=" + S(T) + ")");
      return;
    }
  }
}
template <class I>
inline void check_partial_identity(Ctx<I>& cx, const char* obs, const char* rg, const std::vector<long>& primes,
                                   const I& Q, const I& got) {
  ++tot().evals;
  if (got < 0 || !(got < cx.P)) { cx.fail(obs, rg, S(got), "a residue in [0,P)"); return; }
  for (long q : primes) {
    long want = smod(Q, q) == 0 ? 1 : 0;
    if (q == 1) want = 0;
    long r = smod(got, q);
    if (r != want % q) {
      cx.fail(obs, rg, S(got) + " (=" + std::to_string(r) + " mod " + std::to_string(q) + ")",
              std::to_string(want) + " modulo " + std::to_string(q));
      return;
    }
  }
}

// ---------------------------------------------------------------------------------------------------------------
// generic tester of an "operators" object (Zp_field_operators, Z2_field_operators, Multi_field_operators,
// Multi_field_operators_with_small_characteristics). E = the raw element type handed to the methods.
// ---------------------------------------------------------------------------------------------------------------
template <class Ops, class E, class I>
struct OpsTester {
  Ctx<I>& cx;
  Ops& ops;
  bool limited = false;  // fused methods documented "not overflow safe": only called when the exact value fits in E
  I emax = 0;
  OpsTester(Ctx<I>& c, Ops& o) : cx(c), ops(o) {}
  OpsTester(Ctx<I>& c, Ops& o, const I& max_of_E) : cx(c), ops(o), limited(true), emax(max_of_E) {}

  // a, b raw elements (reduced or not, as the documentation of the class allows)
  void binary(const I& A, const I& B, const char* rg) {
    const I& P = cx.P;
    cx.ops(&A, &B);
    E a = from_I<E>(A), b = from_I<E>(B);
    I Ar = fmod_(A, P), Br = fmod_(B, P);
    I s = fmod_(I(Ar + Br), P), d = fmod_(I(Ar - Br), P), m = fmod_(I(Ar * Br), P);
    cx.eq("add", rg, ops.add(a, b), s);
    { E t = a, u = b; ops.add_inplace(t, u); cx.eq("add_inplace", rg, t, s); }
    cx.eq("subtract", rg, ops.subtract(a, b), d);
    { E t = a, u = b; ops.subtract_inplace_front(t, u); cx.eq("subtract_inplace_front", rg, t, d); }
    { E t = a, u = b; ops.subtract_inplace_back(t, u); cx.eq("subtract_inplace_back", rg, u, d); }
    cx.eq("multiply", rg, ops.multiply(a, b), m);
    { E t = a, u = b; ops.multiply_inplace(t, u); cx.eq("multiply_inplace", rg, t, m); }
    cx.eqb("are_equal", rg, ops.are_equal(a, b), Ar == Br);
    tot().calls += 8;
    ++tot().tuples;
    if (!(A < P) || !(B < P) || Ar + Br >= P || Ar < Br || Ar * Br >= P) ++tot().nontrivial;
  }
  void fused(const I& A, const I& B, const I& C, const char* rg) {
    const I& P = cx.P;
    cx.ops(&A, &B, &C);
    E a = from_I<E>(A), b = from_I<E>(B), c = from_I<E>(C);
    I Ar = fmod_(A, P), Br = fmod_(B, P), Cr = fmod_(C, P);
    I ma = fmod_(I(Ar * Br + Cr), P);    // multiply_and_add(e, m, a) = e*m + a
    I am = fmod_(I((Ar + Br) * Cr), P);  // add_and_multiply(e, a, m) = (e+a)*m
    if (!limited || I(A * B + C) <= emax) {
      cx.eq("multiply_and_add", rg, ops.multiply_and_add(a, b, c), ma);
      { E x = a, y = b, z = c; ops.multiply_and_add_inplace_front(x, y, z); cx.eq("multiply_and_add_inplace_front", rg, x, ma); }
      { E x = a, y = b, z = c; ops.multiply_and_add_inplace_back(x, y, z); cx.eq("multiply_and_add_inplace_back", rg, z, ma); }
    } else ++skipped_overflow();
    if (!limited || I((A + B) * C) <= emax) {
      cx.eq("add_and_multiply", rg, ops.add_and_multiply(a, b, c), am);
      { E x = a, y = b, z = c; ops.add_and_multiply_inplace_front(x, y, z); cx.eq("add_and_multiply_inplace_front", rg, x, am); }
      { E x = a, y = b, z = c; ops.add_and_multiply_inplace_back(x, y, z); cx.eq("add_and_multiply_inplace_back", rg, z, am); }
    } else ++skipped_overflow();
    tot().calls += 6;
    ++tot().tuples;
    if (Ar * Br + Cr >= P || (Ar + Br) * Cr >= P) ++tot().nontrivial;
  }
  void value(const I& A, const char* rg) {
    cx.ops(&A);
    cx.eq("get_value", rg, ops.get_value(from_I<E>(A)), fmod_(A, cx.P));
    ++tot().calls;
  }
  // field inverse (P prime): x * inverse(x) == 1 for x != 0 mod P, result reduced
  void field_inverse(const I& X, const char* rg) {
    cx.ops(&X);
    I r = To<I>::of(ops.get_inverse(from_I<E>(X)));
    ++tot().calls; ++tot().evals; ++tot().tuples;
    I xr = fmod_(X, cx.P);
    if (xr == 0) return;  // inverse of zero is not specified
    ++tot().nontrivial;
    if (r < 0 || !(r < cx.P) || fmod_(I(r * xr), cx.P) != 1) cx.fail("get_inverse", rg, S(r), "x*r = 1 mod P, r in [0,P)");
  }
};

// ---------------------------------------------------------------------------------------------------------------
// generic tester of an element class with overloaded operators. E = raw element type of the class (what get_value()
// returns and what the converting constructor is fed for reduced operands).
// ---------------------------------------------------------------------------------------------------------------
template <class F, class E, class I>
struct ElemTester {
  Ctx<I>& cx;
  explicit ElemTester(Ctx<I>& c) : cx(c) {}
  static I val(const F& f) { return To<I>::of(f.get_value()); }

  void binary(const I& A, const I& B, const char* rg) {
    const I& P = cx.P;
    cx.ops(&A, &B);
    F fa(from_I<E>(A)), fb(from_I<E>(B));
    I s = fmod_(I(A + B), P), d = fmod_(I(A - B), P), m = fmod_(I(A * B), P);
    { F t(fa); t += fb; cx.eq("op+=(elem,elem)", rg, val(t), s); }
    cx.eq("op+(elem,elem)", rg, val(fa + fb), s);
    { F t(fa); t -= fb; cx.eq("op-=(elem,elem)", rg, val(t), d); }
    cx.eq("op-(elem,elem)", rg, val(fa - fb), d);
    { F t(fa); t *= fb; cx.eq("op*=(elem,elem)", rg, val(t), m); }
    cx.eq("op*(elem,elem)", rg, val(fa * fb), m);
    cx.eqb("op==(elem,elem)", rg, fa == fb, A == B);
    cx.eqb("op!=(elem,elem)", rg, fa != fb, A != B);
    { F t(fa); t = fb; cx.eq("assign(elem)", rg, val(t), B); }
    { F t(fa), u(fb); swap(t, u); cx.eq("swap", rg, val(t), B); cx.eq("swap", rg, val(u), A); }
    cx.eq("operands_preserved", rg, val(fa), A);
    cx.eq("operands_preserved", rg, val(fb), B);
    tot().calls += 10;
    ++tot().tuples;
    if (A + B >= P || A < B || A * B >= P) ++tot().nontrivial;
  }
  // (a*b + c) and (a+b)*c through the operators (reduced operands)
  void fused(const I& A, const I& B, const I& C, const char* rg) {
    const I& P = cx.P;
    cx.ops(&A, &B, &C);
    F fa(from_I<E>(A)), fb(from_I<E>(B)), fc(from_I<E>(C));
    cx.eq("expr(a*b+c)", rg, val(fa * fb + fc), fmod_(I(A * B + C), P));
    cx.eq("expr((a+b)*c)", rg, val((fa + fb) * fc), fmod_(I((A + B) * C), P));
    tot().calls += 4;
    ++tot().tuples;
    if (A * B + C >= P || (A + B) * C >= P) ++tot().nontrivial;
  }
  // element a with a raw integer v of type R on either side
  template <class R>
  void mixed(const I& A, const R& v, const char* rawtype) {
    const I& P = cx.P;
    I V = To<I>::of(v);
    cx.ops(&A, &V);
    cx.rawtype = rawtype;
    const char* rg = raw_regime(V, P);
    F fa(from_I<E>(A));
    I Vr = fmod_(V, P);
    I s = fmod_(I(A + Vr), P), d = fmod_(I(A - Vr), P), dr = fmod_(I(Vr - A), P), m = fmod_(I(A * Vr), P);
    ++tot().tuples;
    if (V < 0 || !(V < P)) ++tot().nontrivial;
    {
      // the converting constructor first: when the conversion of this raw value is already wrong, the mixed operators
      // fed with the same value are not compared (they would only repeat the same finding under 14 more names)
      F t(v);
      I g = val(t);
      cx.eq("ctor(raw)", rg, g, Vr);
      ++tot().calls;
      if (!(g == Vr)) { ++skipped_cascade(); cx.rawtype = ""; return; }
    }
    { F t(fa); t = v; cx.eq("assign(raw)", rg, val(t), Vr); }
    { F t(fa); t += v; cx.eq("op+=(elem,raw)", rg, val(t), s); }
    cx.eq("op+(elem,raw)", rg, val(fa + v), s);
    cx.eq("op+(raw,elem)", rg, To<I>::of(v + fa), s);
    { F t(fa); t -= v; cx.eq("op-=(elem,raw)", rg, val(t), d); }
    cx.eq("op-(elem,raw)", rg, val(fa - v), d);
    cx.eq("op-(raw,elem)", rg, To<I>::of(v - fa), dr);
    { F t(fa); t *= v; cx.eq("op*=(elem,raw)", rg, val(t), m); }
    cx.eq("op*(elem,raw)", rg, val(fa * v), m);
    cx.eq("op*(raw,elem)", rg, To<I>::of(v * fa), m);
    bool e1 = (fa == v), e2 = (v == fa);
    cx.eqb("op==(elem,raw)", rg, e1, A == Vr);
    cx.eqb("op==(raw,elem)", rg, e2, A == Vr);
    // != is only compared where == was right (same reason as above)
    if (e1 == (A == Vr)) cx.eqb("op!=(elem,raw)", rg, fa != v, A != Vr); else ++skipped_cascade();
    if (e2 == (A == Vr)) cx.eqb("op!=(raw,elem)", rg, v != fa, A != Vr); else ++skipped_cascade();
    cx.rawtype = "";
    tot().calls += 14;
  }
  void field_inverse(const I& X, const char* rg) {
    cx.ops(&X);
    F fx(from_I<E>(X));
    F inv = fx.get_inverse();
    I r = val(inv);
    ++tot().calls; ++tot().evals; ++tot().tuples;
    if (X == 0) return;
    ++tot().nontrivial;
    if (r < 0 || !(r < cx.P) || fmod_(I(r * X), cx.P) != 1) cx.fail("get_inverse", rg, S(r), "x*r = 1 mod P, r in [0,P)");
    cx.eq("x*get_inverse(x)", rg, val(fx * inv), I(1));
  }
};

// raw integer values of type R around 0, P, 2P and the ends of the type; "full" adds the whole interval [-2P-1, 2P+1]
template <class R>
inline std::vector<R> raw_values(i128 P, bool full) {
  std::vector<i128> c;
  i128 lo = (i128)std::numeric_limits<R>::min(), hi = (i128)std::numeric_limits<R>::max();
  for (i128 k : {(i128)0, P, 2 * P, 3 * P, -P, -2 * P, -3 * P}) for (i128 dlt = -2; dlt <= 2; ++dlt) c.push_back(k + dlt);
  for (i128 dlt = 0; dlt <= 3; ++dlt) { c.push_back(lo + dlt); c.push_back(hi - dlt); }
  c.push_back(lo / 2); c.push_back(hi / 2); c.push_back(hi / 2 + 1);
  if (full) for (i128 v = -2 * P - 1; v <= 2 * P + 1; ++v) c.push_back(v);
  // multiples of P near the ends of the type
  if (P > 0) { c.push_back(hi / P * P); c.push_back(hi / P * P - 1); if (lo < 0) { c.push_back(lo / P * P); c.push_back(lo / P * P + 1); } }
  std::sort(c.begin(), c.end());
  c.erase(std::unique(c.begin(), c.end()), c.end());
  std::vector<R> r;
  for (i128 v : c) if (v >= lo && v <= hi) r.push_back((R)v);
  return r;
}

// boundary residues of a modulus
template <class I>
inline std::vector<I> boundary_residues(const I& P) {
  std::vector<I> c = {I(0), I(1), I(2), I((P - 1) / 2), I((P + 1) / 2), I(P - 2), I(P - 1)};
  std::vector<I> r;
  for (auto& v : c) {
    if (v < 0 || !(v < P)) continue;
    bool dup = false;
    for (auto& w : r) if (w == v) dup = true;
    if (!dup) r.push_back(v);
  }
  return r;
}

// ---------------------------------------------------------------------------------------------------------------
// cases
// ---------------------------------------------------------------------------------------------------------------
struct Case {
  std::string fam, ch, prev, sec;
  long a = -1;
  std::string enc() const {
    return "fam=" + fam + ";ch=" + ch + ";prev=" + prev + ";sec=" + sec + ";a=" + std::to_string(a);
  }
  static Case dec(const std::string& s) {
    auto m = vf::parse_kv(s);
    Case c;
    c.fam = m["fam"]; c.ch = m["ch"]; c.prev = m["prev"]; c.sec = m["sec"];
    c.a = m.count("a") ? atol(m["a"].c_str()) : -1;
    return c;
  }
};

inline std::pair<long, long> parse_range(const std::string& ch) {
  long a = 0, b = 0;
  // "a-b" with non-negative endpoints
  size_t i = ch.find('-', 1);
  a = atol(ch.substr(0, i).c_str());
  b = atol(ch.substr(i + 1).c_str());
  return {a, b};
}

}  // namespace c10

#endif
