// C11 - shared pieces: the dissimilarity input model, the two oracle routes (independent column reduction on
// brute-force cliques = deciding oracle; Rips_complex -> Simplex_tree -> Persistent_cohomology = the route the property
// names), interval multisets and their comparison.
#ifndef VF_C11_COMMON_HPP
#define VF_C11_COMMON_HPP

#include "harness.hpp"
#include "ref_complex.hpp"

#include <gudhi/Persistent_cohomology.h>
#include <gudhi/Persistent_cohomology/Field_Zp.h>
#include <gudhi/Rips_complex.h>
#include <gudhi/Simplex_tree.h>

#include <cmath>
#include <limits>
#include <sstream>
#include <string>
#include <tuple>
#include <vector>

namespace c11 {

static const double INF = std::numeric_limits<double>::infinity();

struct Iv {
  int dim;
  double b, d;
  bool operator<(const Iv& o) const { return std::tie(dim, b, d) < std::tie(o.dim, o.b, o.d); }
  bool operator==(const Iv& o) const { return dim == o.dim && b == o.b && d == o.d; }
};
using Bar = std::vector<Iv>;

inline std::string str(const Bar& b) {
  std::ostringstream o;
  for (auto& i : b) o << "(" << i.dim << ":" << i.b << "," << i.d << ")";
  return o.str().empty() ? "{}" : o.str();
}
// drops zero-length intervals, sorts
inline Bar normalised(Bar b) {
  Bar r;
  for (auto& i : b) if (i.b != i.d) r.push_back(i);
  std::sort(r.begin(), r.end());
  return r;
}

// A symmetric dissimilarity on n points; w[i*n+j]; +inf = edge absent (only used for explicit edge lists).
struct Mat {
  int n = 0;
  std::vector<double> w;
  double at(int i, int j) const { return w[(size_t)i * n + j]; }
  void set(int i, int j, double v) { w[(size_t)i * n + j] = v; w[(size_t)j * n + i] = v; }
  explicit Mat(int n_ = 0) : n(n_), w((size_t)n_ * n_, 0.0) {}
  bool has_missing() const { for (double x : w) if (x == INF) return true; return false; }
  double max_finite() const {  // -1 when there is no finite off-diagonal entry
    double m = -1;
    for (int i = 0; i < n; ++i) for (int j = 0; j < i; ++j) if (at(i, j) != INF) m = std::max(m, at(i, j));
    return m;
  }
  std::string lower_str() const {  // row-major strict lower triangle, "x" for an absent edge
    std::ostringstream o;
    bool f = true;
    for (int i = 1; i < n; ++i) for (int j = 0; j < i; ++j) {
      if (!f) o << ",";
      f = false;
      if (at(i, j) == INF) o << "x"; else o << at(i, j);
    }
    return o.str();
  }
};

// -------------------------------------------------------------------------------------------------------------------
// deciding oracle: cliques by brute force, explicit signed boundary matrix, column reduction over Z_p (ref::persistence)
// -------------------------------------------------------------------------------------------------------------------
inline void cliques_rec(const Mat& m, double thr, int max_vertices, ref::Simplex& cur, int from,
                        std::vector<ref::Simplex>& out) {
  for (int v = from; v < m.n; ++v) {
    bool ok = true;
    for (int u : cur) { double d = m.at(u, v); if (d == INF || !(d <= thr)) { ok = false; break; } }
    if (!ok) continue;
    cur.push_back(v);
    out.push_back(cur);
    if ((int)cur.size() < max_vertices) cliques_rec(m, thr, max_vertices, cur, v + 1, out);
    cur.pop_back();
  }
}

inline double diameter(const Mat& m, const ref::Simplex& s) {
  double d = 0;  // vertices enter at 0
  for (size_t i = 0; i < s.size(); ++i) for (size_t j = 0; j < i; ++j) d = std::max(d, m.at(s[i], s[j]));
  return d;
}

// Barcode (dimension <= dim_max, zero-length dropped) of the flag filtration of the graph {d(i,j) <= thr}, every simplex
// entering at its largest edge, vertices at 0; only simplices of dimension <= dim_max+1 are built.
inline Bar ref_barcode(const Mat& m, double thr, int p, int dim_max, long long* ncells = nullptr) {
  std::vector<ref::Simplex> cl;
  ref::Simplex cur;
  cliques_rec(m, thr, dim_max + 2, cur, 0, cl);
  if (m.n <= 10) {  // second, even more naive enumeration (subset test) when affordable
    std::vector<int> verts;
    std::set<std::pair<int, int>> edges;
    for (int i = 0; i < m.n; ++i) verts.push_back(i);
    for (int i = 0; i < m.n; ++i) for (int j = i + 1; j < m.n; ++j)
      if (m.at(i, j) != INF && m.at(i, j) <= thr) edges.insert({i, j});
    auto cl2 = ref::cliques(verts, edges, dim_max + 2);
    std::sort(cl.begin(), cl.end());
    std::sort(cl2.begin(), cl2.end());
    if (cl != cl2) vf::mismatch("C11:oracle_internal:clique_enumerations_differ", "n=" + std::to_string(m.n));
  }
  std::vector<std::pair<double, ref::Simplex>> order;
  for (auto& s : cl) order.push_back({diameter(m, s), s});
  std::sort(order.begin(), order.end(), [](const auto& a, const auto& b) {
    if (a.first != b.first) return a.first < b.first;
    if (a.second.size() != b.second.size()) return a.second.size() < b.second.size();
    return a.second < b.second;
  });
  std::vector<ref::Simplex> ss;
  for (auto& o : order) ss.push_back(o.second);
  if (ncells) *ncells = (long long)ss.size();
  auto pairs = ref::persistence(ref::cells_of(ss), p);
  Bar r;
  for (auto& pr : pairs) {
    if (pr.dim > dim_max) continue;
    double b = order[pr.birth].first, d = pr.death < 0 ? INF : order[pr.death].first;
    r.push_back({pr.dim, b, d});
  }
  return normalised(r);
}

// -------------------------------------------------------------------------------------------------------------------
// the route the property names: Rips_complex -> Simplex_tree (expansion to dim_max+1) -> Persistent_cohomology mod p
// -------------------------------------------------------------------------------------------------------------------
inline Bar st_barcode(const Mat& m, double thr, int p, int dim_max) {
  using ST = Gudhi::Simplex_tree<>;
  using PC = Gudhi::persistent_cohomology::Persistent_cohomology<ST, Gudhi::persistent_cohomology::Field_Zp>;
  std::vector<std::vector<double>> rows(m.n);
  for (int i = 0; i < m.n; ++i) for (int j = 0; j < i; ++j) rows[i].push_back(m.at(i, j));
  double t = thr;
  // an absent edge is written +inf in the matrix: keep it out of the proximity graph (inf <= inf holds)
  if (t == INF && m.has_missing()) t = m.max_finite();
  Gudhi::rips_complex::Rips_complex<double> rc(rows, t);
  ST st;
  rc.create_complex(st, dim_max + 1);
  PC pc(st, true);
  pc.init_coefficients(p);
  pc.compute_persistent_cohomology(0);
  Bar r;
  for (auto& pr : pc.get_persistent_pairs()) {
    int dim = st.dimension(std::get<0>(pr));
    if (dim > dim_max) continue;
    double b = st.filtration(std::get<0>(pr));
    double d = std::get<1>(pr) == st.null_simplex() ? INF : st.filtration(std::get<1>(pr));
    r.push_back({dim, b, d});
  }
  return normalised(r);
}

inline std::vector<double> parse_doubles(const std::string& s, char sep = ',') {
  std::vector<double> r;
  std::string cur;
  auto flush = [&]() {
    if (cur.empty()) return;
    if (cur == "inf") r.push_back(INF);
    else if (cur == "x") r.push_back(INF);
    else r.push_back(atof(cur.c_str()));
    cur.clear();
  };
  for (char ch : s) { if (ch == sep) flush(); else cur += ch; }
  flush();
  return r;
}
inline std::vector<std::string> split(const std::string& s, char sep = ',') {
  std::vector<std::string> r;
  std::string cur;
  for (char ch : s) { if (ch == sep) { if (!cur.empty()) r.push_back(cur); cur.clear(); } else cur += ch; }
  if (!cur.empty()) r.push_back(cur);
  return r;
}

}  // namespace c11

#endif
