// C18 - persistence landscapes equal their definition and form a normed vector space.
// E2 bounded-exhaustive input enumeration on the real classes; oracle = c18_oracle.hpp (k-th largest tent value at every
// sample, Simpson / two-triangle integrals on node cells).
//
// One source, two build units:  -DVF_PART=0  Persistence_landscape (exact piecewise-linear form)
//                               -DVF_PART=1  Persistence_landscape_on_grid (gridded form, grid-aligned diagrams)
//
// Diagrams are multisets of intervals with integer endpoints 0 <= b < d <= E.  Case encodings (replayable):
//   k=ex1;E=5;d=0-2,1-3;ord=1,0          one diagram, intervals handed to the constructor in the order ord
//   k=ex2;E=4;a=0-2,1-3;b=0-4            a pair (both orders of every binary operation are run)
//   k=ex3;E=3;a=..;b=..;c=..             a triple
//   k=gr1;g=-1:0.5:14:2;E=5;d=..;ord=..  gridded: grid_min -1, step 0.5, 14 cells, abstract endpoint e sits on grid
//   k=gr2;g=..;E=..;a=..;b=..            point 2e+2 (so every breakpoint of every landscape function is a grid point)
//   k=gr3;g=..;E=..;a=..;b=..;c=..
#include "harness.hpp"
#include "c18_oracle.hpp"

#include <sys/mman.h>
#include <limits>
#include <numeric>

#ifndef VF_PART
#define VF_PART 0
#endif

#if VF_PART == 0
#include <gudhi/Persistence_landscape.h>
typedef Gudhi::Persistence_representations::Persistence_landscape Land;
#define PARTNAME "exact"
#else
#include <gudhi/Persistence_landscape_on_grid.h>
typedef Gudhi::Persistence_representations::Persistence_landscape_on_grid Land;
#define PARTNAME "grid"
#endif

#define CNT(name, n) do { static long long* p_ = &vf::stats().c[name]; *p_ += (n); } while (0)

using c18::Diag;
using c18::RDiag;
using c18::Table;

static const double TOL = 1e-9;
static const double PINF = std::numeric_limits<double>::max();  // the documented way to ask for the sup distance
static const double SCALARS[4] = {-2, 0, 0.5, 3};

static inline bool near(double got, double want) {
  if (!(got == got)) return false;  // NaN
  return std::fabs(got - want) <= TOL * std::max(1.0, std::fabs(want));
}

// at most one report per (class, case); every failed comparison is counted
static std::set<std::string> g_reported_in_case;
static void report(const std::string& cls, const std::string& detail) {
  CNT("cmp.failed", 1);
  if (g_reported_in_case.insert(cls).second) vf::mismatch(cls, detail);
}
static void begin_case(const std::string& c) {
  g_reported_in_case.clear();
  vf::set_case(c);
  CNT("ev.traces", 1);
  CNT("ev.states", 1);
}
static std::string num(double x) {
  char b[40];
  snprintf(b, sizeof b, "%.12g", x);
  return b;
}
static void cmp_scalar(const std::string& cls, double got, double want, const std::string& what) {
  CNT("ev.transitions", 1);
  CNT("ev.evaluations", 1);
  if (!near(got, want)) report(cls, what + ": got " + num(got) + " want " + num(want));
}

// ---------------------------------------------------------------------------------------------------------------------
// geometry of the enumeration ("world"): where the abstract endpoints live, and the sample table geometry
// ---------------------------------------------------------------------------------------------------------------------
struct World {
  int E = 5;
#if VF_PART == 0
  // exact form: endpoint e at x = e; samples at every multiple of 1/4 in [-1, E+2]; nodes at the multiples of 1/2
  double real(int e) const { return e; }
  double x0() const { return -1; }
  double q() const { return 0.25; }
  int J() const { return 4 * (E + 3); }
  int sub() const { return 2; }
  std::string tag() const { return "E=" + std::to_string(E); }
#else
  // gridded form: grid_min gmin, step dx, n cells, endpoint e on grid point 2e+off; samples at every quarter of a cell
  // from one cell before the grid to one cell after it
  double gmin = 0, dx = 0.5;
  int n = 10, off = 0;
  double gmax() const { return gmin + dx * n; }
  double real(int e) const { return gmin + dx * (2 * e + off); }
  double x0() const { return gmin - dx; }
  double q() const { return dx / 4; }
  int J() const { return 4 * (n + 2); }
  int sub() const { return 4; }
  bool fits() const { return off >= 0 && 2 * E + off <= n; }
  std::string gstr() const { return num(gmin) + ":" + num(dx) + ":" + std::to_string(n) + ":" + std::to_string(off); }
  std::string tag() const { return "g=" + gstr() + ";E=" + std::to_string(E); }
  bool in_grid(int j) const { return j >= 4 && j <= 4 * (n + 1); }
  bool on_grid_point(int j) const { return in_grid(j) && j % 4 == 0; }
#endif
  RDiag to_real(const Diag& d) const {
    RDiag r;
    for (auto& iv : d) r.push_back(std::make_pair(real(iv.first), real(iv.second)));
    return r;
  }
  Table table(const RDiag& rd) const { return c18::table_of_diagram(rd, x0(), q(), J(), sub()); }
};

static Land build(const World& w, const RDiag& rd) {
  CNT("ev.transitions", 1);
#if VF_PART == 0
  (void)w;
  return Land(rd);
#else
  return Land(rd, w.gmin, w.gmax(), (size_t)w.n);
#endif
}
static Land build_limited(const World& w, const RDiag& rd, unsigned levels) {
  CNT("ev.transitions", 1);
#if VF_PART == 0
  (void)w;
  return Land(rd, (size_t)levels);
#else
  return Land(rd, w.gmin, w.gmax(), (size_t)w.n, levels);
#endif
}

struct Item {
  Diag d;
  RDiag rd;
  Table T;
  c18::DiagClass cls;
};
static Item make_item(const World& w, const Diag& d) {
  Item it;
  it.d = d;
  it.rd = w.to_real(d);
  it.T = w.table(it.rd);
  it.cls = c18::classify(d);
  if (it.T.node_linear_defect() != 0 || it.T.boundary_defect() != 0) {
    vf::set_case("k=oracle;" + w.tag() + ";d=" + c18::diag_str(d));
    vf::mismatch("C18:ENGINE:oracle_selfcheck", "landscape of the diagram is not linear between the nodes of the table or not 0 at its ends");
    vf::end_case();
    CNT("ev.incomplete", 1);
  }
  return it;
}

// ---------------------------------------------------------------------------------------------------------------------
// comparing a library object with a table
// ---------------------------------------------------------------------------------------------------------------------
static size_t land_levels(const Land& L) { return L.size(); }

#if VF_PART == 0
// every level 0..max(levels)+1 at every sample
static void cmp_table(const std::string& cls, const Land& L, const Table& T, size_t only_below = (size_t)-1) {
  size_t K = std::max(T.levels(), land_levels(L)) + 1;
  if (only_below != (size_t)-1) K = std::min(K, only_below);
  CNT("ev.transitions", (long long)K * (T.J + 1));
  CNT("ev.evaluations", (long long)K * (T.J + 1));
  for (size_t k = 0; k < K; ++k)
    for (int j = 0; j <= T.J; ++j) {
      double got = L.compute_value_at_a_given_point((unsigned)k, T.x(j));
      double want = T.at(k, j);
      if (!near(got, want)) {
        report(cls, "level " + std::to_string(k) + " x=" + num(T.x(j)) + ": got " + num(got) + " want " + num(want));
        return;
      }
    }
}
#else
// gridded objects: at the grid points through vectorize() (always), between grid points and outside the grid through
// compute_value_at_a_given_point; at the grid points through compute_value_at_a_given_point only when asked
// (value_at_nodes: the caller has established that these calls do not die)
static void cmp_table(const std::string& cls, const World& w, const Land& L, const Table& T,
                      size_t only_below = (size_t)-1, int value_at_nodes_below_level = 0) {
  size_t K = std::max(T.levels(), land_levels(L)) + 1;
  if (only_below != (size_t)-1) K = std::min(K, only_below);
  K = std::min(K, (size_t)w.n);  // vectorize(k) documents nothing but throws for k >= number of grid points
  for (size_t k = 0; k < K; ++k) {
    std::vector<double> vec = L.vectorize((int)k);
    CNT("ev.transitions", 1);
    if (vec.size() != (size_t)w.n + 1) {
      report(cls + ":vectorize", "level " + std::to_string(k) + ": " + std::to_string(vec.size()) + " entries, grid has " + std::to_string(w.n + 1) + " points");
    } else {
      for (int i = 0; i <= w.n; ++i) {
        CNT("ev.evaluations", 1);
        double want = T.at(k, 4 * (i + 1));
        if (!near(vec[i], want)) {
          report(cls + ":vectorize", "level " + std::to_string(k) + " grid point " + std::to_string(i) + " (x=" + num(T.x(4 * (i + 1))) + "): got " + num(vec[i]) + " want " + num(want));
          break;
        }
      }
    }
    for (int j = 0; j <= T.J; ++j) {
      bool node = w.on_grid_point(j);
      if (node && (int)k >= value_at_nodes_below_level) continue;
      CNT("ev.transitions", 1);
      CNT("ev.evaluations", 1);
      if (node) CNT("grid.value_calls_at_grid_points", 1); else if (w.in_grid(j)) CNT("grid.value_calls_between_grid_points", 1); else CNT("grid.value_calls_outside_grid", 1);
      double got = L.compute_value_at_a_given_point((unsigned)k, T.x(j));
      double want = T.at(k, j);
      if (!near(got, want)) {
        report(cls + (node ? ":at_grid_point" : (w.in_grid(j) ? ":between_grid_points" : ":outside_grid")),
               "level " + std::to_string(k) + " x=" + num(T.x(j)) + ": got " + num(got) + " want " + num(want));
        break;
      }
    }
  }
}

// Survival probe.  compute_value_at_a_given_point(k, x) is evaluated at every grid point, level after level, for the
// landscape of every listed diagram, in forked children that stay silent.  alive[i] = number of leading levels the
// calls survived for diagram i (K_i = all of them).  One child handles as many consecutive diagrams as it survives,
// so a tree without the defect costs one fork per batch.
static size_t probe_levels(const Table& T, const Land& L, const World& w) {
  return std::min(std::max(T.levels(), L.size()) + 1, (size_t)w.n);
}
static std::vector<size_t> probe_survival(const World& w, const std::vector<const Item*>& items) {
  static volatile long* progress = nullptr;
  std::vector<size_t> alive(items.size(), 0);
  if (!progress) {
    void* m = mmap(nullptr, 4096, PROT_READ | PROT_WRITE, MAP_SHARED | MAP_ANONYMOUS, -1, 0);
    if (m == MAP_FAILED) return alive;
    progress = (volatile long*)m;
  }
  size_t pos = 0;
  while (pos < items.size()) {
    progress[0] = (long)pos;  // diagram being evaluated
    progress[1] = 0;          // level being evaluated
    fflush(stdout);
    CNT("grid.forked_probes", 1);
    pid_t pid = fork();
    if (pid < 0) return alive;
    if (pid == 0) {
      vf::g_probe_child = true;
      int fd = open("/dev/null", O_WRONLY);
      if (fd >= 0) dup2(fd, 2);
      volatile double sink = 0;
      try {
        for (size_t i = pos; i < items.size(); ++i) {
          alarm(20);
          progress[0] = (long)i;
          progress[1] = 0;
          const Table& T = items[i]->T;
          Land L(items[i]->rd, w.gmin, w.gmax(), (size_t)w.n);
          size_t K = probe_levels(T, L, w);
          for (size_t k = 0; k < K; ++k) {
            progress[1] = (long)k;
            for (int j = 0; j <= T.J; ++j)
              if (w.on_grid_point(j)) sink = sink + L.compute_value_at_a_given_point((unsigned)k, T.x(j));
          }
          progress[1] = 1000000;  // all levels of this diagram survived
        }
        progress[0] = (long)items.size();
      } catch (...) {
      }
      _exit(0);
    }
    int st = 0;
    waitpid(pid, &st, 0);
    size_t reached = (size_t)progress[0];
    for (size_t i = pos; i < std::min(reached, items.size()); ++i) alive[i] = 1000000;
    if (reached >= items.size()) break;
    alive[reached] = (size_t)progress[1];  // died (or threw) during this level of this diagram
    pos = reached + 1;
  }
  return alive;
}
#endif


#if VF_PART == 0
#define CMP_TABLE(cls, L, T) cmp_table(cls, L, T)
#define CMP_TABLE_BELOW(cls, L, T, below) cmp_table(cls, L, T, below)
#else
#define CMP_TABLE(cls, L, T) cmp_table(cls, w, L, T)
#define CMP_TABLE_BELOW(cls, L, T, below) cmp_table(cls, w, L, T, below)
#endif

static double dist(const Land& a, const Land& b, int p) {
  CNT("ev.transitions", 1);
  return a.distance(b, p == 0 ? PINF : (double)p);
}
static const char* PNAME[3] = {"sup", "L1", "L2"};

static Land absolute(const Land& x) {
  CNT("ev.transitions", 1);
  Land c(x);
#if VF_PART == 0
  return c.abs();
#else
  c.abs();
  return c;
#endif
}
static double inner_product(const Land& a, const Land& b) {
  CNT("ev.transitions", 1);
#if VF_PART == 0
  return a.compute_scalar_product(b);
#else
  Land c(a);
  return c.compute_scalar_product(b);  // not a const member in the gridded class
#endif
}
static Land average(std::vector<Land*> v) {
  CNT("ev.transitions", 1);
  Land r;
  r.compute_average(v);
  return r;
}

// the oracle for |h| as the library documents it: pointwise for the exact form, at the grid points for the gridded one
static Table abs_table(const Table& h) {
#if VF_PART == 0
  return c18::abs_pointwise(h);
#else
  return c18::abs_nodewise(h);
#endif
}

static std::string P(const char* s) { return std::string("C18:" PARTNAME ":") + s; }

// ---------------------------------------------------------------------------------------------------------------------
// one diagram
// ---------------------------------------------------------------------------------------------------------------------
// alive (gridded unit): number of leading levels for which compute_value_at_a_given_point at the grid points is known
// not to kill the process (from probe_survival)
static void check_single(const World& w, const Item& it, const std::vector<int>& ord, size_t alive_levels = 0) {
  std::string ords = vf::join(ord);
  begin_case("k=" + std::string(VF_PART == 0 ? "ex1" : "gr1") + ";" + w.tag() + ";d=" + c18::diag_str(it.d) + ";ord=" + ords);
  bool identity = true;
  for (size_t i = 0; i < ord.size(); ++i) if (ord[i] != (int)i) identity = false;
  RDiag rd;
  for (int i : ord) rd.push_back(it.rd[i]);
  const Table& T = it.T;
  size_t n = it.d.size();
  try {
    Land L = build(w, rd);
    // ---- values, every level, every sample
#if VF_PART == 0
    cmp_table(P("compute_value_at_a_given_point"), L, T);
    for (int j = 0; j <= T.J; j += 3) {
      CNT("ev.transitions", 1);
      double got = L((unsigned)(j % (n + 1)), T.x(j)), want = T.at(j % (n + 1), j);
      if (!near(got, want)) report(P("operator()"), "level " + std::to_string(j % (n + 1)) + " x=" + num(T.x(j)) + ": got " + num(got) + " want " + num(want));
    }
#else
    {
      size_t K = probe_levels(T, L, w);
      size_t alive = std::min(alive_levels, K);  // (the same function whatever the order of the intervals)
      if (identity && alive < K) {
        CNT("grid.value_at_grid_point_died", 1);
        report(P("compute_value_at_a_given_point:at_grid_point:invalid_read"),
               "the process dies (invalid memory read) evaluating level " + std::to_string(alive) + " at the grid points");
      }
      cmp_table(P("compute_value_at_a_given_point"), w, L, T, (size_t)-1, (int)alive);
    }
#endif
    // ---- integrals
    cmp_scalar(P("compute_integral_of_landscape"), L.compute_integral_of_landscape(), c18::integral(T), "integral over all levels");
    for (size_t k = 0; k <= n; ++k) {
#if VF_PART == 0
      double got = L.compute_integral_of_a_level_of_a_landscape(k);
#else
      double got = L.compute_integral_of_landscape(k);
#endif
      cmp_scalar(P("compute_integral_of_landscape:level"), got, c18::integral_level(T, k), "integral of level " + std::to_string(k));
    }
#if VF_PART == 1
    if (n > 0) {  // (the gridded p-integral reads values_of_landscapes[0], present; with no level there is nothing to sum)
#endif
    cmp_scalar(P("compute_integral_of_landscape:p=1"), L.compute_integral_of_landscape(1.0), c18::integral(T), "integral of the 1st power");
    cmp_scalar(P("compute_integral_of_landscape:p=2"), L.compute_integral_of_landscape(2.0), c18::integral_sq(T), "integral of the 2nd power");
#if VF_PART == 1
    }
#endif
    // ---- vectorize
#if VF_PART == 0
    for (size_t k = 0; k < L.number_of_vectorize_functions(); ++k) {
      std::vector<double> vec = L.vectorize((int)k);
      CNT("ev.transitions", 1);
      if (vec.size() != L.land[k].size()) { report(P("vectorize"), "level " + std::to_string(k) + ": wrong length"); continue; }
      for (size_t i = 0; i < vec.size(); ++i) {
        double x = L.land[k][i].first;
        double want = std::fabs(x) > 1e9 ? 0.0 : c18::lambda_def(rd, k, x);
        CNT("ev.evaluations", 1);
        if (!near(vec[i], want)) { report(P("vectorize"), "level " + std::to_string(k) + " entry " + std::to_string(i) + " (x=" + num(x) + "): got " + num(vec[i]) + " want " + num(want)); break; }
        if (i && !(L.land[k][i - 1].first < x)) { report(P("vectorize:abscissae_not_increasing"), "level " + std::to_string(k) + " entry " + std::to_string(i)); break; }
      }
    }
#endif
    // ---- the constructors that keep only the first `levels` functions
    for (unsigned lv = 1; lv <= n; ++lv) {
      Land M = build_limited(w, rd, lv);
      CNT("limited_levels.constructed", 1);
      CMP_TABLE_BELOW(P("number_of_levels:value"), M, T, (size_t)lv);
    }
    if (identity) {
      // ---- scalar multiples, absolute value
      for (double c : SCALARS) {
        Land M1 = L * c, M2 = c * L;
        CNT("ev.transitions", 2);
        Table Tc = c18::scaled(T, c);
        CMP_TABLE(P("operator*"), M1, Tc);
        CMP_TABLE(P("operator*"), M2, Tc);
        Land A = absolute(M1);
        CMP_TABLE(P("abs"), A, abs_table(Tc));
        Land Lc(L);
        Lc *= c;
        CMP_TABLE(P("operator*="), Lc, Tc);
      }
      {
        Land Lc(L);
        Lc /= 2;
        CMP_TABLE(P("operator/="), Lc, c18::scaled(T, 0.5));
      }
      // ---- distance to itself, norm, scalar product with itself, average of one
      Table Z = c18::like(T, 0);
      for (int p = 0; p < 3; ++p) {
        cmp_scalar(P("distance:nonzero_on_equal_arguments:") + PNAME[p], dist(L, L, p), 0, "distance to itself");
        Land Lc(L);
        CNT("ev.transitions", 1);
        double nrm = Lc.compute_norm_of_landscape(p == 0 ? PINF : (double)p);
        cmp_scalar(P("compute_norm_of_landscape:") + PNAME[p], nrm, c18::distance(T, Z, p), "norm");
      }
      cmp_scalar(P("compute_scalar_product"), inner_product(L, L), c18::integral_sq(T), "scalar product with itself");
      Land one(L);
      Land av = average({&one});
      CMP_TABLE(P("compute_average"), av, T);
    }
  } catch (const std::exception& e) {
    report(P("exception"), std::string("std::exception: ") + e.what());
  } catch (const char* e) {
    report(P("exception"), std::string("thrown: ") + e);
  } catch (...) {
    report(P("exception"), "non-standard exception");
  }
  vf::end_case();
}

// distance(a,b), distance(b,a) against the definition, for p = sup, 1, 2; symmetry of the library's own numbers
static void compare_distances(const Land& A, const Land& B, const Table& TA, const Table& TB) {
  Table Dab = c18::lin(TA, 1, TB, -1);
  long sc = c18::sign_change_cells(Dab);
  (void)sc;
  for (int p = 0; p < 3; ++p) {
    double dab = dist(A, B, p), dba = dist(B, A, p);
    double want = c18::distance(TA, TB, p);
    std::string cls = P("distance:") + PNAME[p];
#if VF_PART == 1
    // the gridded class documents (FIXME note at compute_distance_of_landscapes_on_grid) that its L^p distance is the
    // integral of the *gridded* absolute difference, inaccurate when the two landscapes cross inside a cell
    if (sc && p != 0) {
      Table G = c18::abs_nodewise(Dab);
      want = (p == 1) ? c18::integral(G) : std::sqrt(c18::integral_sq(G));
      cls += ":gridded_abs";
      CNT("pairs.distance_compared_with_gridded_abs", 1);
    }
#endif
    cmp_scalar(cls, dab, want, "distance(a,b)");
    cmp_scalar(cls, dba, want, "distance(b,a)");
    CNT("ev.evaluations", 1);
    if (!near(dab, dba)) report(P("distance:asymmetric:") + PNAME[p], "d(a,b)=" + num(dab) + " d(b,a)=" + num(dba));
  }
}

// ---------------------------------------------------------------------------------------------------------------------
// pairs
// ---------------------------------------------------------------------------------------------------------------------
static void check_pair(const World& w, const Item& a, const Item& b) {
  begin_case("k=" + std::string(VF_PART == 0 ? "ex2" : "gr2") + ";" + w.tag() + ";a=" + c18::diag_str(a.d) + ";b=" + c18::diag_str(b.d));
  try {
    Land A = build(w, a.rd), B = build(w, b.rd);
    const Table &TA = a.T, &TB = b.T;
    Table S = c18::lin(TA, 1, TB, 1), Dab = c18::lin(TA, 1, TB, -1), Dba = c18::lin(TB, 1, TA, -1);
    long sc = c18::sign_change_cells(Dab), flat = c18::flat_nonzero_cells(Dab);
    if (sc) CNT("pairs.difference_changes_sign_inside_a_node_cell", 1);
    if (flat) CNT("pairs.abs_difference_constant_nonzero_on_a_cell", 1);
    if (TA.levels() != TB.levels()) CNT("pairs.different_number_of_levels", 1);
    // sums and differences, both orders
    Land s1 = A + B, s2 = B + A, d1 = A - B, d2 = B - A;
    CNT("ev.transitions", 4);
    CMP_TABLE(P("operator+"), s1, S);
    CMP_TABLE(P("operator+"), s2, S);
    CMP_TABLE(P("operator-"), d1, Dab);
    CMP_TABLE(P("operator-"), d2, Dba);
    {
      Land c(A);
      c += B;
      CMP_TABLE(P("operator+="), c, S);
      Land e(A);
      e -= B;
      CMP_TABLE(P("operator-="), e, Dab);
      CNT("ev.transitions", 2);
    }
    // absolute value of the difference
    Land ab = absolute(d1);
    CMP_TABLE(P("abs"), ab, abs_table(Dab));
    // integrals of the sum (flat non-zero stretches appear in sums)
    cmp_scalar(P("compute_integral_of_landscape:of_sum"), s1.compute_integral_of_landscape(), c18::integral(S), "integral of a+b");
    if (S.levels() > 0)
      cmp_scalar(P("compute_integral_of_landscape:p=2:of_sum"), s1.compute_integral_of_landscape(2.0), c18::integral_sq(S), "integral of (a+b)^2");
    // average
    {
      Land a2(A), b2(B);
      Land av = average({&a2, &b2});
      CMP_TABLE(P("compute_average"), av, c18::scaled(S, 0.5));
    }
    // distances: value, symmetry
    compare_distances(A, B, TA, TB);
    // inner product: value, symmetry
    {
      double iab = inner_product(A, B), iba = inner_product(B, A), want = c18::inner(TA, TB);
      cmp_scalar(P("compute_scalar_product"), iab, want, "<a,b>");
      cmp_scalar(P("compute_scalar_product"), iba, want, "<b,a>");
      CNT("ev.evaluations", 1);
      if (!near(iab, iba)) report(P("compute_scalar_product:asymmetric"), "<a,b>=" + num(iab) + " <b,a>=" + num(iba));
    }
    // different weights, 2a against 3b: the difference may change sign strictly inside a node cell
    {
      Land X = 2.0 * A, Y = B * 3.0;
      CNT("ev.transitions", 2);
      Table TX = c18::scaled(TA, 2), TY = c18::scaled(TB, 3), H = c18::lin(TX, 1, TY, -1);
      if (c18::sign_change_cells(H)) CNT("pairs.weighted_difference_changes_sign_inside_a_node_cell", 1);
      Land dxy = X - Y;
      CNT("ev.transitions", 1);
      CMP_TABLE(P("operator-"), dxy, H);
      Land axy = absolute(dxy);
      CMP_TABLE(P("abs"), axy, abs_table(H));
      compare_distances(X, Y, TX, TY);
    }
  } catch (const std::exception& e) {
    report(P("exception"), std::string("std::exception: ") + e.what());
  } catch (const char* e) {
    report(P("exception"), std::string("thrown: ") + e);
  } catch (...) {
    report(P("exception"), "non-standard exception");
  }
  vf::end_case();
}

// ---------------------------------------------------------------------------------------------------------------------
// triples
// ---------------------------------------------------------------------------------------------------------------------
static void check_triple(const World& w, const Item& a, const Item& b, const Item& c) {
  begin_case("k=" + std::string(VF_PART == 0 ? "ex3" : "gr3") + ";" + w.tag() + ";a=" + c18::diag_str(a.d) + ";b=" + c18::diag_str(b.d) + ";c=" + c18::diag_str(c.d));
  try {
    Land A = build(w, a.rd), B = build(w, b.rd), C = build(w, c.rd);
    const Table &TA = a.T, &TB = b.T, &TC = c.T;
    // triangle inequality on the library's own numbers
    for (int p = 0; p < 3; ++p) {
      double ab = dist(A, B, p), bc = dist(B, C, p), ac = dist(A, C, p);
      CNT("ev.evaluations", 1);
      if (!(ac <= ab + bc + TOL * std::max(1.0, ac)))
        report(P("distance:triangle_inequality:") + PNAME[p], "d(a,c)=" + num(ac) + " > d(a,b)+d(b,c)=" + num(ab) + "+" + num(bc));
    }
    // bilinearity: <2a - 3b, c> = 2<a,c> - 3<b,c>, and the same in the second argument
    {
      Land comb = 2.0 * A - B * 3.0;
      CNT("ev.transitions", 3);
      Table Tcomb = c18::lin(TA, 2, TB, -3);
      CMP_TABLE(P("operator-"), comb, Tcomb);
      double ac = inner_product(A, C), bc = inner_product(B, C);
      double left = inner_product(comb, C), right = inner_product(C, comb);
      double want = c18::inner(Tcomb, TC);
      cmp_scalar(P("compute_scalar_product:of_combination"), left, want, "<2a-3b,c>");
      cmp_scalar(P("compute_scalar_product:of_combination"), right, want, "<c,2a-3b>");
      CNT("ev.evaluations", 2);
      if (!near(left, 2 * ac - 3 * bc)) report(P("compute_scalar_product:not_bilinear"), "<2a-3b,c>=" + num(left) + " 2<a,c>-3<b,c>=" + num(2 * ac - 3 * bc));
      if (!near(right, 2 * ac - 3 * bc)) report(P("compute_scalar_product:not_bilinear"), "<c,2a-3b>=" + num(right) + " 2<a,c>-3<b,c>=" + num(2 * ac - 3 * bc));
    }
    // (a + b) + c, a - (b - c), average of three
    {
      Land s = (A + B) + C, d = A - (B - C);
      CNT("ev.transitions", 4);
      CMP_TABLE(P("operator+"), s, c18::lin(c18::lin(TA, 1, TB, 1), 1, TC, 1));
      CMP_TABLE(P("operator-"), d, c18::lin(TA, 1, c18::lin(TB, 1, TC, -1), -1));
      Land a2(A), b2(B), c2(C);
      Land av = average({&a2, &b2, &c2});
      CMP_TABLE(P("compute_average"), av, c18::scaled(c18::lin(c18::lin(TA, 1, TB, 1), 1, TC, 1), 1.0 / 3));
    }
  } catch (const std::exception& e) {
    report(P("exception"), std::string("std::exception: ") + e.what());
  } catch (const char* e) {
    report(P("exception"), std::string("thrown: ") + e);
  } catch (...) {
    report(P("exception"), "non-standard exception");
  }
  vf::end_case();
}

// ---------------------------------------------------------------------------------------------------------------------
// enumeration
// ---------------------------------------------------------------------------------------------------------------------
static long long g_case_index = 0;

static std::vector<Item> items_of(const World& w, int n) {
  std::vector<Diag> ds = c18::all_diagrams(w.E, n);
  if ((long long)ds.size() != c18::expected_diagram_count(w.E, n)) {
    CNT("ev.incomplete", 1);
    vf::mismatch("C18:ENGINE:oracle_selfcheck", "diagram enumerator count");
  }
  std::vector<Item> r;
  r.reserve(ds.size());
  for (auto& d : ds) r.push_back(make_item(w, d));
  return r;
}

static void count_classes(const Item& it) {
  if (it.cls.repeated) CNT("diagrams.with_repeated_interval", 1);
  if (it.cls.nested) CNT("diagrams.with_nested_intervals", 1);
  if (it.cls.shared_endpoint) CNT("diagrams.with_nested_intervals_sharing_an_endpoint", 1);
  if (it.cls.touching) CNT("diagrams.with_touching_intervals", 1);
  if (it.cls.crossing) CNT("diagrams.with_partially_overlapping_intervals", 1);
  if (it.cls.disjoint) CNT("diagrams.with_disjoint_intervals", 1);
  vf::stats().maxi("max_nonzero_levels", (long long)it.T.levels());
}
static bool nontrivial(const Item& it) { return it.T.levels() >= 2 || it.cls.touching; }

// spec "E:n"
static void parse_spec(const std::string& s, int& E, int& n) { E = 0; n = 0; sscanf(s.c_str(), "%d:%d", &E, &n); }

static void run_single(World w, const std::string& spec, const vf::Args& a) {
  int n;
  parse_spec(spec, w.E, n);
#if VF_PART == 1
  if (!w.fits()) { CNT("ev.incomplete", 1); return; }
#endif
  std::vector<Item> all = items_of(w, n);
  // a shard takes whole diagrams (every order of the intervals of a diagram runs in the same process)
  std::vector<const Item*> items;
  for (auto& it : all) {
    long long idx = g_case_index++;
    if (idx % a.nshards == a.shard) items.push_back(&it);
  }
#if VF_PART == 1
  std::vector<size_t> alive = probe_survival(w, items);
#endif
  for (size_t no = 0; no < items.size(); ++no) {
    const Item& it = *items[no];
    count_classes(it);
    CNT("diagrams", 1);
    std::vector<int> ord(it.d.size());
    std::iota(ord.begin(), ord.end(), 0);
    std::set<std::vector<c18::Iv>> seen;  // distinct sequences only
    do {
      std::vector<c18::Iv> seq;
      for (int i : ord) seq.push_back(it.d[i]);
      if (!seen.insert(seq).second) continue;
#if VF_PART == 1
      check_single(w, it, ord, alive[no]);
#else
      check_single(w, it, ord);
#endif
      if (nontrivial(it)) CNT("ev.nontrivial", 1);
      if (no % 199 == 150 && seen.size() == 2) vf::stats().sample(vf::g_case, 4);
    } while (std::next_permutation(ord.begin(), ord.end()));
  }
}
static void run_pairs(World w, const std::string& spec, const vf::Args& a) {
  int n;
  parse_spec(spec, w.E, n);
#if VF_PART == 1
  if (!w.fits()) { CNT("ev.incomplete", 1); return; }
#endif
  std::vector<Item> items = items_of(w, n);
  for (size_t i = 0; i < items.size(); ++i)
    for (size_t j = i; j < items.size(); ++j) {
      long long idx = g_case_index++;
      if (idx % a.nshards != a.shard) continue;
      check_pair(w, items[i], items[j]);
      if (nontrivial(items[i]) || nontrivial(items[j])) CNT("ev.nontrivial", 1);
      if ((i * 7 + j) % 1000 == 999) vf::stats().sample(vf::g_case, 8);
    }
}
static void run_triples(World w, const std::string& spec, const vf::Args& a) {
  int n;
  parse_spec(spec, w.E, n);
#if VF_PART == 1
  if (!w.fits()) { CNT("ev.incomplete", 1); return; }
#endif
  std::vector<Item> items = items_of(w, n);
  for (size_t i = 0; i < items.size(); ++i)
    for (size_t j = 0; j < items.size(); ++j)
      for (size_t k = 0; k < items.size(); ++k) {
        long long idx = g_case_index++;
        if (idx % a.nshards != a.shard) continue;
        check_triple(w, items[i], items[j], items[k]);
        if (nontrivial(items[i]) || nontrivial(items[j]) || nontrivial(items[k])) CNT("ev.nontrivial", 1);
        if ((i * 131 + j * 17 + k) % 5000 == 4999) vf::stats().sample(vf::g_case, 10);
      }
}

#if VF_PART == 1
static bool parse_grid(const std::string& g, World& w) {
  double gm, dx;
  int n, off;
  if (sscanf(g.c_str(), "%lf:%lf:%d:%d", &gm, &dx, &n, &off) != 4) return false;
  w.gmin = gm; w.dx = dx; w.n = n; w.off = off;
  return dx > 0 && n > 0;
}
#endif

static void replay(const std::string& cs) {
  auto kv = vf::parse_kv(cs);
  World w;
  w.E = atoi(kv["E"].c_str());
#if VF_PART == 1
  if (!parse_grid(kv["g"], w) || !w.fits()) { CNT("ev.incomplete", 1); return; }
#endif
  std::string k = kv["k"];
  if (k == "ex1" || k == "gr1") {
    Item it = make_item(w, c18::parse_diag(kv["d"]));
    std::vector<int> ord = vf::parse_ints(kv["ord"]);
    if (ord.size() != it.d.size()) { ord.resize(it.d.size()); std::iota(ord.begin(), ord.end(), 0); }
#if VF_PART == 1
    check_single(w, it, ord, probe_survival(w, {&it})[0]);
#else
    check_single(w, it, ord);
#endif
  } else if (k == "ex2" || k == "gr2") {
    check_pair(w, make_item(w, c18::parse_diag(kv["a"])), make_item(w, c18::parse_diag(kv["b"])));
  } else if (k == "ex3" || k == "gr3") {
    check_triple(w, make_item(w, c18::parse_diag(kv["a"])), make_item(w, c18::parse_diag(kv["b"])), make_item(w, c18::parse_diag(kv["c"])));
  } else if (k == "oracle") {
    make_item(w, c18::parse_diag(kv["d"]));
  } else {
    CNT("ev.incomplete", 1);
  }
}

static std::vector<std::string> split(const std::string& s, char sep) {
  std::vector<std::string> r;
  std::string cur;
  for (char ch : s) { if (ch == sep) { r.push_back(cur); cur.clear(); } else cur += ch; }
  if (!cur.empty()) r.push_back(cur);
  return r;
}

int main(int argc, char** argv) {
  vf::Args a = vf::parse_args(argc, argv);
  vf::install_handlers();
  if (!a.replay.empty()) {
    replay(a.replay);
  } else {
    // --single E:n[,E:n]  --pairs E:n  --triples E:n   (gridded unit: --grids gmin:dx:cells:off[,..], every spec on every grid)
    std::vector<World> worlds;
#if VF_PART == 0
    worlds.push_back(World());
#else
    for (auto& g : split(a.get("grids", "0:0.5:10:0"), ',')) {
      World w;
      if (!parse_grid(g, w)) { CNT("ev.incomplete", 1); continue; }
      worlds.push_back(w);
    }
#endif
    bool any = false;
    for (auto& w : worlds) {
      for (auto& s : split(a.get("single"), ',')) { run_single(w, s, a); any = true; }
      for (auto& s : split(a.get("pairs"), ',')) { run_pairs(w, s, a); any = true; }
      for (auto& s : split(a.get("triples"), ',')) { run_triples(w, s, a); any = true; }
    }
    if (!any) CNT("ev.incomplete", 1);
  }
  CNT("ev.incomplete", 0);
  CNT("ev.nontrivial", 0);
  vf::finish();
  return 0;
}
