// C07 - Zigzag persistence outputs the interval decomposition of the zigzag module.
// E1 history enumeration WITHOUT deduplication (the output depends on the whole history): every sequence of
// {insert_cell, remove_cell, apply_identity} from the empty complex over a small universe of cells, every intermediate
// set a complex, up to a depth bound, sharded by prefix.  Every history is replayed on FRESH objects of the real
// classes (one column type per binary, -DVF_COL=k):
//   plain   : Gudhi::zigzag_persistence::Zigzag_persistence   (streamed finite intervals + get_current_infinite_intervals)
//   storage : Filtered_zigzag_persistence_with_storage         (get_index_persistence_diagram, get_persistence_diagram)
//   stream  : Filtered_zigzag_persistence                      (streamed value intervals + get_current_infinite_intervals)
// and compared with RefZigzag (checks/c07_ref_zigzag.hpp: rank of lim -> colim on every sub-interval, GF(2) linear
// algebra on explicit homology groups) - which shares nothing with the diamond / vine algorithm.  Insertion-only
// histories are additionally compared with ref::persistence (column reduction of the boundary matrix).
//
// Documented preconditions used by the enabledness predicate (computed from the model only):
//   insert_cell : the cell is absent and all its faces are present; boundary listed by increasing arrow number (plain)
//   remove_cell : the cell is present and no present cell has it as a face
//   filtered    : filtration values monotone (non-decreasing or non-increasing) along the sequence; cell keys distinct
// --seed-ops <list|all>: every history starts with that fixed operation list ("all" = insert every cell of the universe
//   in numbering order, "allrev" = by dimension and decreasing number, "dim0" / "dim01" = the cells of dimension 0 / <= 1); the enumeration (depth counted after the seed) is exhaustive from there.
// --min-op-dim d: after the seed, only cells of dimension >= d are inserted / removed (apply_identity stays): e.g. every
//   sequence of edge insertions / removals on a fixed vertex set.
// Case encoding (replayable): "u=<universe>;ops=<c1,c2,...>;fe=<plain|storage|stream>[;dimmax=<d>;vals=<v1,...>]"
//   op code 0 = apply_identity, 1+c = insert cell c, 1+N+c = remove cell c (N = number of cells of the universe).
#include "harness.hpp"
#include "ref_complex.hpp"
#include "c07_ref_zigzag.hpp"

#include <gudhi/zigzag_persistence.h>
#include <gudhi/filtered_zigzag_persistence.h>

#include <cmath>
#include <limits>

#ifndef VF_COL
#define VF_COL 4
#endif

using Gudhi::persistence_matrix::Column_types;
static constexpr Column_types COL = static_cast<Column_types>(VF_COL);
static const char* col_name() {
  switch (COL) {
    case Column_types::LIST: return "LIST";
    case Column_types::SET: return "SET";
    case Column_types::HEAP: return "HEAP";
    case Column_types::VECTOR: return "VECTOR";
    case Column_types::NAIVE_VECTOR: return "NAIVE_VECTOR";
    case Column_types::SMALL_VECTOR: return "SMALL_VECTOR";
    case Column_types::UNORDERED_SET: return "UNORDERED_SET";
    case Column_types::INTRUSIVE_LIST: return "INTRUSIVE_LIST";
    case Column_types::INTRUSIVE_SET: return "INTRUSIVE_SET";
  }
  return "?";
}

struct ZOpt {
  using Internal_key = int;
  using Dimension = int;
  static const Column_types column_type = COL;
};
struct FOpt : ZOpt {
  using Cell_key = int;
  using Filtration_value = double;
};
using ZP = Gudhi::zigzag_persistence::Zigzag_persistence<ZOpt>;
using FZS = Gudhi::zigzag_persistence::Filtered_zigzag_persistence_with_storage<FOpt>;
using FZP = Gudhi::zigzag_persistence::Filtered_zigzag_persistence<FOpt>;
static const double INF = std::numeric_limits<double>::infinity();

// ---------------------------------------------------------------------------------------------------------------------
// universes
// ---------------------------------------------------------------------------------------------------------------------
struct UCell {
  int dim;
  uint64_t bd;     // boundary chain over GF(2)
  uint64_t faces;  // codimension-1 faces as a cell complex (= bd for regular cells; a loop has faces {v} and bd 0)
  int key;         // arbitrary distinct integer used as Cell_key by the filtered front-ends
};
struct Universe {
  std::string name;
  std::vector<UCell> c;
  int N() const { return (int)c.size(); }
};
static uint64_t M(std::initializer_list<int> l) { uint64_t m = 0; for (int i : l) m |= (uint64_t)1 << i; return m; }

static Universe make_universe(const std::string& n) {
  static const int keys[] = {13, -7, 1000003, 0, 42, -1, 5, 99, -100, 7, 8, 2147483647, -2147483647, 64, 1 << 20, 3,
                             -64, 17, 1 << 30, -5, 123456, 21, -2, 77};
  Universe u;
  u.name = n;
  auto add = [&](int dim, uint64_t bd, uint64_t faces) { int i = (int)u.c.size(); u.c.push_back({dim, bd, faces, keys[i]}); };
  auto reg = [&](int dim, uint64_t bd) { add(dim, bd, bd); };
  if (n == "triangle") {  // 0,1,2 | 3=01 4=02 5=12 | 6=012
    for (int i = 0; i < 3; ++i) reg(0, 0);
    reg(1, M({0, 1})); reg(1, M({0, 2})); reg(1, M({1, 2}));
    reg(2, M({3, 4, 5}));
  } else if (n == "square") {  // 0..3 | 4=01 5=12 6=23 7=03 | 8 = one 2-cell with four boundary edges (not a simplex)
    for (int i = 0; i < 4; ++i) reg(0, 0);
    reg(1, M({0, 1})); reg(1, M({1, 2})); reg(1, M({2, 3})); reg(1, M({0, 3}));
    reg(2, M({4, 5, 6, 7}));
  } else if (n == "two_triangles") {  // 0..3 | 4=01 5=02 6=12 7=13 8=23 | 9=012 10=123
    for (int i = 0; i < 4; ++i) reg(0, 0);
    reg(1, M({0, 1})); reg(1, M({0, 2})); reg(1, M({1, 2})); reg(1, M({1, 3})); reg(1, M({2, 3}));
    reg(2, M({4, 5, 6})); reg(2, M({6, 7, 8}));
  } else if (n == "cw") {  // general cells: 0 = vertex | 1,2 = loops at 0 (boundary 0) | 3 = disc glued on 1+2 | 4 = sphere cell at 0
    reg(0, 0);
    add(1, 0, M({0})); add(1, 0, M({0}));
    reg(2, M({1, 2}));
    add(2, 0, M({0}));
  } else if (n == "tetra_skeleton") {  // 0..3 | six edges | four triangles (hollow tetrahedron: a 2-cycle appears)
    for (int i = 0; i < 4; ++i) reg(0, 0);
    reg(1, M({0, 1})); reg(1, M({0, 2})); reg(1, M({0, 3})); reg(1, M({1, 2})); reg(1, M({1, 3})); reg(1, M({2, 3}));
    reg(2, M({4, 5, 7})); reg(2, M({4, 6, 8})); reg(2, M({5, 6, 9})); reg(2, M({7, 8, 9}));
  } else if (n == "bouquet4" || n == "bouquet4w" || n == "bouquet5w") {
    // one vertex 0, loops 1..L at it (boundary 0 over Z_2), then discs glued on sums of loops:
    //   bouquet4  : a disc for every non-empty subset of the 4 loops (15 discs, by increasing subset mask)
    //   bouquet4w : discs on {4}, {1,2,3,4}, {2,3}
    //   bouquet5w : discs on {5}, {4,5}, {1,2,3,4,5}, {2,3}, {2,3,4}
    int L = n == "bouquet5w" ? 5 : 4;
    reg(0, 0);
    for (int l = 0; l < L; ++l) add(1, 0, M({0}));
    auto disc = [&](std::initializer_list<int> loops) { reg(2, M(loops)); };
    if (n == "bouquet4") for (int m = 1; m < 16; ++m) reg(2, (uint64_t)m << 1);
    else if (n == "bouquet4w") { disc({4}); disc({1, 2, 3, 4}); disc({2, 3}); }
    else { disc({5}); disc({4, 5}); disc({1, 2, 3, 4, 5}); disc({2, 3}); disc({2, 3, 4}); }
  } else if (n == "path6" || n == "star6" || n == "graph6w" || n == "cycle6") {
    // graphs on 6 vertices 0..5 (dimension <= 1): path 01 12 23 34 45 | star 01 02 03 04 05 | cycle = path + 05 |
    // graph6w: the three edges 25 05 23
    for (int i = 0; i < 6; ++i) reg(0, 0);
    if (n == "path6" || n == "cycle6") for (int i = 0; i < 5; ++i) reg(1, M({i, i + 1}));
    if (n == "cycle6") reg(1, M({0, 5}));
    if (n == "star6") for (int i = 1; i < 6; ++i) reg(1, M({0, i}));
    if (n == "graph6w") { reg(1, M({2, 5})); reg(1, M({0, 5})); reg(1, M({2, 3})); }
  } else if (n == "k4") {  // complete graph on 4 vertices, no 2-cells: 4=01 5=02 6=03 7=12 8=13 9=23
    for (int i = 0; i < 4; ++i) reg(0, 0);
    for (int i = 0; i < 4; ++i) for (int j = i + 1; j < 4; ++j) reg(1, M({i, j}));
  } else if (n == "k5") {  // complete graph on 5 vertices, no 2-cells
    for (int i = 0; i < 5; ++i) reg(0, 0);
    for (int i = 0; i < 5; ++i) for (int j = i + 1; j < 5; ++j) reg(1, M({i, j}));
  } else {
    fprintf(stderr, "unknown universe %s\n", n.c_str());
    exit(2);
  }
  return u;
}

// ---------------------------------------------------------------------------------------------------------------------
// model of a history
// ---------------------------------------------------------------------------------------------------------------------
using refzz::Interval;

struct Model {
  const Universe& U;
  explicit Model(const Universe& u) : U(u) {}
  bool can_insert(uint64_t K, int c) const { return !(K >> c & 1) && !(U.c[c].faces & ~K); }
  bool can_remove(uint64_t K, int c) const {
    if (!(K >> c & 1)) return false;
    for (int d = 0; d < U.N(); ++d) if ((K >> d & 1) && (U.c[d].faces >> c & 1)) return false;
    return true;
  }
  bool enabled(uint64_t K, int op) const {
    int N = U.N();
    if (op == 0) return true;
    if (op <= N) return can_insert(K, op - 1);
    return can_remove(K, op - 1 - N);
  }
  uint64_t apply(uint64_t K, int op) const {
    int N = U.N();
    if (op == 0) return K;
    if (op <= N) return K | ((uint64_t)1 << (op - 1));
    return K & ~((uint64_t)1 << (op - 1 - N));
  }
};

static std::string ivs(const std::vector<Interval>& v) {
  std::ostringstream o;
  for (auto& i : v) { o << "(" << i.dim << "," << i.birth << ","; if (i.death < 0) o << "open"; else o << i.death; o << ")"; }
  return o.str();
}
struct VInterval {
  int dim; double b, d;
  bool operator<(const VInterval& o) const { return std::tie(dim, b, d) < std::tie(o.dim, o.b, o.d); }
  bool operator==(const VInterval& o) const { return dim == o.dim && b == o.b && d == o.d; }
};
static std::string vivs(const std::vector<VInterval>& v) {
  std::ostringstream o;
  for (auto& i : v) o << "(" << i.dim << "," << i.b << "," << i.d << ")";
  return o.str();
}

// what kind of disagreement: same bars but wrong dimension label / same end points paired differently / other
template <class I, class FB, class FD>
static std::string discr(const std::vector<I>& got, const std::vector<I>& want, FB birth, FD death) {
  if (got.size() == want.size()) {
    std::vector<std::pair<double, double>> a, b;
    for (auto& x : got) a.push_back({(double)birth(x), (double)death(x)});
    for (auto& x : want) b.push_back({(double)birth(x), (double)death(x)});
    std::sort(a.begin(), a.end()); std::sort(b.begin(), b.end());
    if (a == b) return "dimension_label";
    std::vector<double> ea, eb;
    for (auto& p : a) { ea.push_back(p.first); ea.push_back(p.second); }
    for (auto& p : b) { eb.push_back(p.first); eb.push_back(p.second); }
    std::sort(ea.begin(), ea.end()); std::sort(eb.begin(), eb.end());
    if (ea == eb) return "pairing";
    return "endpoints";
  }
  return got.size() < want.size() ? "bars_missing" : "bars_extra";
}

struct Checker {
  const Universe& U;
  Model model;
  explicit Checker(const Universe& u) : U(u), model(u) {}

  std::string ops_text(const std::vector<int>& h) const {
    std::ostringstream o;
    int N = U.N();
    for (int op : h) {
      if (op == 0) o << "id ";
      else if (op <= N) o << "+" << op - 1 << " ";
      else o << "-" << op - 1 - N << " ";
    }
    return o.str();
  }
  std::string case_base(const std::vector<int>& h) const { return "u=" + U.name + ";ops=" + vf::join(h); }

  // Non-vacuity counters for the forward arrow (read-only peek at the real object before insert_cell, counters only):
  // the boundary has a unique decomposition over the chain basis stored in the matrix; the unpaired chains in it are
  // the ones the surjective reflection diamond works on.  The loop over them (increasing pivot = death order) is
  // followed with the stored births to see how often a chain finds its birth already taken, and where.
  void diamond_counters(ZP& zp, const std::vector<int>& bd, int len) {
    vf::Stats& S = vf::stats();
    std::vector<char> z(len, 0);
    for (int b : bd) z[b] ^= 1;
    std::vector<int> F;  // unpaired chains, by decreasing pivot
    for (int p = len - 1; p >= 0; --p) {
      if (!z[p]) continue;
      auto ci = zp.matrix_.get_column_with_pivot(p);
      auto& col = zp.matrix_.get_column(ci);
      auto content = col.get_content(len);
      for (int r = 0; r < len; ++r) if (content[r]) z[r] ^= 1;
      if (!col.is_paired()) F.push_back((int)ci);
    }
    int p = (int)F.size();
    S.maxi("diamond.unpaired_chains_in_boundary_max", p);
    if (p >= 1) S.add("diamond.forward_arrows_with_" + std::to_string(std::min(p, 6)) + (p >= 6 ? "+" : "") + "_unpaired_chains");
    if (p < 2) return;
    std::vector<int> birth(p);
    auto pos = [&](int b) { return zp.birthOrdering_.birthToPos_.at(b); };
    for (int j = 0; j < p; ++j) birth[j] = zp.births_.at(F[j]);
    std::vector<int> avail = birth;
    auto take_max = [&]() {
      size_t m = 0;
      for (size_t q = 1; q < avail.size(); ++q) if (pos(avail[q]) > pos(avail[m])) m = q;
      int b = avail[m];
      avail.erase(avail.begin() + m);
      return b;
    };
    take_max();
    int last_mod = p - 1;
    bool any = false;
    for (int j = p - 1; j >= 1; --j) {
      int position = p - j;  // 1-based position in increasing death order
      auto it = std::find(avail.begin(), avail.end(), birth[j]);
      if (it != avail.end()) { avail.erase(it); continue; }
      any = true;
      S.add("diamond.birth_not_available");
      if (position >= 3) S.add("diamond.birth_not_available_at_position_ge3");
      if (last_mod != j + 1 && position >= 3) S.add("diamond.birth_not_available_ge3_after_untouched_chain");
      S.maxi("diamond.chains_cumulated_max", last_mod - j + 1);
      birth[j] = take_max();
      last_mod = j;
    }
    if (any) S.add("diamond.forward_arrows_in_birth_not_available_branch");
  }

  // ---- plain Zigzag_persistence ----
  // returns false on mismatch
  bool run_plain(const std::vector<int>& h, const std::vector<Interval>& want_all) {
    vf::Stats& S = vf::stats();
    vf::set_case(case_base(h) + ";fe=plain");
    std::vector<Interval> fin, open;
    bool ok = true;
    int N = U.N();
    {
      ZP zp([&](int dim, int b, int d) { fin.push_back({dim, b, d}); });
      std::vector<int> last_ins(N, -1);
      uint64_t K = 0;
      for (size_t i = 0; i < h.size(); ++i) {
        int op = h[i], ret;
        if (op == 0) ret = zp.apply_identity();
        else if (op <= N) {
          int c = op - 1;
          std::vector<int> bd;
          for (int f = 0; f < N; ++f) if (U.c[c].bd >> f & 1) bd.push_back(last_ins[f]);
          std::sort(bd.begin(), bd.end());
          if (!bd.empty()) diamond_counters(zp, bd, (int)i);
          size_t before = fin.size();
          ret = zp.insert_cell(bd, U.c[c].dim);
          last_ins[c] = (int)i;
          S.add(fin.size() > before ? "branch.insert_kills_class" : "branch.insert_creates_class");
        } else {
          int c = op - 1 - N;
          size_t rowsz = zp.matrix_.get_row(last_ins[c]).size();
          S.add("branch.removal_vine_swaps", (long long)rowsz - 1);
          S.maxi("removal_vine_swaps_max", (long long)rowsz - 1);
          size_t before = fin.size();
          ret = zp.remove_cell(last_ins[c]);
          last_ins[c] = -1;
          S.add(fin.size() > before ? "branch.removal_kills_class" : "branch.removal_creates_class");
        }
        K = model.apply(K, op);
        S.add("ev.transitions");
        if (ret != (int)i) {
          ok = false;
          vf::mismatch("C07:plain:return_op_number", std::string(col_name()) + " op " + std::to_string(i) + " returned " +
                                                         std::to_string(ret) + " ops=" + ops_text(h));
        }
      }
      zp.get_current_infinite_intervals([&](int dim, int b) { open.push_back({dim, b, -1}); });
      S.add("ev.transitions");
    }
    std::vector<Interval> want_fin, want_open;
    for (auto& x : want_all) (x.death < 0 ? want_open : want_fin).push_back(x);
    std::sort(fin.begin(), fin.end());
    std::sort(open.begin(), open.end());
    auto B = [](const Interval& x) { return x.birth; };
    auto D = [](const Interval& x) { return x.death; };
    if (fin != want_fin) {
      ok = false;
      vf::mismatch("C07:plain:streamed_finite_intervals:" + discr(fin, want_fin, B, D),
                   std::string(col_name()) + " got " + ivs(fin) + " want " + ivs(want_fin) + " ops=" + ops_text(h));
    }
    if (open != want_open) {
      ok = false;
      vf::mismatch("C07:plain:current_infinite_intervals:" + discr(open, want_open, B, D),
                   std::string(col_name()) + " got " + ivs(open) + " want " + ivs(want_open) + " ops=" + ops_text(h));
    }
    S.add("ev.evaluations", 2);
    S.add("ev.traces");
    S.add("runs.plain");
    vf::end_case();
    return ok;
  }

  // ---- insertion-only histories: ordinary persistence by column reduction ----
  void check_insertion_only(const std::vector<int>& h, const std::vector<Interval>& want_all) {
    int N = U.N();
    std::vector<int> pos_of_cell(N, -1), opidx;
    std::vector<ref::Cell> cells;
    for (size_t i = 0; i < h.size(); ++i) {
      int op = h[i];
      if (op == 0) continue;
      if (op > N) return;  // has a removal
      int c = op - 1;
      ref::Cell rc;
      rc.dim = U.c[c].dim;
      for (int f = 0; f < N; ++f) if (U.c[c].bd >> f & 1) rc.bd.push_back({pos_of_cell[f], 1});
      pos_of_cell[c] = (int)cells.size();
      cells.push_back(rc);
      opidx.push_back((int)i);
    }
    std::vector<Interval> pers;
    for (auto& p : ref::persistence(cells, 2)) pers.push_back({p.dim, opidx[p.birth], p.death < 0 ? -1 : opidx[p.death]});
    std::sort(pers.begin(), pers.end());
    vf::stats().add("ev.evaluations");
    vf::stats().add("insertion_only_histories");
    if (pers != want_all) {
      // two oracles disagree: the zigzag oracle is what the implementation is compared with, so report it as an
      // oracle problem under its own class
      vf::set_case(case_base(h) + ";fe=plain");
      vf::mismatch("C07:oracle:insertion_only_vs_column_reduction", "refzz " + ivs(want_all) + " column reduction " + ivs(pers));
      vf::end_case();
    }
  }

  // values of the operations: val[i] for op i (ignored by identity steps)
  static std::vector<Interval> filter_dim(const std::vector<Interval>& v, int dimmax) {
    if (dimmax == -1) return v;
    std::vector<Interval> r;
    for (auto& x : v) if (x.dim < dimmax) r.push_back(x);
    return r;
  }

  // ---- Filtered_zigzag_persistence_with_storage ----
  bool run_storage(const std::vector<int>& h, const std::vector<double>& val, int dimmax,
                   const std::vector<Interval>& want_all) {
    vf::Stats& S = vf::stats();
    std::string valtxt = vf::join(val);
    vf::set_case(case_base(h) + ";fe=storage;dimmax=" + std::to_string(dimmax) + ";vals=" + valtxt);
    bool ok = true;
    int N = U.N();
    std::vector<Interval> idx;
    std::vector<VInterval> diag, diag_fin;
    std::vector<std::pair<int, double>> fv_bad;
    {
      FZS zp((unsigned)N, dimmax);
      for (size_t i = 0; i < h.size(); ++i) {
        int op = h[i], ret;
        if (op == 0) ret = zp.apply_identity();
        else if (op <= N) {
          int c = op - 1;
          std::vector<int> bd;  // keys, deliberately by decreasing cell number (any order is documented as accepted)
          for (int f = N - 1; f >= 0; --f) if (U.c[c].bd >> f & 1) bd.push_back(U.c[f].key);
          ret = zp.insert_cell(U.c[c].key, bd, U.c[c].dim, val[i]);
        } else {
          ret = zp.remove_cell(U.c[op - 1 - N].key, val[i]);
        }
        S.add("ev.transitions");
        if (ret != (int)i) {
          ok = false;
          vf::mismatch("C07:storage:return_op_number", std::string(col_name()) + " op " + std::to_string(i) + " returned " +
                                                           std::to_string(ret) + " dimmax=" + std::to_string(dimmax) +
                                                           " ops=" + ops_text(h));
        }
      }
      for (auto& b : zp.get_index_persistence_diagram()) {
        idx.push_back({b.dim, b.birth, b.death});
        // get_filtration_value_from_index is documented for the indices returned by the index diagram
        double fb = zp.get_filtration_value_from_index(b.birth), fd = zp.get_filtration_value_from_index(b.death);
        if (fb != val[b.birth]) fv_bad.push_back({b.birth, fb});
        if (fd != val[b.death]) fv_bad.push_back({b.death, fd});
      }
      for (auto& b : zp.get_persistence_diagram()) diag.push_back({b.dim, b.birth, b.death});
      for (auto& b : zp.get_persistence_diagram(0., false)) diag_fin.push_back({b.dim, b.birth, b.death});
      S.add("ev.transitions", 3);
    }
    std::vector<Interval> want = filter_dim(want_all, dimmax), want_idx;
    std::vector<VInterval> want_diag, want_diag_fin;
    for (auto& x : want) {
      if (x.death >= 0) {
        want_idx.push_back(x);
        double b = val[x.birth], d = val[x.death];
        if (b != d) { want_diag.push_back({x.dim, std::min(b, d), std::max(b, d)}); want_diag_fin.push_back(want_diag.back()); }
        else S.add("filtered.zero_length_bars_omitted");
      } else want_diag.push_back({x.dim, val[x.birth], INF});
    }
    if (want.size() != want_all.size()) S.add("filtered.runs_with_bars_of_ignored_dimension");
    std::sort(idx.begin(), idx.end());
    std::sort(diag.begin(), diag.end()); std::sort(diag_fin.begin(), diag_fin.end());
    std::sort(want_diag.begin(), want_diag.end()); std::sort(want_diag_fin.begin(), want_diag_fin.end());
    std::string ctx = std::string(col_name()) + " dimmax=" + std::to_string(dimmax) + " vals=" + valtxt + " ops=" + ops_text(h);
    auto B = [](const Interval& x) { return x.birth; };
    auto D = [](const Interval& x) { return x.death; };
    auto VB = [](const VInterval& x) { return x.b; };
    auto VD = [](const VInterval& x) { return x.d; };
    if (idx != want_idx) {
      ok = false;
      vf::mismatch("C07:storage:get_index_persistence_diagram:" + discr(idx, want_idx, B, D),
                   ctx + " got " + ivs(idx) + " want " + ivs(want_idx));
    }
    if (!fv_bad.empty()) {
      ok = false;
      vf::mismatch("C07:storage:get_filtration_value_from_index",
                   ctx + " index " + std::to_string(fv_bad[0].first) + " -> " + std::to_string(fv_bad[0].second));
    }
    if (diag != want_diag) {
      ok = false;
      vf::mismatch("C07:storage:get_persistence_diagram:" + discr(diag, want_diag, VB, VD),
                   ctx + " got " + vivs(diag) + " want " + vivs(want_diag));
    }
    if (diag_fin != want_diag_fin) {
      ok = false;
      vf::mismatch("C07:storage:get_persistence_diagram_without_infinite:" + discr(diag_fin, want_diag_fin, VB, VD),
                   ctx + " got " + vivs(diag_fin) + " want " + vivs(want_diag_fin));
    }
    S.add("ev.evaluations", 4);
    S.add("ev.traces");
    S.add("runs.storage");
    vf::end_case();
    return ok;
  }

  // ---- Filtered_zigzag_persistence (streaming) ----
  bool run_stream(const std::vector<int>& h, const std::vector<double>& val, const std::vector<Interval>& want_all) {
    vf::Stats& S = vf::stats();
    std::string valtxt = vf::join(val);
    vf::set_case(case_base(h) + ";fe=stream;vals=" + valtxt);
    bool ok = true;
    int N = U.N();
    std::vector<VInterval> fin, open;
    {
      FZP zp([&](int dim, double b, double d) { fin.push_back({dim, b, d}); });
      for (size_t i = 0; i < h.size(); ++i) {
        int op = h[i], ret;
        if (op == 0) ret = zp.apply_identity();
        else if (op <= N) {
          int c = op - 1;
          std::vector<int> bd;
          for (int f = N - 1; f >= 0; --f) if (U.c[c].bd >> f & 1) bd.push_back(U.c[f].key);
          ret = zp.insert_cell(U.c[c].key, bd, U.c[c].dim, val[i]);
        } else {
          ret = zp.remove_cell(U.c[op - 1 - N].key, val[i]);
        }
        S.add("ev.transitions");
        if (ret != (int)i) {
          ok = false;
          vf::mismatch("C07:stream:return_op_number", std::string(col_name()) + " op " + std::to_string(i) + " returned " +
                                                          std::to_string(ret) + " ops=" + ops_text(h));
        }
      }
      zp.get_current_infinite_intervals([&](int dim, double b) { open.push_back({dim, b, INF}); });
      S.add("ev.transitions");
    }
    std::vector<VInterval> want_fin, want_open;
    for (auto& x : want_all) {
      if (x.death >= 0) { if (val[x.birth] != val[x.death]) want_fin.push_back({x.dim, val[x.birth], val[x.death]}); }
      else want_open.push_back({x.dim, val[x.birth], INF});
    }
    std::sort(fin.begin(), fin.end()); std::sort(open.begin(), open.end());
    std::sort(want_fin.begin(), want_fin.end()); std::sort(want_open.begin(), want_open.end());
    std::string ctx = std::string(col_name()) + " vals=" + valtxt + " ops=" + ops_text(h);
    auto VB = [](const VInterval& x) { return x.b; };
    auto VD = [](const VInterval& x) { return x.d; };
    if (fin != want_fin) {
      ok = false;
      vf::mismatch("C07:stream:streamed_value_intervals:" + discr(fin, want_fin, VB, VD),
                   ctx + " got " + vivs(fin) + " want " + vivs(want_fin));
    }
    if (open != want_open) {
      ok = false;
      vf::mismatch("C07:stream:current_infinite_intervals:" + discr(open, want_open, VB, VD),
                   ctx + " got " + vivs(open) + " want " + vivs(want_open));
    }
    S.add("ev.evaluations", 2);
    S.add("ev.traces");
    S.add("runs.stream");
    vf::end_case();
    return ok;
  }
};

// ---------------------------------------------------------------------------------------------------------------------
// self-test of the oracle: the 29-operation filtration of src/Zigzag_persistence/test/test_zigzag_persistence.cpp and its
// 16 expected intervals (copied from that file)
// ---------------------------------------------------------------------------------------------------------------------
static bool oracle_self_test() {
  std::vector<std::vector<int>> bnd = {{}, {}, {}, {0, 1}, {0, 2}, {}, {1, 2}, {}, {5, 7}, {}, {3, 4, 6}, {7, 9}, {5, 9},
                                       {8, 11, 12}, {10}, {13}, {1, 7}, {3, 4, 6}, {2, 7}, {8, 11, 12}, {0, 7},
                                       {4, 18, 20}, {6, 16, 18}, {3, 16, 20}, {19}, {8}, {12}, {17, 21, 22, 23}, {27}};
  auto is_removal = [](int i) { return i == 14 || i == 15 || (i >= 24 && i <= 26) || i == 28; };
  std::vector<Interval> want = {{0, 1, 3}, {0, 2, 4}, {0, 7, 8}, {1, 6, 10}, {0, 9, 11}, {1, 12, 13}, {0, 5, 16}, {1, 14, 17},
                                {1, 15, 19}, {1, 20, 21}, {1, 18, 22}, {1, 24, 25}, {2, 23, 27}, {0, 0, -1}, {0, 26, -1},
                                {2, 28, -1}};
  std::sort(want.begin(), want.end());
  int n = (int)bnd.size();
  std::vector<refzz::Cell> cells(n);
  for (int i = 0; i < n; ++i) {
    cells[i] = {0, 0};
    if (is_removal(i)) continue;
    cells[i].dim = bnd[i].empty() ? 0 : (int)bnd[i].size() - 1;
    for (int f : bnd[i]) cells[i].bd |= (uint64_t)1 << f;
  }
  // z: as used by the enumeration (64-bit fast path where it fits, r(b,d) = 0 propagated to the left);
  // zx: every r(b,d) from the definition on the 256-bit vectors.  Both must give the same table.
  refzz::RefZigzag z(cells), zx(cells);
  zx.exact_all = true;
  zx.force_wide = true;
  uint64_t K = 0;
  for (int i = 0; i < n; ++i) {
    if (is_removal(i)) K &= ~((uint64_t)1 << bnd[i][0]);
    else K |= (uint64_t)1 << i;
    z.push(K);
    zx.push(K);
  }
  for (int k = 0; k <= z.max_dim(); ++k)
    for (int b = 0; b < n; ++b)
      for (int d = b; d < n; ++d) {
        if (z.r(k, b, d) != zx.r(k, b, d)) {
          fprintf(stderr, "ORACLE SELF-TEST FAILED: r(%d;%d,%d) = %d with shortcuts, %d from the definition\n", k, b, d,
                  z.r(k, b, d), zx.r(k, b, d));
          return false;
        }
        vf::stats().add("selftest.rank_values_cross_checked");
      }
  std::vector<Interval> got = z.intervals();
  vf::stats().add("selftest.operations", n);
  vf::stats().add("selftest.expected_intervals", (long long)want.size());
  size_t matched = 0;
  for (auto& w : want) if (std::find(got.begin(), got.end(), w) != got.end()) ++matched;
  vf::stats().add("selftest.intervals_matched", (long long)matched);
  if (got != want) {
    fprintf(stderr, "ORACLE SELF-TEST FAILED\n got  %s\n want %s\n", ivs(got).c_str(), ivs(want).c_str());
    return false;
  }
  // every prefix too: the bars of a prefix are the bars of the whole restricted to it
  for (int len = 1; len < n; ++len) {
    refzz::RefZigzag p(cells);
    uint64_t Q = 0;
    for (int i = 0; i < len; ++i) {
      if (is_removal(i)) Q &= ~((uint64_t)1 << bnd[i][0]);
      else Q |= (uint64_t)1 << i;
      p.push(Q);
    }
    std::vector<Interval> w;
    for (auto& x : want) if (x.birth < len) w.push_back({x.dim, x.birth, (x.death >= 0 && x.death < len) ? x.death : -1});
    std::sort(w.begin(), w.end());
    if (p.intervals() != w) {
      fprintf(stderr, "ORACLE SELF-TEST FAILED on prefix %d\n got  %s\n want %s\n", len, ivs(p.intervals()).c_str(), ivs(w).c_str());
      return false;
    }
    vf::stats().add("selftest.prefixes_matched");
  }
  // the real code on the same filtration, against the oracle (one more case executed on the implementation)
  vf::set_case("selftest:29-operation filtration of test_zigzag_persistence.cpp");
  std::vector<Interval> fin, open;
  {
    ZP zp([&](int dim, int b, int d) { fin.push_back({dim, b, d}); }, 28);
    for (int i = 0; i < n; ++i) {
      if (is_removal(i)) zp.remove_cell(bnd[i][0]);
      else zp.insert_cell(bnd[i], bnd[i].empty() ? 0 : (int)bnd[i].size() - 1);
    }
    zp.get_current_infinite_intervals([&](int dim, int b) { open.push_back({dim, b, -1}); });
  }
  fin.insert(fin.end(), open.begin(), open.end());
  std::sort(fin.begin(), fin.end());
  if (fin != got) vf::mismatch("C07:plain:unit_test_filtration", std::string(col_name()) + " got " + ivs(fin) + " want " + ivs(got));
  vf::stats().add("ev.traces");
  vf::stats().add("ev.evaluations");
  vf::stats().add("ev.transitions", n + 1);
  vf::end_case();
  return true;
}

// ---------------------------------------------------------------------------------------------------------------------
// enumeration
// ---------------------------------------------------------------------------------------------------------------------
struct Enum {
  const Universe& U;
  Checker chk;
  refzz::RefZigzag z;
  int shard = 0, nshards = 1, prefix_depth = 4;
  int full_values_depth = 0;   // every monotone value sequence over {0,1,2} for histories up to this depth
  int filtered_depth = 0;      // the fixed value sequences for histories up to this depth
  std::vector<int> seed;       // fixed operation prefix of every history (reaches complexes a search from empty cannot)
  int min_op_dim = 0;          // after the seed only cells of at least this dimension are inserted / removed
  bool oracle_only = false;     // timing aid: enumerate and run the oracle, skip the implementation
  long long counter = 0;
  std::vector<int> h;
  std::vector<uint64_t> Ks;

  explicit Enum(const Universe& u) : U(u), chk(u), z(to_cells(u)) {}
  static std::vector<refzz::Cell> to_cells(const Universe& u) {
    std::vector<refzz::Cell> c;
    for (auto& x : u.c) c.push_back({x.dim, x.bd});
    return c;
  }

  void leaf() {
    vf::Stats& S = vf::stats();
    std::vector<Interval> want = z.intervals();
    int N = U.N();
    int nrem = 0, nins = 0, reins = 0;
    std::vector<int> seen(N, 0);
    for (int op : h) {
      if (op > N) ++nrem;
      else if (op > 0) { ++nins; if (seen[op - 1]++) ++reins; }
    }
    S.add("ev.states");
    S.add("histories.depth_" + std::to_string(h.size() - seed.size()));
    int nfin = 0;
    for (auto& x : want) {
      if (x.death < 0) { S.add("bars.open"); if (h[x.birth] > N) S.add("bars.open_born_by_removal"); continue; }
      ++nfin;
      bool bi = h[x.birth] <= N, di = h[x.death] <= N;
      S.add(bi ? (di ? "bars.finite.born_insert_died_insert" : "bars.finite.born_insert_died_removal")
               : (di ? "bars.finite.born_removal_died_insert" : "bars.finite.born_removal_died_removal"));
      S.add("bars.dim" + std::to_string(x.dim));
    }
    if (nrem > 0) S.add("histories.with_removal");
    if (reins > 0) S.add("histories.with_reinsertion");
    if (nrem > 0 && nfin > 0) S.add("ev.nontrivial");
    S.maxi("bars_per_history_max", (long long)want.size());
    if (h.size() >= 6 && S.samples.size() < 3 && nrem >= 2 && nfin >= 3 && reins >= 1)
      S.sample(U.name + ": " + chk.ops_text(h) + "=> " + ivs(want));

    if (oracle_only) { S.add("ev.incomplete"); return; }
    chk.run_plain(h, want);
    if (nrem == 0) chk.check_insertion_only(h, want);

    int n = (int)h.size(), rel = n - (int)seed.size();
    if (seed.empty() && rel <= full_values_depth) {
      // positions of the non-identity operations get every non-decreasing sequence over {0,1,2} (and its mirror image)
      std::vector<int> pos;
      for (int i = 0; i < n; ++i) if (h[i] != 0) pos.push_back(i);
      int m = (int)pos.size();
      // a non-decreasing sequence = (number of 0s, number of 1s): a <= b cut points
      for (int a = 0; a <= m; ++a)
        for (int b = a; b <= m; ++b) {
          std::vector<double> val(n, 0.0);
          double cur = 0;
          for (int j = 0; j < m; ++j) val[pos[j]] = j < a ? 0 : (j < b ? 1 : 2);
          for (int i = 0; i < n; ++i) { if (h[i] != 0) cur = val[i]; else val[i] = cur; }
          for (int dm : {-1, 0, 1, 2}) chk.run_storage(h, val, dm, want);
          chk.run_stream(h, val, want);
          S.add("value_sequences.non_decreasing");
          if (a == m || (a == 0 && b == m) || (a == 0 && b == 0)) continue;  // constant sequence: its mirror is the same kind
          std::vector<double> rev(n);
          for (int i = 0; i < n; ++i) rev[i] = 2 - val[i];
          chk.run_storage(h, rev, -1, want);
          chk.run_stream(h, rev, want);
          S.add("value_sequences.non_increasing");
        }
    } else if (rel <= filtered_depth) {
      std::vector<double> s1(n), s2(n), s3(n);
      for (int i = 0; i < n; ++i) { s1[i] = i; s2[i] = i / 2; s3[i] = -(i / 3); }
      chk.run_storage(h, s1, -1, want);
      chk.run_storage(h, s2, 1, want);
      chk.run_storage(h, s3, 2, want);
      chk.run_stream(h, s1, want);
      chk.run_stream(h, s2, want);
      chk.run_stream(h, s3, want);
    }
  }

  void dfs(int depth, int target, uint64_t K) {
    if (depth == std::min(target, prefix_depth)) {
      long long id = counter++;
      if (id % nshards != shard) return;
    }
    if (depth == target) { leaf(); return; }
    int nops = 2 * U.N() + 1;
    for (int op = 0; op < nops; ++op) {
      if (!chk.model.enabled(K, op)) continue;
      if (op != 0 && U.c[(op - 1) % U.N()].dim < min_op_dim) continue;
      uint64_t K2 = chk.model.apply(K, op);
      h.push_back(op);
      z.push(K2);
      dfs(depth + 1, target, K2);
      z.pop();
      h.pop_back();
    }
  }

  // iterative deepening: all histories of depth 0, then 1, ...: the first mismatch printed is a shortest one
  // depths are counted after the seed
  void run(int max_depth) {
    uint64_t K = 0;
    for (int op : seed) {
      if (op < 0 || op > 2 * U.N() || !chk.model.enabled(K, op)) { fprintf(stderr, "seed: operation %d not enabled\n", op); exit(2); }
      K = chk.model.apply(K, op);
      h.push_back(op);
      z.push(K);
    }
    for (int d = 0; d <= max_depth; ++d) {
      counter = 0;
      dfs(0, d, K);
      vf::stats().maxi("completed_depth." + U.name + (seed.empty() ? "" : ".seeded"), d);
    }
  }
};

int main(int argc, char** argv) {
  vf::Args a = vf::parse_args(argc, argv);
  vf::install_handlers();

  if (!a.replay.empty()) {
    if (a.replay.rfind("selftest", 0) == 0) { oracle_self_test(); vf::finish(); return 0; }
    auto kv = vf::parse_kv(a.replay);
    Universe U = make_universe(kv["u"]);
    std::vector<int> h = vf::parse_ints(kv["ops"]);
    Checker chk(U);
    refzz::RefZigzag z(Enum::to_cells(U));
    uint64_t K = 0;
    for (int op : h) {
      if (op < 0 || op > 2 * U.N() || !chk.model.enabled(K, op)) { fprintf(stderr, "replay: operation %d not enabled\n", op); return 2; }
      K = chk.model.apply(K, op);
      z.push(K);
    }
    std::vector<Interval> want = z.intervals();
    std::vector<double> val;
    {
      std::string cur;
      for (char ch : kv["vals"] + ",") {
        if (ch == ',') { if (!cur.empty()) val.push_back(atof(cur.c_str())); cur.clear(); }
        else cur += ch;
      }
    }
    std::string fe = kv["fe"];
    if (fe == "plain") {
      chk.run_plain(h, want);
      chk.check_insertion_only(h, want);
    } else if (fe == "storage") chk.run_storage(h, val, atoi(kv["dimmax"].c_str()), want);
    else if (fe == "stream") chk.run_stream(h, val, want);
    vf::finish();
    return 0;
  }

  if (!oracle_self_test()) return 0;  // no STATS line: the runner reports an engine error, never a verdict on GUDHI

  Universe U = make_universe(a.get("universe", "triangle"));
  Enum e(U);
  e.shard = a.shard;
  e.nshards = a.nshards;
  e.prefix_depth = (int)a.geti("prefix", 4);
  e.full_values_depth = (int)a.geti("valdepth", 0);
  e.filtered_depth = (int)a.geti("fedepth", 0);
  e.oracle_only = a.geti("oracle-only", 0) != 0;
  e.min_op_dim = (int)a.geti("min-op-dim", 0);
  {
    std::string sd = a.get("seed-ops", "");
    if (sd == "all") for (int c = 0; c < U.N(); ++c) e.seed.push_back(1 + c);  // every cell of the universe, by number
    else if (sd == "dim0" || sd == "dim01") {  // every vertex (dim0), resp. every vertex then every 1-cell (dim01), by number
      for (int d = 0; d <= (sd == "dim0" ? 0 : 1); ++d) for (int c = 0; c < U.N(); ++c) if (U.c[c].dim == d) e.seed.push_back(1 + c);
    }
    else if (sd == "allrev") {  // every cell, by dimension, cells of one dimension by decreasing number
      for (int d = 0; d <= 3; ++d) for (int c = U.N() - 1; c >= 0; --c) if (U.c[c].dim == d) e.seed.push_back(1 + c);
    }
    else e.seed = vf::parse_ints(sd);
  }
  e.run((int)a.geti("depth", 5));
  vf::stats().add(std::string("column_type.") + col_name());
  vf::finish();
  return 0;
}
