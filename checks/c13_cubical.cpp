// C13 - Cubical complexes are valid filtered cell complexes with correct incidences.
// E2 bounded-exhaustive input enumeration on the real Bitmap_cubical_complex (one base class per binary:
// -DC13_CLS=0 Bitmap_cubical_complex_base, -DC13_CLS=1 Bitmap_cubical_complex_periodic_boundary_conditions_base).
//
// part S ("--part S"): every grid shape / periodic mask / input convention of the scope; for every cell of the grid:
//   dimension, boundary and coboundary against the geometric incidence of RefCubical, coboundary == converse of boundary,
//   d.d == 0 over Z with the signs alternating along the enumeration, compute_incidence_between_cells == documented
//   formula and alternating along the boundary enumeration; then a fixed list of value patterns through part V's checks.
// part V ("--part V"): every value assignment of the scope (all weak orders / all words over a small alphabet, +inf
//   included) on small shapes: value of every cell == min over containing top cells (max over its vertices),
//   filtration_simplex_range is a faces-first non-decreasing permutation in the documented order,
//   Persistent_cohomology over Z_2 and Z_3 == textbook reduction of RefCubical, essential classes == Betti numbers of
//   the product of circles.
//
// Documented preconditions assumed: number of values == product of the dimensions; periodic sides have length >= 3
// (quantifier of the property); +inf is the only non-finite value (documented for missing cubes); no NaN.
#include <gudhi/Bitmap_cubical_complex.h>
#include <gudhi/Persistent_cohomology.h>

#include <cmath>
#include <limits>
#include <map>
#include <memory>
#include <set>
#include <stdexcept>
#include <tuple>

#include "harness.hpp"
#include "ref_complex.hpp"
#include "c13_ref_cubical.hpp"

#ifndef C13_CLS
#define C13_CLS 0
#endif
#if C13_CLS == 0
using BaseT = Gudhi::cubical_complex::Bitmap_cubical_complex_base<double>;
static const char* cls_name = "B";
constexpr bool PERIODIC_CLASS = false;
#else
using BaseT = Gudhi::cubical_complex::Bitmap_cubical_complex_periodic_boundary_conditions_base<double>;
static const char* cls_name = "P";
constexpr bool PERIODIC_CLASS = true;
#endif
using CC = Gudhi::cubical_complex::Bitmap_cubical_complex<BaseT>;
using PH = Gudhi::persistent_cohomology::Persistent_cohomology<CC, Gudhi::persistent_cohomology::Field_Zp>;

static const double INF = std::numeric_limits<double>::infinity();
static const int INF_CODE = 99;

struct Case {
  char conv = 'T';          // T: values of the top cells, V: values of the vertices
  std::vector<int> dims;    // as given to the constructor (top cells per direction, resp. vertices per direction)
  std::vector<int> mask;    // periodic directions
  std::vector<int> vals;    // small integers, INF_CODE = +inf
  bool do_struct = false;   // per-cell structural checks
  bool do_ph = true;        // persistence comparison
  std::vector<int> primes = {2, 3};
};

static std::string vals_str(const std::vector<int>& v) {
  std::string r;
  for (size_t i = 0; i < v.size(); ++i) {
    if (i) r += ",";
    r += (v[i] == INF_CODE) ? std::string("i") : std::to_string(v[i]);
  }
  return r;
}
static std::string case_str(const Case& c) {
  return std::string("cls=") + cls_name + ";conv=" + c.conv + ";dims=" + vf::join(c.dims) + ";mask=" + vf::join(c.mask) +
         ";do=" + (c.do_struct ? "S" : "") + "V" + (c.do_ph ? "P" : "") + ";primes=" + vf::join(c.primes) +
         ";vals=" + vals_str(c.vals);
}
static Case parse_case(const std::string& s) {
  auto kv = vf::parse_kv(s);
  Case c;
  c.conv = kv["conv"].empty() ? 'T' : kv["conv"][0];
  c.dims = vf::parse_ints(kv["dims"]);
  c.mask = vf::parse_ints(kv["mask"]);
  c.do_struct = kv["do"].find('S') != std::string::npos;
  c.do_ph = kv["do"].find('P') != std::string::npos;
  c.primes = vf::parse_ints(kv["primes"]);
  std::string cur;
  std::string vs = kv["vals"] + ",";
  for (char ch : vs) {
    if (ch == ',') { if (!cur.empty()) c.vals.push_back(cur == "i" ? INF_CODE : atoi(cur.c_str())); cur.clear(); }
    else cur += ch;
  }
  return c;
}

static std::vector<int> sizes_of(const Case& c) {  // number of top cells per direction
  std::vector<int> s = c.dims;
  if (c.conv == 'V') for (size_t i = 0; i < s.size(); ++i) if (!c.mask[i]) s[i] -= 1;
  return s;
}

static std::map<std::string, std::shared_ptr<rc::Grid>> g_grids;
static const rc::Grid& grid_for(const Case& c) {
  std::vector<int> s = sizes_of(c);
  std::string key = vf::join(s) + "|" + vf::join(c.mask);
  auto it = g_grids.find(key);
  if (it != g_grids.end()) return *it->second;
  if (g_grids.size() > 64) g_grids.clear();
  auto g = std::make_shared<rc::Grid>(s, c.mask);
  g_grids[key] = g;
  return *g;
}

struct Reporter {
  std::set<std::string> seen;
  void operator()(const std::string& cls, const std::string& detail) {
    if (seen.insert(cls).second) vf::mismatch(cls, detail);
  }
};

template <class V>
static std::string vstr(const V& v) { return "{" + vf::join(v) + "}"; }
static std::string dstr(double x) {
  if (x == INF) return "inf";
  if (x == -INF) return "-inf";
  std::ostringstream o;
  o << x;
  return o.str();
}

static long long binom(int n, int k) {
  if (k < 0 || k > n) return 0;
  long long r = 1;
  for (int i = 1; i <= k; ++i) r = r * (n - k + i) / i;
  return r;
}

// ---------------------------------------------------------------------------------------------------------------------
// structure: every cell of the grid
// ---------------------------------------------------------------------------------------------------------------------
static void check_structure(CC& cc, const rc::Grid& g, Reporter& rep) {
  vf::Stats& st = vf::stats();
  size_t N = g.N;
  std::vector<std::vector<size_t>> bd(N), cbd(N);
  std::vector<char> bd_ok(N, 1);
  long long comparisons = 0;
  for (size_t c = 0; c < N; ++c) {
    std::string where = " cell " + std::to_string(c) + "=" + g.cell_str(c);
    // dimension
    unsigned gd = cc.dimension(c);
    ++comparisons;
    if ((int)gd != g.dim[c]) rep("C13:dimension(cell)", "got " + std::to_string(gd) + " want " + std::to_string(g.dim[c]) + where);
    // boundary
    auto b = cc.boundary_simplex_range(c);
    bd[c].assign(b.begin(), b.end());
    std::vector<size_t> want;
    for (auto& f : g.faces[c]) want.push_back(f.first);
    std::sort(want.begin(), want.end());
    std::vector<size_t> got = bd[c];
    std::sort(got.begin(), got.end());
    ++comparisons;
    for (size_t x : got) if (x >= N) bd_ok[c] = 0;
    if (got != want) {
      bd_ok[c] = 0;
      rep(std::string("C13:boundary:geometric-incidence") + (g.wraps[c] ? ":wrap" : ""),
          "boundary_simplex_range got " + vstr(bd[c]) + " want (as a set) " + vstr(want) + where);
    }
    // coboundary
    auto cb = cc.get_coboundary_of_a_cell(c);
    cbd[c].assign(cb.begin(), cb.end());
    std::vector<size_t> gotc = cbd[c];
    std::sort(gotc.begin(), gotc.end());
    ++comparisons;
    if (gotc != g.cofaces[c])
      rep("C13:coboundary:geometric-incidence", "get_coboundary_of_a_cell got " + vstr(cbd[c]) + " want (as a set) " +
                                                    vstr(g.cofaces[c]) + where);
    st.add("cells.dim" + std::to_string(g.dim[c]));
    if (g.wraps[c]) st.add("cells.wrapping");
  }
  // coboundary is the converse of the boundary relation, from GUDHI's own two answers
  {
    std::vector<std::vector<size_t>> conv(N);
    bool usable = true;
    for (size_t a = 0; a < N; ++a) for (size_t b : bd[a]) { if (b < N) conv[b].push_back(a); else usable = false; }
    if (usable)
      for (size_t b = 0; b < N; ++b) {
        std::vector<size_t> x = conv[b], y = cbd[b];
        std::sort(x.begin(), x.end());
        std::sort(y.begin(), y.end());
        ++comparisons;
        if (x != y) rep("C13:coboundary:converse-of-boundary", "cells having " + std::to_string(b) + " in their boundary " + vstr(x) +
                                                                   " but get_coboundary_of_a_cell gives " + vstr(y) + " cell=" + g.cell_str(b));
      }
  }
  // d.d == 0 over Z, signs alternating along the enumeration
  for (size_t a = 0; a < N; ++a) {
    std::map<size_t, int> acc;
    bool usable = true;
    for (size_t k = 0; k < bd[a].size() && usable; ++k) {
      size_t b = bd[a][k];
      if (b >= N) { usable = false; break; }
      for (size_t l = 0; l < bd[b].size(); ++l) acc[bd[b][l]] += ((k % 2) ? -1 : 1) * ((l % 2) ? -1 : 1);
    }
    if (!usable) continue;
    ++comparisons;
    for (auto& kv : acc)
      if (kv.second != 0) {
        rep(std::string("C13:boundary:dd-nonzero:alternating-enumeration-signs") + (g.wraps[a] ? ":wrap" : ""),
            "coefficient " + std::to_string(kv.second) + " of cell " + std::to_string(kv.first) + " in d(d(" + std::to_string(a) +
                "=" + g.cell_str(a) + ")), boundary enumeration " + vstr(bd[a]));
        break;
      }
    if (g.dim[a] >= 2) st.add("dd.checked_cells");
  }
  // compute_incidence_between_cells: documented formula, and alternating along the enumerated boundary
  for (size_t a = 0; a < N; ++a) {
    if (!bd_ok[a]) continue;
    std::map<size_t, int> inc;
    bool ok = true;
    for (auto& f : g.faces[a]) {
      int got = 0;
      try {
        got = cc.compute_incidence_between_cells(a, f.first);
      } catch (const std::logic_error& e) {
        rep("C13:compute_incidence:throws-on-incident-pair", "coface " + std::to_string(a) + "=" + g.cell_str(a) + " face " +
                                                                 std::to_string(f.first) + "=" + g.cell_str(f.first));
        ok = false;
        continue;
      }
      ++comparisons;
      inc[f.first] = got;
      if (got != f.second)
        rep(std::string("C13:compute_incidence:documented-formula") + (g.wraps[a] ? ":wrap" : ""),
            "got " + std::to_string(got) + " want " + std::to_string(f.second) + " coface " + std::to_string(a) + "=" +
                g.cell_str(a) + " face " + std::to_string(f.first) + "=" + g.cell_str(f.first));
      st.add("incidence.pairs");
    }
    if (!ok) continue;
    for (size_t k = 0; k + 1 < bd[a].size(); ++k) {
      ++comparisons;
      if (inc[bd[a][k]] != -inc[bd[a][k + 1]]) {
        rep("C13:compute_incidence:not-alternating-along-boundary",
            "cell " + std::to_string(a) + "=" + g.cell_str(a) + " boundary " + vstr(bd[a]) + " incidences of elements " +
                std::to_string(k) + "," + std::to_string(k + 1) + " are " + std::to_string(inc[bd[a][k]]) + "," +
                std::to_string(inc[bd[a][k + 1]]));
        break;
      }
    }
  }
  st.add("ev.transitions", (long long)N * 3 + 0);
  st.add("ev.evaluations", comparisons);
}

// ---------------------------------------------------------------------------------------------------------------------
// values, filtration order, persistence
// ---------------------------------------------------------------------------------------------------------------------
using Bar = std::tuple<int, double, int, double>;  // (dim, birth value, essential?, death value)

static std::string bars_str(const std::vector<Bar>& v) {
  std::string r;
  for (auto& b : v) {
    r += "(" + std::to_string(std::get<0>(b)) + ":" + dstr(std::get<1>(b)) + "," +
         (std::get<2>(b) ? std::string("ess") : dstr(std::get<3>(b))) + ")";
    if (r.size() > 900) { r += "..."; break; }
  }
  return r;
}

static bool dropped(double b, double d, double minlen) {
  if (b != d) return false;
  return minlen >= 0 || std::isinf(b);  // inf - inf is not a length: never compared
}

static void check_values(CC& cc, const rc::Grid& g, const Case& c, Reporter& rep) {
  vf::Stats& st = vf::stats();
  size_t N = g.N;
  long long comparisons = 0;
  std::vector<double> in(c.vals.size());
  for (size_t i = 0; i < in.size(); ++i) in[i] = c.vals[i] == INF_CODE ? INF : (double)c.vals[i];
  // reference value of every cell
  std::vector<double> want(N);
  for (size_t x = 0; x < N; ++x) {
    if (c.conv == 'T') {
      double m = INF;
      for (size_t t : g.tops[x]) m = std::min(m, in[t]);
      want[x] = m;
    } else {
      double m = -INF;
      for (size_t v : g.verts[x]) m = std::max(m, in[v]);
      want[x] = m;
    }
  }
  bool values_ok = true;
  for (size_t x = 0; x < N; ++x) {
    double got = cc.filtration(x);
    ++comparisons;
    if (!(got == want[x])) {
      values_ok = false;
      const char* kind = (c.conv == 'T') ? (g.dim[x] == g.d ? "C13:filtration:top-cell-input-order" : "C13:filtration:min-over-top-cells")
                                         : (g.dim[x] == 0 ? "C13:filtration:vertex-input-order" : "C13:filtration:max-over-vertices");
      rep(kind, "filtration(" + std::to_string(x) + "=" + g.cell_str(x) + ") got " + dstr(got) + " want " + dstr(want[x]));
    }
  }
  long long infcells = 0;
  for (size_t x = 0; x < N; ++x) if (want[x] == INF) ++infcells;
  if (infcells) st.add("cases.with_inf_cells");
  if (infcells == (long long)N) st.add("cases.all_cells_inf");

  // filtration order
  std::vector<size_t> order;
  {
    auto const& r = cc.filtration_simplex_range();
    order.assign(r.begin(), r.end());
  }
  bool order_ok = true;
  {
    std::vector<long long> pos(N, -1);
    bool perm = order.size() == N;
    for (size_t k = 0; k < order.size() && perm; ++k) {
      if (order[k] >= N || pos[order[k]] >= 0) perm = false;
      else pos[order[k]] = (long long)k;
    }
    ++comparisons;
    if (!perm) {
      order_ok = false;
      rep("C13:filtration_order:not-a-permutation", "filtration_simplex_range = " + vstr(order));
    } else {
      bool ties = false;
      for (size_t k = 0; k + 1 < N; ++k) {
        double a = cc.filtration(order[k]), b = cc.filtration(order[k + 1]);
        ++comparisons;
        if (a == b) ties = true;
        if (a > b) {
          order_ok = false;
          rep("C13:filtration_order:decreasing", "positions " + std::to_string(k) + "," + std::to_string(k + 1) + " cells " +
                                                     std::to_string(order[k]) + "," + std::to_string(order[k + 1]) + " values " + dstr(a) + "," + dstr(b));
          break;
        }
      }
      if (ties) st.add("cases.order_with_ties");
      for (size_t x = 0; x < N && order_ok; ++x)
        for (auto& f : g.faces[x]) {
          ++comparisons;
          if (pos[f.first] > pos[x]) {
            order_ok = false;
            rep("C13:filtration_order:coface-before-face", "cell " + std::to_string(x) + "=" + g.cell_str(x) + " at position " +
                                                               std::to_string(pos[x]) + " before its face " + std::to_string(f.first) +
                                                               " at position " + std::to_string(pos[f.first]));
            break;
          }
        }
      // documented order: value, then dimension, then position in the bitmap
      if (values_ok) {
        std::vector<size_t> ref(N);
        for (size_t x = 0; x < N; ++x) ref[x] = x;
        std::stable_sort(ref.begin(), ref.end(), [&](size_t a, size_t b) {
          if (want[a] != want[b]) return want[a] < want[b];
          return g.dim[a] < g.dim[b];
        });
        ++comparisons;
        if (ref != order) {
          size_t k = 0;
          while (k < N && ref[k] == order[k]) ++k;
          rep("C13:filtration_order:documented-tiebreak", "first difference at position " + std::to_string(k) + ": got cell " +
                                                              std::to_string(order[k]) + " want " + std::to_string(ref[k]));
        }
      }
    }
  }

  // persistence
  if (c.do_ph && values_ok && order_ok) {
    // oracle filtration: by value, then dimension, then index (any faces-first refinement gives the same value diagram)
    std::vector<size_t> ord(N), posn(N);
    for (size_t x = 0; x < N; ++x) ord[x] = x;
    std::stable_sort(ord.begin(), ord.end(), [&](size_t a, size_t b) {
      if (want[a] != want[b]) return want[a] < want[b];
      return g.dim[a] < g.dim[b];
    });
    for (size_t k = 0; k < N; ++k) posn[ord[k]] = k;
    std::vector<ref::Cell> cells(N);
    for (size_t k = 0; k < N; ++k) {
      cells[k].dim = g.dim[ord[k]];
      for (auto& f : g.faces[ord[k]]) cells[k].bd.push_back({(int)posn[f.first], f.second});
    }
    int nper = 0;
    for (int m : c.mask) nper += m;
    std::map<int, std::vector<Bar>> first_full;
    for (size_t pi = 0; pi < c.primes.size(); ++pi) {
      int p = c.primes[pi];
      std::vector<ref::Pair> rp = ref::persistence(cells, p);
      // (persistence_dim_max, min_interval_length) configurations
      struct Cfg { bool dim_max; double minlen; };
      std::vector<Cfg> cfgs = {{true, -1.0}};
      if (pi == 0) { cfgs.push_back({true, 0.0}); cfgs.push_back({false, 0.0}); }
      for (auto& cfg : cfgs) {
        std::vector<Bar> wantb;
        std::vector<long long> ess(g.d + 2, 0);
        for (auto& q : rp) {
          if (!cfg.dim_max && q.dim >= g.d) continue;
          double b = want[ord[q.birth]];
          if (q.death < 0) { wantb.push_back(Bar{q.dim, b, 1, 0.0}); ess[q.dim]++; continue; }
          double dd = want[ord[q.death]];
          if (dropped(b, dd, cfg.minlen)) continue;
          wantb.push_back(Bar{q.dim, b, 0, dd});
        }
        std::sort(wantb.begin(), wantb.end());
        PH pcoh(cc, cfg.dim_max);
        pcoh.init_coefficients(p);
        pcoh.compute_persistent_cohomology(cfg.minlen);
        std::vector<Bar> gotb;
        std::vector<long long> gess(g.d + 2, 0);
        bool bad_handle = false;
        for (auto& pr : pcoh.get_persistent_pairs()) {
          size_t bs = std::get<0>(pr), ds = std::get<1>(pr);
          if (bs >= N || (ds >= N && ds != CC::null_simplex())) { bad_handle = true; continue; }
          int dm = (int)cc.dimension(bs);
          double b = cc.filtration(bs);
          if (ds == CC::null_simplex()) { gotb.push_back(Bar{dm, b, 1, 0.0}); if (dm < g.d + 2) gess[dm]++; continue; }
          double dd = cc.filtration(ds);
          if (dropped(b, dd, cfg.minlen)) continue;
          gotb.push_back(Bar{dm, b, 0, dd});
        }
        std::sort(gotb.begin(), gotb.end());
        ++comparisons;
        st.add("ph.runs");
        std::string cfgname = std::string(cfg.dim_max ? "dimmax" : "nodimmax") + (cfg.minlen < 0 ? ":all-lengths" : ":positive-lengths");
        if (bad_handle) rep("C13:persistence:invalid-handle", "Z" + std::to_string(p) + " " + cfgname);
        if (gotb != wantb)
          rep("C13:persistence:intervals:Z" + std::to_string(p) + ":" + cfgname,
              "got " + bars_str(gotb) + " want " + bars_str(wantb));
        // Betti numbers of (circle)^nper x contractible
        if (cfg.dim_max) {
          for (int k = 0; k <= g.d; ++k) {
            ++comparisons;
            if (gess[k] != binom(nper, k)) {
              rep(std::string("C13:persistence:betti:") + (nper ? "periodic-grid" : "contractible-grid"),
                  "Z" + std::to_string(p) + " essential classes in dimension " + std::to_string(k) + ": got " + std::to_string(gess[k]) +
                      " want " + std::to_string(binom(nper, k)) + " (" + std::to_string(nper) + " periodic directions)");
              break;
            }
          }
        }
        if (cfg.dim_max && cfg.minlen < 0) {
          first_full[p] = gotb;
          long long zl = 0, fin = 0;
          for (auto& b : gotb) if (!std::get<2>(b)) { ++fin; if (std::get<1>(b) == std::get<3>(b)) ++zl; }
          st.add("ph.finite_pairs", fin);
          st.add("ph.zero_length_pairs", zl);
          st.add("ph.essential", (long long)gotb.size() - fin);
          for (auto& b : gotb) if (!std::get<2>(b) && std::get<1>(b) != std::get<3>(b)) st.add("ph.positive_pairs.dim" + std::to_string(std::get<0>(b)));
        }
      }
    }
    if (first_full.size() >= 2 && first_full.begin()->second != first_full.rbegin()->second) st.add("ph.cases_differing_between_fields");
    if (nper) st.add("ph.cases_periodic");
    if (nper == g.d) st.add("ph.cases_torus");
    st.add("ph.cases");
  }
  st.add("ev.transitions", (long long)N + 1);
  st.add("ev.evaluations", comparisons);
}

// ---------------------------------------------------------------------------------------------------------------------
static std::unique_ptr<CC> build(const Case& c) {
  std::vector<unsigned> dims(c.dims.begin(), c.dims.end());
  std::vector<double> cells(c.vals.size());
  for (size_t i = 0; i < cells.size(); ++i) cells[i] = c.vals[i] == INF_CODE ? INF : (double)c.vals[i];
#if C13_CLS == 0
  return std::make_unique<CC>(dims, cells, c.conv == 'T');
#else
  std::vector<bool> per(c.mask.begin(), c.mask.end());
  return std::make_unique<CC>(dims, cells, per, c.conv == 'T');
#endif
}

static void run_case(const Case& c) {
  vf::Stats& st = vf::stats();
  const rc::Grid& g = grid_for(c);  // oracle first (not under the per-case watchdog of the library call)
  std::string cs = case_str(c);
  vf::set_case(cs);
  Reporter rep;
  {
    std::unique_ptr<CC> cc = build(c);
    bool shape_ok = true;
    if (cc->num_simplices() != g.N) {
      rep("C13:num_simplices", "got " + std::to_string(cc->num_simplices()) + " want " + std::to_string(g.N));
      shape_ok = false;
    }
    if ((int)cc->dimension() != g.d) rep("C13:dimension()", "got " + std::to_string(cc->dimension()) + " want " + std::to_string(g.d));
    if (shape_ok) {
      if (c.do_struct) check_structure(*cc, g, rep);
      check_values(*cc, g, c, rep);
    }
  }
  vf::end_case();
  st.add("ev.traces");
  st.add("ev.states");
  std::set<int> distinct(c.vals.begin(), c.vals.end());
  bool nontrivial = g.N >= 5 && (c.do_struct || distinct.size() >= 2);
  if (nontrivial) st.add("ev.nontrivial");
  st.add(std::string("cases.conv") + c.conv);
  st.add("cases.dim" + std::to_string(g.d));
  int nper = 0;
  for (int m : c.mask) nper += m;
  st.add("cases.periodic_dirs" + std::to_string(nper));
  if (c.do_struct) st.add("cases.structure");
  for (int x : g.s) if (x == 0) { st.add("cases.with_single_vertex_direction"); break; }
  for (int x : g.s) if (x == 1) { st.add("cases.with_length1_side"); break; }
  st.maxi("max.cells", (long long)g.N);
  st.maxi("max.inputs", (long long)c.vals.size());
  {
    long long t = st.c["ev.traces"];
    if (t == 3 || t == 40 || t == 500 || t == 3000 || t == 20000 || t == 90000) st.sample(cs);
  }
}

// ---------------------------------------------------------------------------------------------------------------------
// enumeration
// ---------------------------------------------------------------------------------------------------------------------
struct Enumerator {
  int shard = 0, nshards = 1;
  long long counter = 0;
  void emit(const Case& c) {
    if (counter++ % nshards == shard) run_case(c);
  }
};

// all vectors in {1..L}^d
static std::vector<std::vector<int>> all_dims(int d, int L) {
  std::vector<std::vector<int>> r;
  std::vector<int> v(d, 1);
  for (;;) {
    r.push_back(v);
    int i = 0;
    for (; i < d; ++i) { if (++v[i] <= L) break; v[i] = 1; }
    if (i == d) break;
  }
  return r;
}
// dims vectors with 1 <= product <= maxprod
static std::vector<std::vector<int>> dims_with_product(int d, int minprod, int maxprod) {
  std::vector<std::vector<int>> r;
  for (auto& v : all_dims(d, maxprod)) {
    long long p = 1;
    for (int x : v) p *= x;
    if (p >= minprod && p <= maxprod) r.push_back(v);
  }
  return r;
}
// periodic masks: subsets of the directions of length >= 3 (only the zero mask for the non-periodic class)
static std::vector<std::vector<int>> masks_for(const std::vector<int>& dims) {
  std::vector<std::vector<int>> r;
  int d = (int)dims.size();
  for (unsigned m = 0; m < (1u << d); ++m) {
    std::vector<int> mk(d, 0);
    bool ok = true;
    for (int i = 0; i < d; ++i) {
      mk[i] = (m >> i) & 1;
      if (mk[i] && dims[i] < 3) ok = false;
    }
    if (!ok) continue;
    if (!PERIODIC_CLASS && m != 0) continue;
    r.push_back(mk);
  }
  return r;
}
static size_t prod(const std::vector<int>& v) {
  size_t p = 1;
  for (int x : v) p *= (size_t)x;
  return p;
}

// value patterns for the structure part (n inputs)
static std::vector<std::vector<int>> patterns(size_t n, bool thorough) {
  std::vector<std::vector<int>> r;
  auto gcd = [](size_t a, size_t b) { while (b) { size_t t = a % b; a = b; b = t; } return a; };
  size_t stride = 7;
  while (gcd(stride, n) != 1) ++stride;
  std::vector<int> v(n);
  for (size_t k = 0; k < n; ++k) v[k] = (int)((k * stride + 3) % n);  // all distinct, scrambled
  r.push_back(v);
  for (size_t k = 0; k < n; ++k) v[k] = (int)((k * 5 + 1) % 3);       // many ties
  r.push_back(v);
  for (size_t k = 0; k < n; ++k) v[k] = (k % 4 == 2) ? INF_CODE : (int)((k * 3) % 4);  // ties and +inf
  r.push_back(v);
  if (thorough) {
    for (size_t k = 0; k < n; ++k) v[k] = (int)k;                      // ascending
    r.push_back(v);
    for (size_t k = 0; k < n; ++k) v[k] = (int)(n - 1 - k);            // descending
    r.push_back(v);
    for (size_t k = 0; k < n; ++k) v[k] = (k + 1 == n) ? 0 : 1;        // one low input at the far corner
    r.push_back(v);
    for (size_t k = 0; k < n; ++k) v[k] = (k == 0) ? INF_CODE : 0;     // one missing input at the origin
    r.push_back(v);
  }
  std::vector<std::vector<int>> u;
  for (auto& x : r) {
    bool zero = true;
    for (int y : x) if (y) zero = false;
    if (!zero && std::find(u.begin(), u.end(), x) == u.end()) u.push_back(x);
  }
  return u;
}

static void part_S(Enumerator& en, const vf::Args& a) {
  bool th = a.thorough();
  long ph_cap = a.geti("phcap", th ? 1300 : 260);
  int dmax = (int)a.geti("dmax", th ? 5 : 4);
  for (int d = 1; d <= dmax; ++d) {
    int L;
    if (d <= 3) L = th ? 5 : 4;
    else if (d == 4) L = th ? 4 : 3;
    else L = 2;
    if (d == 1) L = th ? 9 : 7;
    for (char conv : {'T', 'V'}) {
      for (auto& dims : all_dims(d, L)) {
        for (auto& mk : masks_for(dims)) {
          Case c;
          c.conv = conv;
          c.dims = dims;
          c.mask = mk;
          c.do_struct = true;
          c.vals.assign(prod(dims), 0);
          size_t N = 1;
          {
            std::vector<int> s = sizes_of(c);
            for (size_t i = 0; i < s.size(); ++i) N *= (size_t)(mk[i] ? 2 * s[i] : 2 * s[i] + 1);
          }
          c.do_ph = (long)N <= ph_cap;
          if (th) c.primes = {2, 3, 5};
          en.emit(c);
          c.do_struct = false;
          c.primes = {2, 3};
          for (auto& pat : patterns(c.vals.size(), th)) {
            c.vals = pat;
            en.emit(c);
          }
        }
      }
    }
  }
}

// every weak order of n inputs: words over {0..n-1} whose set of letters is an initial segment
template <class F>
static void for_weak_orders(size_t n, F&& f) {
  std::vector<int> v(n, 0);
  for (;;) {
    unsigned used = 0;
    for (int x : v) used |= 1u << x;
    if ((used & (used + 1)) == 0) f(v);
    size_t i = 0;
    for (; i < n; ++i) { if (++v[i] < (int)n) break; v[i] = 0; }
    if (i == n) break;
  }
}
template <class F>
static void for_words(size_t n, const std::vector<int>& alphabet, F&& f) {
  std::vector<size_t> k(n, 0);
  std::vector<int> v(n);
  for (;;) {
    for (size_t i = 0; i < n; ++i) v[i] = alphabet[k[i]];
    f(v);
    size_t i = 0;
    for (; i < n; ++i) { if (++k[i] < alphabet.size()) break; k[i] = 0; }
    if (i == n) break;
  }
}

static bool g_profile = false;
static void series(Enumerator& en, char conv, const std::vector<int>& dims, const std::string& kind) {
  for (auto& mk : masks_for(dims)) {
    Case c;
    c.conv = conv;
    c.dims = dims;
    c.mask = mk;
    size_t n = prod(dims);
    auto go = [&](const std::vector<int>& v) { c.vals = v; en.emit(c); };
    // words without +inf are order-isomorphic to a case of the weak / bin / tern series: not repeated
    auto go_inf = [&](const std::vector<int>& v) {
      if (std::find(v.begin(), v.end(), INF_CODE) == v.end()) return;
      go(v);
    };
    if (kind == "weak") for_weak_orders(n, go);
    else if (kind == "bin") for_words(n, {0, 1}, go);
    else if (kind == "tern") for_words(n, {0, 1, 2}, go);
    else if (kind == "inf3") for_words(n, {0, 1, INF_CODE}, go_inf);
    else if (kind == "inf2") for_words(n, {0, INF_CODE}, go_inf);
    vf::stats().add("series." + kind);
  }
  if (g_profile) {  // stderr only, never reaches the oracle or the counters
    static double last = vf::now_s();
    static long long lastc = 0;
    double now = vf::now_s();
    fprintf(stderr, "profile %s %c %s cases=%lld s=%.1f\n", kind.c_str(), conv, vf::join(dims).c_str(), en.counter - lastc, now - last);
    last = now;
    lastc = en.counter;
  }
}

static void part_V(Enumerator& en, const vf::Args& a) {
  bool th = a.thorough();
  std::string sel = a.get("series", "all");
  auto want = [&](const char* s) { return sel == "all" || sel == s; };
  for (char conv : {'T', 'V'}) {
    // every weak order of the inputs
    if (want("weak")) {
      for (int d = 1; d <= 4; ++d) {
        int maxn;
        if (th) maxn = (d <= 2) ? 7 : (d == 3 ? 6 : 5);
        else maxn = (d <= 2) ? 6 : (d == 3 ? 5 : 4);
        for (auto& dims : dims_with_product(d, 1, maxn)) series(en, conv, dims, "weak");
      }
    }
    // +inf mixed with two finite levels
    if (want("inf")) {
      for (int d = 1; d <= 4; ++d) {
        int maxn = th ? (d <= 3 ? 8 : 6) : (d <= 2 ? 6 : 4);
        for (auto& dims : dims_with_product(d, 1, maxn)) series(en, conv, dims, "inf3");
      }
      for (auto& dims : std::vector<std::vector<int>>{{3, 3}, {2, 2, 2}}) series(en, conv, dims, "inf2");
    }
    // two / three levels on bigger shapes
    if (want("levels")) {
      std::vector<std::vector<int>> bin_shapes = {{3, 3}, {1, 3, 3}, {3, 1, 3}, {9}, {1, 2, 2, 2}};
      std::vector<std::vector<int>> tern_shapes = {{2, 4}, {4, 2}, {7}, {2, 2, 2}};
      if (th) {
        bin_shapes = {{3, 4}, {4, 3}, {2, 6}, {2, 2, 3}, {3, 2, 2}, {2, 3, 2}, {3, 1, 3}, {3, 3, 1}, {12}, {2, 2, 2, 1}, {3, 1, 1, 3}, {1, 1, 3, 3}, {1, 3, 4}};
        tern_shapes = {{3, 3}, {2, 4}, {4, 2}, {2, 5}, {5, 2}, {9}, {2, 2, 2}, {1, 3, 3}, {1, 2, 2, 2}, {2, 1, 2, 2}};
      }
      for (auto& dims : bin_shapes) series(en, conv, dims, "bin");
      for (auto& dims : tern_shapes) series(en, conv, dims, "tern");
    }
  }
}

int main(int argc, char** argv) {
  vf::Args a = vf::parse_args(argc, argv);
  vf::install_handlers();
  vf::g_case_timeout = 60;
  if (!a.replay.empty()) {
    Case c = parse_case(a.replay);
    bool ok = c.dims.size() == c.mask.size() && prod(c.dims) == c.vals.size() && !c.dims.empty();
    for (size_t i = 0; ok && i < c.dims.size(); ++i) {
      if (c.mask[i] && !PERIODIC_CLASS) ok = false;
      if (c.mask[i] && c.dims[i] < 3) ok = false;
      if (c.dims[i] < 1) ok = false;
    }
    if (!ok) { fprintf(stderr, "malformed or out-of-scope replay case\n"); vf::finish(); return 2; }
    run_case(c);
    vf::finish();
    return 0;
  }
  Enumerator en;
  en.shard = a.shard;
  en.nshards = a.nshards;
  g_profile = a.geti("profile", 0) != 0;
  std::string part = a.get("part", "S");
  if (part == "S") part_S(en, a);
  else part_V(en, a);
  vf::stats().add("ev.incomplete", 0);
  vf::finish();
  return 0;
}
