// C02 - Persistent cohomology returns the true persistence pairs for every field.
// E2: bounded-exhaustive enumeration of filtered complexes; oracle = column reduction over Z_p (ref::persistence).
#include "st_common.hpp"

#include <gudhi/Hasse_complex.h>
#include <gudhi/Persistent_cohomology.h>
#include <gudhi/Persistent_cohomology/Field_Zp.h>
#include <gudhi/Persistent_cohomology/Multi_field.h>

#include <functional>

using namespace stc;
using ST = Gudhi::Simplex_tree<Opt>;
using Gudhi::persistent_cohomology::Field_Zp;
using Gudhi::persistent_cohomology::Multi_field;
static const double INF = std::numeric_limits<double>::infinity();

struct Bar {
  int dim;
  double b, d;
  bool operator<(const Bar& o) const { return std::tie(dim, b, d) < std::tie(o.dim, o.b, o.d); }
  bool operator==(const Bar& o) const { return dim == o.dim && b == o.b && d == o.d; }
};
static std::string bars_str(const std::vector<Bar>& v) {
  std::ostringstream o;
  for (auto& b : v) o << "(" << b.dim << "," << b.b << "," << b.d << ")";
  return o.str();
}

// expected bars from the oracle's index pairs
static std::vector<Bar> expected(const std::vector<ref::Pair>& pairs, const std::vector<double>& val, double minlen,
                                 bool dimmax, int cpxdim) {
  std::vector<Bar> r;
  int dim_max = cpxdim + (dimmax ? 1 : 0);
  if (dim_max <= 0) return r;  // documented: classes of top dimension are not computed unless asked for
  for (auto& p : pairs) {
    if (p.dim >= dim_max) continue;
    if (p.death < 0) r.push_back({p.dim, val[p.birth], INF});
    else if (val[p.death] - val[p.birth] > minlen) r.push_back({p.dim, val[p.birth], val[p.death]});
  }
  std::sort(r.begin(), r.end());
  return r;
}

static std::vector<int> g_primes;
static std::vector<std::pair<int, int>> g_ranges;
static std::vector<double> g_minlens = {-1, 0, 1, 2};
static std::map<int, std::vector<int>> g_primes_in;

static bool is_prime(int n) {
  if (n < 2) return false;
  for (int i = 2; i * i <= n; ++i) if (n % i == 0) return false;
  return true;
}

// Runs the real engine on `cpx` for every field / option combination and compares with the oracle.
// cells/val describe the filtration order the complex exposes (cells[i] = i-th simplex of filtration_simplex_range).
template <class Cpx>
void check_engine(Cpx& cpx, const std::vector<ref::Cell>& cells, const std::vector<double>& val, int cpxdim,
                  const std::string& kind, bool big_prime) {
  using namespace Gudhi::persistent_cohomology;
  std::vector<double> qs(val);
  std::sort(qs.begin(), qs.end());
  qs.erase(std::unique(qs.begin(), qs.end()), qs.end());
  std::vector<int> primes = g_primes;
  if (big_prime) primes.push_back(46337);
  std::map<int, std::vector<ref::Pair>> oracle;
  for (int p : primes) oracle[p] = ref::persistence(cells, p);
  for (auto& r : g_ranges) for (int q : g_primes_in[r.first * 100000 + r.second]) if (!oracle.count(q)) oracle[q] = ref::persistence(cells, q);
  {  // non-vacuity: do the fields disagree on this complex ?
    bool differ = false;
    for (auto& kv : oracle) if (!(kv.second == oracle.begin()->second)) differ = true;
    if (differ) vf::stats().add("nv.fields_disagree(torsion)");
    int fin = 0, zero_len = 0;
    for (auto& p : oracle.begin()->second) if (p.death >= 0) { fin++; if (val[p.death] == val[p.birth]) zero_len++; }
    if (fin) vf::stats().add("nv.has_finite_pairs");
    if (zero_len) vf::stats().add("nv.has_zero_length_pairs");
  }
  auto bad = [&](const std::string& obs, const std::string& d) { vf::mismatch("C02:" + kind + ":" + obs, d); };
  for (int p : primes) {
    for (double ml : g_minlens) {
      for (int dm = 0; dm < 2; ++dm) {
        Persistent_cohomology<Cpx, Field_Zp> pc(cpx, dm != 0);
        pc.init_coefficients(p);
        pc.compute_persistent_cohomology((typename Cpx::Filtration_value)ml);
        std::vector<Bar> got;
        bool charac_ok = true;
        for (auto& pr : pc.get_persistent_pairs()) {
          double b = (double)cpx.filtration(std::get<0>(pr));
          double d = std::get<1>(pr) == cpx.null_simplex() ? INF : (double)cpx.filtration(std::get<1>(pr));
          got.push_back({cpx.dimension(std::get<0>(pr)), b, d});
          if (std::get<2>(pr) != p) charac_ok = false;
          if (std::get<1>(pr) != cpx.null_simplex() &&
              cpx.dimension(std::get<1>(pr)) != cpx.dimension(std::get<0>(pr)) + 1)
            bad("pair-dimensions", "death simplex is not one dimension above the birth simplex");
        }
        std::sort(got.begin(), got.end());
        std::vector<Bar> want = expected(oracle[p], val, ml, dm != 0, cpxdim);
        std::string ctx = "p=" + std::to_string(p) + " minlen=" + std::to_string(ml) + " dimmax=" + std::to_string(dm);
        vf::stats().add("ev.transitions");
        if (got != want) { bad("pairs", ctx + " got " + bars_str(got) + " want " + bars_str(want)); continue; }
        if (!charac_ok) bad("pairs.characteristic", ctx);
        // derived read interfaces, recomputed from the expected pairs
        int dim_max = cpxdim + dm;
        std::vector<int> wb(std::max(dim_max, 0), 0);
        for (auto& b : want) if (b.d == INF) wb[b.dim]++;
        if (pc.betti_numbers() != wb) bad("betti_numbers", ctx + " got " + vf::join(pc.betti_numbers()) + " want " + vf::join(wb));
        for (int d = 0; d <= cpxdim + 1; ++d) {
          int w = d < (int)wb.size() ? wb[d] : 0;
          if (pc.betti_number(d) != w) bad("betti_number", ctx + " d=" + std::to_string(d));
          std::vector<std::pair<double, double>> gi, wi;
          for (auto& x : pc.intervals_in_dimension(d)) gi.push_back({(double)x.first, (double)x.second});
          for (auto& b : want) if (b.dim == d) wi.push_back({b.b, b.d});
          std::sort(gi.begin(), gi.end());
          std::sort(wi.begin(), wi.end());
          if (gi != wi) bad("intervals_in_dimension", ctx + " d=" + std::to_string(d));
        }
        std::vector<double> probes = qs;
        probes.push_back(qs.empty() ? 0 : qs.back() + 1);
        probes.push_back(qs.empty() ? -1 : qs.front() - 1);
        for (double from : probes) for (double to : probes) {
          std::vector<int> w(std::max(dim_max, 0), 0);
          for (auto& b : want) if (b.b <= from && b.d > to) w[b.dim]++;
          using FV = typename Cpx::Filtration_value;
          if (pc.persistent_betti_numbers((FV)from, (FV)to) != w)
            bad("persistent_betti_numbers", ctx + " from=" + std::to_string(from) + " to=" + std::to_string(to));
          for (int d = 0; d < (int)w.size(); ++d)
            if (pc.persistent_betti_number(d, (FV)from, (FV)to) != w[d])
              bad("persistent_betti_number", ctx + " d=" + std::to_string(d));
        }
        {
          std::ostringstream os;
          pc.output_diagram(os);
          std::istringstream is(os.str());
          std::vector<Bar> parsed;
          std::string line;
          bool ok = true;
          while (std::getline(is, line)) {
            std::istringstream ls(line);
            long ch; int dim; std::string sb, sd;
            if (!(ls >> ch >> dim >> sb >> sd)) { ok = false; break; }
            if (ch != p) ok = false;
            parsed.push_back({dim, atof(sb.c_str()), sd == "inf" ? INF : atof(sd.c_str())});
          }
          std::sort(parsed.begin(), parsed.end());
          if (!ok || parsed != want) bad("output_diagram", ctx + " text=" + os.str());
        }
      }
    }
  }
  // multi-field: for each prime q of the range the intervals whose product q divides are the Z_q diagram
  for (auto& r : g_ranges) {
    for (double ml : {-1.0, 0.0}) {
      for (int dm = 0; dm < 2; ++dm) {
        Persistent_cohomology<Cpx, Multi_field> pc(cpx, dm != 0);
        pc.init_coefficients(r.first, r.second);
        pc.compute_persistent_cohomology((typename Cpx::Filtration_value)ml);
        vf::stats().add("ev.transitions");
        for (int q : g_primes_in[r.first * 100000 + r.second]) {
          std::vector<Bar> got;
          for (auto& pr : pc.get_persistent_pairs()) {
            mpz_class prod = std::get<2>(pr);
            if (prod % q != 0) continue;
            double b = (double)cpx.filtration(std::get<0>(pr));
            double d = std::get<1>(pr) == cpx.null_simplex() ? INF : (double)cpx.filtration(std::get<1>(pr));
            got.push_back({cpx.dimension(std::get<0>(pr)), b, d});
          }
          std::sort(got.begin(), got.end());
          std::vector<Bar> want = expected(oracle[q], val, ml, dm != 0, cpxdim);
          if (got != want)
            bad("multifield.pairs", "range=[" + std::to_string(r.first) + "," + std::to_string(r.second) + "] q=" +
                                        std::to_string(q) + " minlen=" + std::to_string(ml) + " dimmax=" +
                                        std::to_string(dm) + " got " + bars_str(got) + " want " + bars_str(want));
        }
        // every product is a product of distinct primes of the range
        mpz_class all = 1;
        for (int q : g_primes_in[r.first * 100000 + r.second]) all *= q;
        for (auto& pr : pc.get_persistent_pairs()) {
          mpz_class prod = std::get<2>(pr);
          if (prod <= 1 || all % prod != 0) bad("multifield.product", "product " + prod.get_str() + " not a sub-product of the range");
        }
      }
    }
  }
}

// ---------------------------------------------------------------------------------------------------------------
// (a)/(b) filtered simplicial complexes
// ---------------------------------------------------------------------------------------------------------------
static void enumerate_filtered_complexes(int nverts, const std::vector<double>& F, bool contiguous_only,
                                         const std::function<void(const ref::Complex&)>& cb) {
  std::vector<int> labels;
  for (int i = 0; i < nverts; ++i) labels.push_back(i);
  std::vector<Simplex> uni = ref::nonempty_subsets(labels);
  std::sort(uni.begin(), uni.end(), [](const Simplex& a, const Simplex& b) {
    return a.size() != b.size() ? a.size() < b.size() : a < b;
  });
  ref::Complex m;
  std::function<void(size_t)> rec = [&](size_t i) {
    if (i == uni.size()) {
      if (contiguous_only) {
        auto v = m.vertices();
        for (size_t k = 0; k < v.size(); ++k) if (v[k] != (int)k) return;
      }
      cb(m);
      return;
    }
    rec(i + 1);  // absent
    const Simplex& s = uni[i];
    if (!m.facets_present(s)) return;
    double lo = s.size() > 1 ? m.max_facet_filt(s) : -INF;
    for (double f : F) {
      if (f < lo) continue;
      m.s[s] = f;
      rec(i + 1);
    }
    m.s.erase(s);
  };
  rec(0);
}

static std::string model_case(const ref::Complex& m) { return std::string("opt=") + opt_name + ";model=" + m.key(); }

static ref::Complex parse_model(const std::string& key) {
  ref::Complex m;
  size_t i = 0;
  while (i < key.size()) {
    size_t j = key.find(';', i);
    if (j == std::string::npos) break;
    std::string item = key.substr(i, j - i);
    size_t c = item.find(':');
    Simplex s;
    std::string vs = item.substr(0, c);
    size_t a = 0;
    while (a < vs.size()) {
      size_t b = vs.find('.', a);
      if (b == std::string::npos) break;
      s.push_back(atoi(vs.substr(a, b - a).c_str()));
      a = b + 1;
    }
    m.s[s] = atof(item.substr(c + 1).c_str());
    i = j + 1;
  }
  return m;
}

static void run_simplicial(const ref::Complex& m, bool via_hasse, bool big_prime) {
  ST st;
  build_from_model(st, m);
  // the order the complex exposes
  std::vector<Simplex> order;
  std::vector<double> val;
  for (auto sh : st.filtration_simplex_range()) {
    order.push_back(simplex_of(st, sh));
    val.push_back((double)st.filtration(sh));
  }
  // it must be a valid filtration order of the model (decided in depth by C03; here a guard for the oracle)
  {
    std::set<Simplex> seen;
    bool ok = order.size() == m.s.size();
    double last = -INF;
    for (size_t i = 0; ok && i < order.size(); ++i) {
      for (auto& f : ref::facets_of(order[i])) if (!seen.count(f)) ok = false;
      if (val[i] < last || !m.has(order[i]) || m.filt(order[i]) != val[i]) ok = false;
      last = val[i];
      seen.insert(order[i]);
    }
    if (!ok) { vf::mismatch("C02:exposed-order-invalid", "model=" + m.key()); return; }
  }
  std::vector<ref::Cell> cells = ref::cells_of(order);
  vf::stats().add("ev.traces");
  if (!via_hasse) {
    check_engine(st, cells, val, m.dimension(), "simplex_tree", big_prime);
  } else {
    int k = 0;
    for (auto sh : st.filtration_simplex_range()) st.assign_key(sh, k++);
    Gudhi::Hasse_complex<> h(st);
    check_engine(h, cells, val, m.dimension(), "hasse_from_tree", big_prime);
  }
}

// ---------------------------------------------------------------------------------------------------------------
// (c) small Delta-complex-like Hasse complexes (loops, repeated faces, torsion)
// ---------------------------------------------------------------------------------------------------------------
struct Delta {
  int nv;
  std::vector<std::pair<int, int>> edges;        // (a,b) vertex indices
  std::vector<std::array<int, 3>> tris;          // edge indices (e0,e1,e2): boundary e0 - e1 + e2
  std::vector<int> order;                        // permutation of the cells: ids 0..nv-1 vertices, then edges, then tris
  int pattern;                                   // value pattern: 0 distinct, 1 all equal, 2 pairs
};
static std::string delta_case(const Delta& d) {
  std::ostringstream o;
  o << "delta=" << d.nv << "|";
  for (auto& e : d.edges) o << e.first << "-" << e.second << ",";
  o << "|";
  for (auto& t : d.tris) o << t[0] << "." << t[1] << "." << t[2] << ",";
  o << "|" << vf::join(d.order) << "|" << d.pattern;
  return o.str();
}
static Delta parse_delta(const std::string& s) {
  Delta d;
  std::vector<std::string> parts;
  size_t i = 0;
  std::string body = s.substr(s.find('=') + 1);
  while (true) {
    size_t j = body.find('|', i);
    parts.push_back(body.substr(i, j == std::string::npos ? std::string::npos : j - i));
    if (j == std::string::npos) break;
    i = j + 1;
  }
  d.nv = atoi(parts[0].c_str());
  for (auto& tok : std::vector<std::string>()) (void)tok;
  {
    std::string t = parts[1];
    size_t a = 0;
    while (a < t.size()) {
      size_t b = t.find(',', a);
      std::string e = t.substr(a, b - a);
      int x, y;
      sscanf(e.c_str(), "%d-%d", &x, &y);
      d.edges.push_back({x, y});
      a = b + 1;
    }
  }
  {
    std::string t = parts[2];
    size_t a = 0;
    while (a < t.size()) {
      size_t b = t.find(',', a);
      std::string e = t.substr(a, b - a);
      int x, y, z;
      sscanf(e.c_str(), "%d.%d.%d", &x, &y, &z);
      d.tris.push_back({x, y, z});
      a = b + 1;
    }
  }
  d.order = vf::parse_ints(parts[3]);
  d.pattern = atoi(parts[4].c_str());
  return d;
}

static void run_delta(const Delta& d) {
  int ne = (int)d.edges.size(), nt = (int)d.tris.size();
  int n = d.nv + ne + nt;
  std::vector<int> pos(n);
  for (int i = 0; i < n; ++i) pos[d.order[i]] = i;
  Gudhi::Hasse_complex<> h;
  std::vector<ref::Cell> cells(n);
  std::vector<double> val(n);
  int cdim = 0;
  for (int i = 0; i < n; ++i) {
    int id = d.order[i];
    double f = d.pattern == 0 ? i : d.pattern == 1 ? 0 : i / 2;
    val[i] = f;
    std::vector<int> bd;
    if (id < d.nv) {
      cells[i].dim = 0;
    } else if (id < d.nv + ne) {
      auto& e = d.edges[id - d.nv];
      bd = {pos[e.first], pos[e.second]};
      cells[i].dim = 1;
      cells[i].bd = {{pos[e.first], 1}, {pos[e.second], -1}};
    } else {
      auto& t = d.tris[id - d.nv - ne];
      bd = {pos[d.nv + t[0]], pos[d.nv + t[1]], pos[d.nv + t[2]]};
      cells[i].dim = 2;
      cells[i].bd = {{bd[0], 1}, {bd[1], -1}, {bd[2], 1}};
    }
    cdim = std::max(cdim, cells[i].dim);
    h.complex_.emplace_back(i, f, bd);
    if (bd.empty()) h.vertices_.push_back(i);
  }
  h.dim_max_ = cdim;
  h.num_vertices_ = d.nv;
  vf::stats().add("ev.traces");
  check_engine(h, cells, val, cdim, "hasse_delta", false);
}

static void enumerate_deltas(int max_v, int max_e, int max_t, const std::function<void(const Delta&)>& cb) {
  for (int nv = 1; nv <= max_v; ++nv) {
    // edge multisets: non-decreasing sequences of ordered pairs (a,b)
    std::vector<std::pair<int, int>> ep;
    for (int a = 0; a < nv; ++a) for (int b = 0; b < nv; ++b) ep.push_back({a, b});
    for (int ne = 0; ne <= max_e; ++ne) {
      std::vector<int> ei(ne, 0);
      for (;;) {
        bool nondecr = true;
        for (int i = 1; i < ne; ++i) if (ei[i] < ei[i - 1]) nondecr = false;
        if (nondecr) {
          Delta d;
          d.nv = nv;
          for (int i = 0; i < ne; ++i) d.edges.push_back(ep[ei[i]]);
          // valid triangles: ordered edge triples whose boundary e0-e1+e2 is a cycle
          std::vector<std::array<int, 3>> tp;
          for (int x = 0; x < ne; ++x) for (int y = 0; y < ne; ++y) for (int z = 0; z < ne; ++z) {
            std::vector<int> c(nv, 0);
            auto add = [&](int e, int s) { c[d.edges[e].first] += s; c[d.edges[e].second] -= s; };
            add(x, 1); add(y, -1); add(z, 1);
            bool zero = true;
            for (int v : c) if (v) zero = false;
            if (zero) tp.push_back({x, y, z});
          }
          for (int nt = 0; nt <= max_t; ++nt) {
            std::vector<int> ti(nt, 0);
            if (nt > 0 && tp.empty()) break;
            for (;;) {
              bool nd = true;
              for (int i = 1; i < nt; ++i) if (ti[i] < ti[i - 1]) nd = false;
              if (nd) {
                d.tris.clear();
                for (int i = 0; i < nt; ++i) d.tris.push_back(tp[ti[i]]);
                // all linear extensions (faces first)
                int n = nv + ne + nt;
                std::vector<int> perm(n);
                for (int i = 0; i < n; ++i) perm[i] = i;
                do {
                  std::vector<int> pos(n);
                  for (int i = 0; i < n; ++i) pos[perm[i]] = i;
                  bool ok = true;
                  for (int e = 0; e < ne && ok; ++e)
                    if (pos[d.edges[e].first] > pos[nv + e] || pos[d.edges[e].second] > pos[nv + e]) ok = false;
                  for (int t = 0; t < nt && ok; ++t)
                    for (int k = 0; k < 3; ++k) if (pos[nv + d.tris[t][k]] > pos[nv + ne + t]) ok = false;
                  if (!ok) continue;
                  d.order = perm;
                  for (int pat = 0; pat < 3; ++pat) { d.pattern = pat; cb(d); }
                } while (std::next_permutation(perm.begin(), perm.end()));
              }
              int i = 0;
              while (i < nt && ++ti[i] >= (int)tp.size()) { ti[i] = 0; ++i; }
              if (i == nt) break;
            }
          }
        }
        int i = 0;
        while (i < ne && ++ei[i] >= (int)ep.size()) { ei[i] = 0; ++i; }
        if (i == ne) break;
      }
    }
  }
}

// ---------------------------------------------------------------------------------------------------------------
// (d) triangulated surfaces with torsion under lower-star filtrations
// ---------------------------------------------------------------------------------------------------------------
static std::vector<Simplex> surface(const std::string& name) {
  if (name == "rp2")
    return {{0,1,2},{0,2,3},{0,3,4},{0,4,5},{0,1,5},{1,2,4},{1,3,4},{1,3,5},{2,3,5},{2,4,5}};
  if (name == "torus7") {  // Moebius' 7-vertex torus: {i,i+1,i+3}, {i,i+2,i+3} mod 7
    std::vector<Simplex> t;
    for (int i = 0; i < 7; ++i) {
      t.push_back(ref::norm({i, (i + 1) % 7, (i + 3) % 7}));
      t.push_back(ref::norm({i, (i + 2) % 7, (i + 3) % 7}));
    }
    return t;
  }
  return {};
}
static void run_surface(const std::string& name, const std::vector<int>& vval, bool big_prime) {
  ref::Complex m;
  for (auto& t : surface(name)) {
    for (auto& f : ref::nonempty_subsets(t)) {
      double v = 0;
      for (int x : f) v = std::max(v, (double)vval[x]);
      m.s[f] = v;
    }
  }
  run_simplicial(m, false, big_prime);
}

int main(int argc, char** argv) {
  vf::Args a = vf::parse_args(argc, argv);
  vf::install_handlers();
  std::string part = a.get("part", "simplicial");
  bool th = a.thorough();
  for (int p : vf::parse_ints(a.get("primes", th ? "2,3,5,7,11" : "2,3"))) g_primes.push_back(p);
  {
    std::vector<int> r = vf::parse_ints(a.get("ranges", th ? "2,3,2,5,2,7,3,7,5,5,2,13" : "2,3,3,7"));
    for (size_t i = 0; i + 1 < r.size(); i += 2) {
      g_ranges.push_back({r[i], r[i + 1]});
      for (int q = r[i]; q <= r[i + 1]; ++q) if (is_prime(q)) g_primes_in[r[i] * 100000 + r[i + 1]].push_back(q);
    }
  }
  vf::g_case_timeout = 120;
  long idx = 0;
  auto mine = [&]() { return (idx++ % a.nshards) == a.shard; };

  if (!a.replay.empty()) {
    auto kv = vf::parse_kv(a.replay);
    vf::set_case(a.replay);
    if (kv.count("model")) {
      // the model key itself contains ';' - take everything after "model="
      std::string key = a.replay.substr(a.replay.find("model=") + 6);
      run_simplicial(parse_model(key), part == "hasse", false);
    } else if (kv.count("delta")) {
      run_delta(parse_delta(a.replay.substr(a.replay.find("delta="))));
    } else if (kv.count("surface")) {
      run_surface(kv["surface"], vf::parse_ints(kv["vval"]), false);
    }
    vf::finish();
    return 0;
  }

  if (part == "simplicial" || part == "hasse") {
    int nv = (int)a.geti("nverts", 3);
    std::vector<double> F;
    for (int x : vf::parse_ints(a.get("F", "0,1,2,3"))) F.push_back(x);
    long n = 0;
    enumerate_filtered_complexes(nv, F, Opt::contiguous_vertices, [&](const ref::Complex& m) {
      if (!mine()) return;
      vf::set_case(model_case(m));
      bool big = th && (n % 20000 == 7);
      run_simplicial(m, part == "hasse", big);
      vf::end_case();
      n++;
      if (m.dimension() >= 1) vf::stats().add("ev.nontrivial");
      if (n % 9973 == 1) vf::stats().sample(model_case(m));
    });
    vf::stats().add("ev.states", n);
  } else if (part == "forest") {
    // (e) the dimension-0 union-find shortcut: every sequence of <= maxe distinct edges forming a forest on nverts
    // labelled vertices, the edges entering one at a time in that order; vertices either all tied at 0 (birth order =
    // label order) or born in decreasing label order. Merges of components of rank >= 2 need >= 6 vertices, which the
    // 4-vertex scopes above never reach.
    int nv = (int)a.geti("nverts", 6), maxe = (int)a.geti("maxe", 5);
    g_minlens = {-1, 0};  // all bars of a forest have length >= 1: larger thresholds add nothing here
    std::vector<std::pair<int, int>> E;
    for (int i = 0; i < nv; ++i) for (int j = i + 1; j < nv; ++j) E.push_back({i, j});
    long n = 0;
    std::vector<int> seq;
    std::function<void()> rec = [&]() {
      for (int desc = 0; desc < 2 && !seq.empty(); ++desc) {
        if (!mine()) continue;
        ref::Complex m;
        for (int v = 0; v < nv; ++v) m.s[Simplex{v}] = desc ? nv - 1 - v : 0;
        for (size_t k = 0; k < seq.size(); ++k) m.s[Simplex{E[seq[k]].first, E[seq[k]].second}] = nv + (double)k;
        vf::set_case(model_case(m));
        run_simplicial(m, false, false);
        vf::end_case();
        n++;
        vf::stats().add("ev.nontrivial");
        if (n % 9973 == 1) vf::stats().sample(model_case(m));
      }
      if ((int)seq.size() == maxe) return;
      for (int e = 0; e < (int)E.size(); ++e) {
        if (std::find(seq.begin(), seq.end(), e) != seq.end()) continue;
        // forest test: the new edge must join two different components of the edges chosen so far
        std::vector<int> comp(nv);
        for (int v = 0; v < nv; ++v) comp[v] = v;
        for (int x : seq) {
          int ca = comp[E[x].first], cb = comp[E[x].second];
          for (int v = 0; v < nv; ++v) if (comp[v] == cb) comp[v] = ca;
        }
        if (comp[E[e].first] == comp[E[e].second]) continue;
        seq.push_back(e);
        rec();
        seq.pop_back();
      }
    };
    rec();
    vf::stats().add("ev.states", n);
  } else if (part == "delta") {
    long n = 0;
    enumerate_deltas((int)a.geti("maxv", 2), (int)a.geti("maxe", 3), (int)a.geti("maxt", th ? 2 : 1), [&](const Delta& d) {
      if (!mine()) return;
      vf::set_case(std::string("opt=") + opt_name + ";" + delta_case(d));
      run_delta(d);
      vf::end_case();
      n++;
      if (!d.tris.empty()) vf::stats().add("ev.nontrivial");
      if (n % 9973 == 1) vf::stats().sample(delta_case(d));
    });
    vf::stats().add("ev.states", n);
  } else if (part == "surfaces") {
    long n = 0;
    for (std::string name : {"rp2", "torus7"}) {
      int nvs = name == "rp2" ? 6 : 7;
      // every assignment of vertex values in {0..k-1}^nv (ties) and every permutation (distinct values) for rp2
      int k = (int)a.geti("k", th ? 3 : 2);
      std::vector<int> vv(nvs, 0);
      for (;;) {
        if (mine()) {
          vf::set_case(std::string("opt=") + opt_name + ";surface=" + name + ";vval=" + vf::join(vv));
          run_surface(name, vv, false);
          vf::end_case();
          n++;
          vf::stats().add("ev.nontrivial");
        }
        int i = 0;
        while (i < nvs && ++vv[i] >= k) { vv[i] = 0; ++i; }
        if (i == nvs) break;
      }
      if (name == "rp2" || th) {
        std::vector<int> perm(nvs);
        for (int i = 0; i < nvs; ++i) perm[i] = i;
        do {
          if (!mine()) continue;
          vf::set_case(std::string("opt=") + opt_name + ";surface=" + name + ";vval=" + vf::join(perm));
          run_surface(name, perm, n % 500 == 3 && th);
          vf::end_case();
          n++;
          vf::stats().add("ev.nontrivial");
          if (n % 501 == 1) vf::stats().sample(std::string("surface=") + name + ";vval=" + vf::join(perm));
        } while (std::next_permutation(perm.begin(), perm.end()));
      }
    }
    vf::stats().add("ev.states", n);
  }
  vf::stats().add("ev.evaluations", vf::stats().c["ev.transitions"]);
  vf::finish();
  return 0;
}
