// C17 - Skeleton-blocker complexes track the abstract complex through edits and contractions.
// E1 explicit-state exploration of the real Skeleton_blocker_complex<Skeleton_blocker_simple_traits>.
//
// Universe: vertex handles 0..nmax-1 (handles are contiguous and never reused, so a history creates at most nmax
// vertices).  A state of the reference model is (number of created handles, active set, set of simplices); this is
// finite, so the reachable canonical-state set closes and the statement then covers every finite history over the
// universe.
//
// Reference model (no GUDHI code): a simplex is a bit mask of vertices, the complex is a 64-bit set of masks.
//   add_vertex                      K + {N}
//   add_edge(a,b)                   K + {ab}                                          (documented: no triangle appears)
//   add_edge_without_blockers(a,b)  K + {s >= ab : s\a in K and s\b in K}            (documented: triangles appear)
//   add_simplex(s)                  K + all faces of s (missing vertex handles up to max(s) are created)
//   add_blocker(s)                  K - star(s)   (only generated when s becomes a genuine minimal non-face)
//   remove_star(v | ab | s)         K - {t : t >= s}
//   contract_edge(a,b)              {f(t) : t in K}, f(b)=a   (only generated when the MODEL finds Lk(ab)=Lk(a)^Lk(b))
//   blockers                        minimal non-faces of dimension >= 2 (not in K, every facet in K)
//
// Divergence: a history after which implementation and model differ is reported once and not extended.  Exception: when
// the divergence is exactly the recorded star-removal finding (footprint recognised from the observation), the history
// is reported and the exploration continues from the MODEL state on an object rebuilt from it (re-synchronisation), so
// states that are only reachable through such a removal stay covered.
#include "harness.hpp"
#include "explorer.hpp"
#include "ref_complex.hpp"

#include <gudhi/Skeleton_blocker/Skeleton_blocker_simple_traits.h>
#include <gudhi/Skeleton_blocker_complex.h>

#include <iostream>
#include <memory>

using Traits = Gudhi::skeleton_blocker::Skeleton_blocker_simple_traits;
using SB = Gudhi::skeleton_blocker::Skeleton_blocker_complex<Traits>;
using VH = SB::Vertex_handle;
using Sx = SB::Simplex;
typedef unsigned Mask;

static inline int pc(Mask m) { return __builtin_popcount(m); }
static inline int hi(Mask m) { return 31 - __builtin_clz(m); }  // m != 0
static std::string mstr(Mask m) {
  std::string s = "{";
  bool f = true;
  for (int i = 0; i < 8; ++i) if (m >> i & 1) { if (!f) s += ","; s += char('0' + i); f = false; }
  return s + "}";
}
static std::string mlist(const std::vector<Mask>& v) {
  std::string s;
  for (Mask m : v) s += mstr(m);
  return s.empty() ? "-" : s;
}
static const Sx& to_sx(Mask m) {  // table of the simplex objects (built once)
  static std::vector<Sx> table;
  if (table.empty()) {
    table.resize(256);
    for (Mask t = 0; t < 256; ++t) for (int i = 0; i < 8; ++i) if (t >> i & 1) table[t].add_vertex(VH(i));
  }
  return table[m];
}
static Mask to_mask(const Sx& s) {
  Mask m = 0;
  for (auto v : s) m |= 1u << v.vertex;
  return m;
}
static bool by_dim(Mask a, Mask b) { return pc(a) != pc(b) ? pc(a) < pc(b) : a < b; }

// ---------------------------------------------------------------------------------------------------------------------
// reference model
// ---------------------------------------------------------------------------------------------------------------------
struct Model {
  int N = 0;         // handles 0..N-1 have been created
  Mask active = 0;   // handles whose vertex is in the complex
  uint64_t K = 0;    // bit m set <=> simplex with vertex mask m is in the complex

  bool has(Mask m) const { return m != 0 && m < 64 && (K >> m & 1); }
  void put(Mask m) { K |= 1ull << m; }
  void add_vertex() { active |= 1u << N; put(1u << N); ++N; }
  void insert_faces(Mask s) {
    for (Mask t = s; t; t = (t - 1) & s) put(t);
  }
  void remove_star(Mask s) {
    for (Mask t = 1; t < 64; ++t) if ((t & s) == s) K &= ~(1ull << t);
    if (pc(s) == 1) active &= ~s;
  }
  void add_edge_flag(Mask a, Mask b) {  // a, b single-vertex masks
    if (has(a | b)) return;
    uint64_t add = 0;
    for (Mask t = 1; t < 64; ++t)
      if ((t & (a | b)) == (a | b) && (t & ~active) == 0 && has(t & ~a) && has(t & ~b)) add |= 1ull << t;
    K |= add;
  }
  void contract(Mask a, Mask b) {  // b is merged into a
    uint64_t r = 0;
    for (Mask t = 1; t < 64; ++t)
      if (has(t)) r |= 1ull << ((t & b) ? ((t & ~b) | a) : t);
    K = r;
    active &= ~b;
  }
  std::vector<Mask> simplices() const {
    std::vector<Mask> v;
    for (Mask t = 1; t < 64; ++t) if (has(t)) v.push_back(t);
    std::sort(v.begin(), v.end(), by_dim);
    return v;
  }
  bool facets_in(Mask t) const {
    for (int i = 0; i < 6; ++i) if ((t >> i & 1) && !has(t & ~(1u << i))) return false;
    return true;
  }
  std::vector<Mask> blockers() const {  // minimal non-faces of dimension >= 2
    std::vector<Mask> v;
    for (Mask t = 1; t < 64; ++t) if (pc(t) >= 3 && !has(t) && facets_in(t)) v.push_back(t);
    std::sort(v.begin(), v.end(), by_dim);
    return v;
  }
  uint64_t link(Mask s) const {
    uint64_t r = 0;
    for (Mask t = 1; t < 64; ++t) if ((t & s) == 0 && has(t | s)) r |= 1ull << t;
    return r;
  }
  bool link_condition(Mask a, Mask b) const { return link(a | b) == (link(a) & link(b)); }
  int components() const {
    int comp[6];
    for (int i = 0; i < 6; ++i) comp[i] = i;
    for (bool ch = true; ch;) {
      ch = false;
      for (int i = 0; i < 6; ++i) for (int j = i + 1; j < 6; ++j)
        if (has((1u << i) | (1u << j)) && comp[i] != comp[j]) { comp[i] = comp[j] = std::min(comp[i], comp[j]); ch = true; }
    }
    int n = 0;
    for (int i = 0; i < 6; ++i) if ((active >> i & 1) && comp[i] == i) ++n;
    return n;
  }
  int num_edges() const { int n = 0; for (Mask t = 1; t < 64; ++t) if (pc(t) == 2 && has(t)) ++n; return n; }
  std::string key() const {
    char b[64];
    snprintf(b, sizeof b, "N%d a%x K%llx", N, active, (unsigned long long)K);
    return b;
  }
  std::string text() const { return "N=" + std::to_string(N) + " simplices=" + mlist(simplices()); }
};

// Betti numbers over Z_p and Euler characteristic of a list of simplices (textbook column reduction, ref_complex.hpp)
static std::vector<int> betti(const std::vector<Mask>& sorted_by_dim, int p) {
  std::vector<ref::Simplex> order;
  for (Mask m : sorted_by_dim) {
    ref::Simplex s;
    for (int i = 0; i < 8; ++i) if (m >> i & 1) s.push_back(i);
    order.push_back(s);
  }
  std::vector<int> b(6, 0);
  if (order.empty()) return b;
  auto pairs = ref::persistence(ref::cells_of(order), p);
  for (auto& pr : pairs) if (pr.death < 0) b[pr.dim]++;
  return b;
}
static int euler(const std::vector<Mask>& v) {
  int e = 0;
  for (Mask m : v) e += (pc(m) % 2) ? 1 : -1;
  return e;
}

// all complexes whose vertex set is exactly {0..n-1}, by dimension
static void gen_complexes(int n, int size, uint64_t K, std::vector<uint64_t>& out) {
  std::vector<Mask> cand;
  Model m;
  m.K = K;
  for (Mask t = 1; t < (1u << n); ++t) if (pc(t) == size && m.facets_in(t)) cand.push_back(t);
  if (cand.empty()) { out.push_back(K); return; }
  for (unsigned sub = 0; sub < (1u << cand.size()); ++sub) {
    uint64_t K2 = K;
    for (size_t i = 0; i < cand.size(); ++i) if (sub >> i & 1) K2 |= 1ull << cand[i];
    if (sub == 0) out.push_back(K2);
    else gen_complexes(n, size + 1, K2, out);
  }
}

// ---------------------------------------------------------------------------------------------------------------------
// alphabet
// ---------------------------------------------------------------------------------------------------------------------
enum Kind { INIT_N, CTOR_LIST, CTOR_LIST_REV, ADD_VERTEX, ADD_EDGE, ADD_EDGE_WB, ADD_SIMPLEX, ADD_BLOCKER, RS_VERTEX,
            RS_EDGE, RS_SIMPLEX, CONTRACT, ADD_EDGE_REV, RS_EDGE_HANDLE, NKINDS };
static const char* kind_name[] = {"construct_n_vertices", "construct_from_simplices", "construct_from_simplices_reversed",
                                  "add_vertex", "add_edge", "add_edge_without_blockers", "add_simplex", "add_blocker",
                                  "remove_star_vertex", "remove_star_edge", "remove_star_simplex", "contract_edge",
                                  "add_edge_swapped_args", "remove_star_edge_handle"};
struct Op {
  Kind k;
  Mask s = 0;     // simplex argument
  int a = -1, b = -1;
  int n = 0;      // INIT_N
  uint64_t K = 0; // CTOR_LIST
};

static bool g_report = true;      // false: silent re-execution (used to decide whether a history has diverged)
static bool g_inconsistent = false;
// Every observer is compared at every state.  Per executed history the FIRST disagreeing observer (fixed order:
// return values, contains, blocker_range, num_blockers, contains_blocker, complex_simplex_range, num_simplices,
// num_connected_components, num_vertices, num_edges, link_condition, Betti/Euler) names the mismatch class; further
// disagreements at the same state are consequences of the same divergence and are only counted.
#define mm(cls, detail)                                                              \
  do {                                                                               \
    if (g_report) {                                                                  \
      if (!g_inconsistent) vf::mismatch((cls), (detail));                            \
      else vf::stats().add("secondary_disagreements_at_an_already_reported_state");  \
    }                                                                                \
    g_inconsistent = true;                                                           \
  } while (0)

struct Driver {
  int nmax = 4, nctor = 4, variants = 0;
  std::vector<Op> ops;
  size_t first_regular = 0;

  void init(int nmax_, int nctor_, int variants_) {
    nmax = std::min(nmax_, 6);  // the reference complex is a 64-bit set of vertex masks
    nctor = std::min(nctor_, nmax); variants = variants_;
    // constructors (first operation only)
    for (int n = 1; n <= nmax; ++n) { Op o{INIT_N}; o.n = n; ops.push_back(o); }
    for (int n = 1; n <= nctor; ++n) {
      uint64_t K0 = 0;
      for (int i = 0; i < n; ++i) K0 |= 1ull << (1u << i);
      std::vector<uint64_t> all;
      gen_complexes(n, 2, K0, all);
      for (uint64_t K : all) { Op o{CTOR_LIST}; o.n = n; o.K = K; ops.push_back(o); }
      if (variants) for (uint64_t K : all) { Op o{CTOR_LIST_REV}; o.n = n; o.K = K; ops.push_back(o); }
    }
    first_regular = ops.size();
    ops.push_back(Op{ADD_VERTEX});
    for (int a = 0; a < nmax; ++a) for (int b = a + 1; b < nmax; ++b) { Op o{ADD_EDGE}; o.a = a; o.b = b; ops.push_back(o); }
    for (int a = 0; a < nmax; ++a) for (int b = a + 1; b < nmax; ++b) { Op o{ADD_EDGE_WB}; o.a = a; o.b = b; ops.push_back(o); }
    std::vector<Mask> big;
    for (Mask t = 1; t < (1u << nmax); ++t) if (pc(t) >= 3) big.push_back(t);
    std::sort(big.begin(), big.end(), by_dim);
    for (Mask t : big) { Op o{ADD_SIMPLEX}; o.s = t; ops.push_back(o); }
    for (Mask t : big) { Op o{ADD_BLOCKER}; o.s = t; ops.push_back(o); }
    for (int a = 0; a < nmax; ++a) { Op o{RS_VERTEX}; o.a = a; o.s = 1u << a; ops.push_back(o); }
    for (int a = 0; a < nmax; ++a) for (int b = a + 1; b < nmax; ++b) { Op o{RS_EDGE}; o.a = a; o.b = b; o.s = (1u << a) | (1u << b); ops.push_back(o); }
    for (Mask t : big) { Op o{RS_SIMPLEX}; o.s = t; ops.push_back(o); }
    for (int a = 0; a < nmax; ++a) for (int b = 0; b < nmax; ++b) if (a != b) { Op o{CONTRACT}; o.a = a; o.b = b; ops.push_back(o); }
    if (variants) {
      for (int a = 0; a < nmax; ++a) for (int b = a + 1; b < nmax; ++b) { Op o{ADD_EDGE_REV}; o.a = b; o.b = a; ops.push_back(o); }
      for (Mask t = 1; t < (1u << nmax); ++t) if (pc(t) <= 2) { Op o{RS_SIMPLEX}; o.s = t; ops.push_back(o); }
      for (int a = 0; a < nmax; ++a) for (int b = a + 1; b < nmax; ++b) { Op o{RS_EDGE_HANDLE}; o.a = a; o.b = b; o.s = (1u << a) | (1u << b); ops.push_back(o); }
    }
  }

  // ---- model ----
  static bool is_blocker(const Model& m, Mask s) { return pc(s) >= 3 && !m.has(s) && m.facets_in(s); }
  bool is_enabled(const Model& m, const Op& o, bool first) const {
    Mask A = o.a >= 0 ? 1u << o.a : 0, B = o.b >= 0 ? 1u << o.b : 0;
    switch (o.k) {
      case INIT_N: case CTOR_LIST: case CTOR_LIST_REV: return first;
      case ADD_VERTEX: return m.N < nmax;
      // documented precondition (assert): both vertices belong to the complex
      case ADD_EDGE: case ADD_EDGE_WB: case ADD_EDGE_REV: return (m.active & A) && (m.active & B);
      case ADD_SIMPLEX: {
        // documented preconditions: not contained, dimension > 1.  A removed vertex cannot come back (handles are
        // never reused), so simplices through a removed handle are not generated; handles not created yet are
        // created by add_simplex itself ("Some vertices were not present in the complex, adding them").
        if (m.has(o.s)) return false;
        Mask created = (1u << m.N) - 1;
        if (o.s & created & ~m.active) return false;
        return true;
      }
      case ADD_BLOCKER: {
        // only calls that leave the blocker set equal to the set of minimal non-faces: s is a simplex that no
        // blocker strictly contains (then s becomes a minimal non-face), or s already is a blocker (documented no-op)
        if (o.s & ~m.active) return false;
        if (is_blocker(m, o.s)) return true;
        if (!m.has(o.s)) return false;
        for (Mask t : m.blockers()) if ((t & o.s) == o.s) return false;
        return true;
      }
      case RS_VERTEX: return (m.active & A) != 0;
      case RS_EDGE: case RS_EDGE_HANDLE: case RS_SIMPLEX: return m.has(o.s);
      case CONTRACT: return m.has(A | B) && m.link_condition(A, B);
      default: return false;
    }
  }
  void apply_model(Model& m, const Op& o) const {
    Mask A = o.a >= 0 ? 1u << o.a : 0, B = o.b >= 0 ? 1u << o.b : 0;
    switch (o.k) {
      case INIT_N: for (int i = 0; i < o.n; ++i) m.add_vertex(); break;
      case CTOR_LIST: case CTOR_LIST_REV: m.N = o.n; m.active = (1u << o.n) - 1; m.K = o.K; break;
      case ADD_VERTEX: m.add_vertex(); break;
      case ADD_EDGE: case ADD_EDGE_REV: m.put(A | B); break;
      case ADD_EDGE_WB: m.add_edge_flag(A, B); break;
      case ADD_SIMPLEX: while (m.N <= hi(o.s)) m.add_vertex(); m.insert_faces(o.s); break;
      case ADD_BLOCKER: case RS_VERTEX: case RS_EDGE: case RS_EDGE_HANDLE: case RS_SIMPLEX: m.remove_star(o.s); break;
      case CONTRACT: m.contract(A, B); break;
      default: break;
    }
  }
  Model model_after(const std::vector<int>& hist) const {
    Model m;
    for (int c : hist) apply_model(m, ops[c]);
    return m;
  }

  std::string op_text(const Op& o) const {
    std::ostringstream t;
    t << kind_name[o.k];
    if (o.k == INIT_N) t << "(" << o.n << ")";
    else if (o.k == CTOR_LIST || o.k == CTOR_LIST_REV) { Model m; m.K = o.K; t << "[" << mlist(m.simplices()) << "]"; }
    else if (o.k == ADD_VERTEX) t << "()";
    else if (o.s && o.k != RS_VERTEX && o.k != RS_EDGE && o.k != RS_EDGE_HANDLE) t << mstr(o.s);
    else t << "(" << o.a << (o.b >= 0 ? "," + std::to_string(o.b) : "") << ")";
    return t.str();
  }
  std::string describe(const std::vector<int>& hist) const {
    std::ostringstream o;
    o << "nmax=" << nmax << ";nctor=" << nctor << ";variants=" << variants << ";ops=" << vf::join(hist) << ";text=";
    for (int c : hist) o << op_text(ops[c]) << " ";
    return o.str();
  }

  // ---- implementation ----
  static std::vector<Mask> impl_simplices_by_contains(const SB& c, int nn) {
    std::vector<Mask> v;
    for (Mask t = 1; t < (1u << nn); ++t) if (c.contains(to_sx(t))) v.push_back(t);
    std::sort(v.begin(), v.end(), by_dim);
    return v;
  }
  static std::vector<Mask> impl_blockers(const SB& c) {
    std::vector<Mask> v;
    for (auto b : c.const_blocker_range()) v.push_back(to_mask(*b));
    std::sort(v.begin(), v.end(), by_dim);
    return v;
  }
  static std::string impl_key(const SB& c) {
    std::ostringstream o;
    int nb = (int)boost::num_vertices(c.skeleton);
    o << "n" << nb << "a";
    for (int i = 0; i < nb; ++i) o << (c.skeleton[i].is_active() ? 1 : 0);
    o << "e";
    for (int i = 0; i < nb; ++i) for (int j = i + 1; j < nb; ++j) if (boost::edge(i, j, c.skeleton).second) o << i << j << ".";
    o << "d";
    for (auto d : c.degree_) o << d << ".";
    o << "v" << c.num_vertices_ << "b" << c.num_blockers_ << "m";
    std::vector<std::pair<int, Mask>> bm;
    for (auto& kv : c.blocker_map_) bm.push_back({kv.first.vertex, to_mask(*kv.second)});
    std::sort(bm.begin(), bm.end());
    for (auto& p : bm) o << p.first << ":" << p.second << ".";
    return o.str();
  }

  // the name under which a step is classified (depends on the state for add_simplex)
  std::string step_name(const Op& o, const Model& before) const {
    if (o.k == ADD_SIMPLEX && hi(o.s) >= before.N) return "add_simplex_creating_vertices";
    if (o.k == RS_SIMPLEX && pc(o.s) == 1) return "remove_star_simplex_dim0";
    if (o.k == RS_SIMPLEX && pc(o.s) == 2) return "remove_star_simplex_dim1";
    return kind_name[o.k];
  }

  std::unique_ptr<SB> construct(const Op* first) const {
    if (first && first->k == INIT_N) return std::unique_ptr<SB>(new SB((size_t)first->n));
    if (first && (first->k == CTOR_LIST || first->k == CTOR_LIST_REV)) {
      Model m;
      m.K = first->K;
      std::vector<Sx> list;
      for (Mask t : m.simplices()) list.push_back(to_sx(t));
      if (first->k == CTOR_LIST_REV) std::reverse(list.begin(), list.end());
      return std::unique_ptr<SB>(new SB(list.begin(), list.end()));
    }
    return std::unique_ptr<SB>(new SB());
  }

  void apply_impl(SB& c, const Op& o, const Model& before, const std::string& tag) const {
    switch (o.k) {
      case ADD_VERTEX: {
        VH v = c.add_vertex();
        if (v.vertex != before.N) mm("C17:return:add_vertex", "handle " + std::to_string(v.vertex) + " want " + std::to_string(before.N));
        break;
      }
      case ADD_EDGE: case ADD_EDGE_REV: c.add_edge(VH(o.a), VH(o.b)); break;
      case ADD_EDGE_WB: c.add_edge_without_blockers(VH(o.a), VH(o.b)); break;
      case ADD_SIMPLEX: c.add_simplex(to_sx(o.s)); break;
      case ADD_BLOCKER: {
        SB::Blocker_handle h = c.add_blocker(to_sx(o.s));
        bool was = is_blocker(before, o.s);
        if ((h != nullptr) != !was) mm("C17:return:add_blocker", std::string("handle ") + (h ? "non-null" : "null") + " but blocker was " + (was ? "present" : "absent"));
        break;
      }
      case RS_VERTEX: c.remove_star(VH(o.a)); break;
      case RS_EDGE: c.remove_star(VH(o.a), VH(o.b)); break;
      case RS_EDGE_HANDLE: {
        auto e = c[std::make_pair(VH(o.a), VH(o.b))];
        if (!e) { mm("C17:edge_handle:" + tag, "no edge handle for an edge of the model"); break; }
        c.remove_star(*e);
        break;
      }
      case RS_SIMPLEX: c.remove_star(to_sx(o.s)); break;
      case CONTRACT: c.contract_edge(VH(o.a), VH(o.b)); break;
      default: break;
    }
  }

  // complete observation of c against m; every class is "C17:<observer>:<tag>[:<direction>]"
  void observe(const SB& c, const Model& m, const std::string& tag, const std::string& fp) const {
    int nb = (int)boost::num_vertices(c.skeleton);
    int nn = std::min(8, std::max(m.N, nb));  // also sees handles the implementation created beyond the model's
    auto ctx_f = [&]() { return " | model " + m.text() + " blockers=" + mlist(m.blockers()); };
#define ctx ctx_f()
    // contains(s) for every vertex set
    std::vector<Mask> got = impl_simplices_by_contains(c, nn), want = m.simplices(), lost, gained;
    std::set_difference(want.begin(), want.end(), got.begin(), got.end(), std::back_inserter(lost), by_dim);
    std::set_difference(got.begin(), got.end(), want.begin(), want.end(), std::back_inserter(gained), by_dim);
    if (!lost.empty() || !gained.empty())
      mm("C17:contains:" + tag + fp + (lost.empty() ? ":gained" : gained.empty() ? ":lost" : ":lost+gained"),
         "contains() false for simplices of the abstract complex: " + mlist(lost) + "; true for non-simplices: " + mlist(gained) + ctx);
    // blockers
    std::vector<Mask> gb = impl_blockers(c), wb = m.blockers(), missing, extra;
    std::set_difference(wb.begin(), wb.end(), gb.begin(), gb.end(), std::back_inserter(missing), by_dim);
    std::set_difference(gb.begin(), gb.end(), wb.begin(), wb.end(), std::back_inserter(extra), by_dim);
    if (!missing.empty() || !extra.empty())
      mm("C17:blocker_range:" + tag + fp + (missing.empty() ? ":extra" : extra.empty() ? ":missing" : ":missing+extra"),
         "blockers got " + mlist(gb) + " want " + mlist(wb) + ctx);
    else if (gb.size() != wb.size()) mm("C17:blocker_range:" + tag + ":duplicates", "got " + mlist(gb) + ctx);
    if (c.num_blockers() != gb.size())
      mm("C17:num_blockers:" + tag + fp, "num_blockers()=" + std::to_string(c.num_blockers()) + " but blocker_range has " + std::to_string(gb.size()) + ctx);
    {
      std::vector<Mask> cb;
      for (Mask t = 1; t < (1u << nn); ++t) if (pc(t) >= 3 && c.contains_blocker(to_sx(t))) cb.push_back(t);
      std::sort(cb.begin(), cb.end(), by_dim);
      std::vector<Mask> gb3;
      for (Mask t : gb) if (pc(t) >= 3) gb3.push_back(t);
      if (cb != gb3) mm("C17:contains_blocker:" + tag + fp, "contains_blocker true for " + mlist(cb) + " but blocker_range = " + mlist(gb) + ctx);
    }
    // enumeration
    std::vector<Mask> en;
    for (const auto& s : c.complex_simplex_range()) en.push_back(to_mask(s));
    std::sort(en.begin(), en.end(), by_dim);
    if (en != want) mm("C17:complex_simplex_range:" + tag + fp, "enumerated " + mlist(en) + ctx);
    size_t ns = c.num_simplices();
    if (ns != want.size()) mm("C17:num_simplices:" + tag + fp, "got " + std::to_string(ns) + " want " + std::to_string(want.size()) + ctx);
    int ncc = m.components();
    if (nb == 0) {
      // no vertex was ever created: num_connected_components() forms &component[0] on an empty vector
      // (Skeleton_blocker_complex.h:1032), which UBSan stops.  Run the call in a child so that the sanitizer stop is
      // recorded as a mismatch of its own class instead of ending the exploration.
      std::string pr = vf::probe_range(0, 1, [&](size_t) { return c.num_connected_components() == 0 ? 'y' : 'n'; });
      if (pr == "n") ncc = -1;
      else if (pr != "y")
        mm("C17:num_connected_components:empty_skeleton:sanitizer_stop", "num_connected_components() on a complex without any created vertex: the probe child died (UBSan: reference binding to null pointer, &component[0] of an empty vector)");
    } else {
      ncc = c.num_connected_components();
    }
    if (ncc != m.components()) mm("C17:num_connected_components:" + tag + fp, "got " + std::to_string(ncc) + " want " + std::to_string(m.components()) + ctx);
    if (c.num_vertices() != pc(m.active)) mm("C17:num_vertices:" + tag + fp, "got " + std::to_string(c.num_vertices()) + " want " + std::to_string(pc(m.active)) + ctx);
    if (c.num_edges() != m.num_edges()) mm("C17:num_edges:" + tag + fp, "got " + std::to_string(c.num_edges()) + " want " + std::to_string(m.num_edges()) + ctx);
    // link condition of every edge of the abstract complex
    long long lc_true = 0, lc_false = 0;
    for (int a = 0; a < m.N; ++a) for (int b = 0; b < m.N; ++b) {
      if (a == b || !m.has((1u << a) | (1u << b))) continue;
      bool w = m.link_condition(1u << a, 1u << b);
      bool g = c.link_condition(VH(a), VH(b));
      (w ? lc_true : lc_false)++;
      if (g != w) mm("C17:link_condition:" + tag + fp, "edge " + std::to_string(a) + "," + std::to_string(b) + " got " + std::to_string(g) + " want " + std::to_string(w) + ctx);
      if (variants && a < b) {
        auto e = c[std::make_pair(VH(a), VH(b))];
        if (e && c.link_condition(*e) != w) mm("C17:link_condition_edge_handle:" + tag + fp, "edge " + std::to_string(a) + "," + std::to_string(b) + ctx);
      }
    }
    if (g_report) { vf::stats().add("nv.link_condition.true", lc_true); vf::stats().add("nv.link_condition.false", lc_false); }
  }

#undef ctx
  // recognised = the only divergence is the recorded star-removal finding (exact footprint, see exec)
  struct Exec { std::string key; bool consistent; bool recognised; };

  static bool star_of_vertex_or_edge(const Op& o) {
    return o.k == RS_VERTEX || o.k == RS_EDGE || o.k == RS_EDGE_HANDLE || (o.k == RS_SIMPLEX && pc(o.s) <= 2);
  }
  // blocker \ removed for the blockers through the removed vertex / edge (only those of dimension >= 1: a lost vertex
  // is never part of the recorded footprint)
  static std::vector<Mask> sub_blocker_candidates(const Model& before, const Op& o) {
    std::vector<Mask> v;
    for (Mask b : before.blockers()) if ((b & o.s) == o.s && pc(b & ~o.s) >= 2) v.push_back(b & ~o.s);
    return v;
  }
  static bool same_complex(const SB& c, const Model& m) {
    int nb = (int)boost::num_vertices(c.skeleton);
    if (nb != m.N) return false;
    return impl_simplices_by_contains(c, m.N) == m.simplices() && impl_blockers(c) == m.blockers();
  }
  // Re-synchronisation after the recorded finding: a fresh implementation object that represents the model state,
  // built through the plain route (n vertices, removal of isolated vertices, edges without blockers, blockers).
  static std::unique_ptr<SB> rebuild(const Model& m) {
    std::unique_ptr<SB> c(new SB((size_t)m.N));
    for (int i = 0; i < m.N; ++i) if (!(m.active >> i & 1)) c->remove_star(VH(i));
    for (int a = 0; a < m.N; ++a) for (int b = a + 1; b < m.N; ++b)
      if (m.has((1u << a) | (1u << b))) c->add_edge_without_blockers(VH(a), VH(b));
    for (Mask b : m.blockers()) c->add_blocker(to_sx(b));
    return c;
  }

  Exec exec(const std::vector<int>& hist, bool report) const {
    g_report = report;
    g_inconsistent = false;
    Model m, before;
    const Op* first = hist.empty() ? nullptr : &ops[hist[0]];
    std::unique_ptr<SB> cp = construct(first);
    std::string tag = "initial", fp;
    std::vector<Mask> impl_before;
    for (size_t i = 0; i < hist.size(); ++i) {
      const Op& o = ops[hist[i]];
      bool last = i + 1 == hist.size();
      before = m;
      apply_model(m, o);
      if (last) {
        tag = step_name(o, before);
        if (o.k == CONTRACT) impl_before = impl_simplices_by_contains(*cp, before.N);
      }
      if (i > 0 || (o.k != INIT_N && o.k != CTOR_LIST && o.k != CTOR_LIST_REV)) apply_impl(*cp, o, before, last ? tag : "prefix");
      // A prefix is only ever extended when it is consistent or when its only divergence is the recorded
      // star-removal finding; in the second case the exploration continues from the model state.
      if (!last && star_of_vertex_or_edge(o) && !sub_blocker_candidates(before, o).empty() && !same_complex(*cp, m)) {
        cp = rebuild(m);
        if (report) vf::stats().add("resynchronised_after_recorded_finding");
        if (!same_complex(*cp, m)) mm("C17:ENGINE:resynchronisation_failed", "rebuilt object differs from the model " + m.text());
      }
    }
    SB& c = *cp;
    if (!hist.empty()) {
      const Op& o = ops[hist.back()];
      // Footprint of the star-removal blocker update, derived from what is observed: S = the simplices b\s (b a
      // blocker through the removed vertex / edge s, dim b\s >= 1) that contains() no longer reports.  The recorded
      // finding is recognised iff the lost simplices are exactly the simplices of the abstract result that contain
      // a member of S and nothing is gained; the suffix says whether S holds edges, higher simplices or both.
      if (star_of_vertex_or_edge(o)) {
        std::vector<Mask> cand = sub_blocker_candidates(before, o);
        if (report) vf::stats().add(cand.empty() ? "nv." + tag + ".no_blocker_through" : "nv." + tag + ".blocker_through");
        if (!cand.empty()) {
          std::vector<Mask> pred, sub, got = impl_simplices_by_contains(c, std::min(8, std::max(m.N, (int)boost::num_vertices(c.skeleton)))), want = m.simplices(), lost, gained;
          for (Mask x : cand) if (!std::binary_search(got.begin(), got.end(), x, by_dim)) sub.push_back(x);
          for (Mask t : want) for (Mask x : sub) if ((t & x) == x) { pred.push_back(t); break; }
          std::set_difference(want.begin(), want.end(), got.begin(), got.end(), std::back_inserter(lost), by_dim);
          std::set_difference(got.begin(), got.end(), want.begin(), want.end(), std::back_inserter(gained), by_dim);
          if (lost == pred && gained.empty() && !lost.empty()) {
            bool e = false, h = false;
            for (Mask x : sub) (pc(x) == 2 ? e : h) = true;
            fp = std::string(":outside_star_lost_cofaces_of_blocker_minus_removed") + (e && h ? "_edge_and_simplex" : e ? "_edge" : "_simplex");
          }
        }
      }
      if (report) {
        vf::stats().add(std::string("op.") + tag);
        std::vector<Mask> bb = before.blockers(), ba = m.blockers();
        if (o.k == ADD_SIMPLEX) {
          bool removed = false;
          for (Mask b : bb) if ((b & o.s) == b) removed = true;
          vf::stats().add(removed ? "nv.add_simplex.blocker_inside_removed" : "nv.add_simplex.no_blocker_inside");
          if (ba.size() > 0) vf::stats().add("nv.add_simplex.blockers_after>0");
        }
        if ((o.k == ADD_EDGE || o.k == ADD_EDGE_REV) && ba.size() > bb.size()) vf::stats().add("nv.add_edge.creates_blockers");
        if (o.k == ADD_EDGE_WB && m.simplices().size() > before.simplices().size() + 1) vf::stats().add("nv.add_edge_without_blockers.creates_higher_simplices");
        if (o.k == ADD_BLOCKER) vf::stats().add(is_blocker(before, o.s) ? "nv.add_blocker.already_present" : "nv.add_blocker.new");
        if (o.k == RS_SIMPLEX && pc(o.s) >= 3) {
          bool through = false;
          for (Mask b : bb) if ((b & o.s) == o.s) through = true;
          vf::stats().add(through ? "nv.remove_star_simplex.blocker_through" : "nv.remove_star_simplex.no_blocker_through");
        }
        if (o.k == CONTRACT) {
          bool newb = false;
          Mask A = 1u << o.a;
          for (Mask b : ba) if ((b & A) && std::find(bb.begin(), bb.end(), b) == bb.end()) newb = true;
          vf::stats().add(newb ? "nv.contract_edge.new_blocker_through_a" : "nv.contract_edge.no_new_blocker");
          if (!bb.empty()) vf::stats().add("nv.contract_edge.with_blockers_before");
        }
      }
    }
    observe(c, m, tag, fp);
    if (!hist.empty() && ops[hist.back()].k == CONTRACT) {
      // homotopy type preserved: Betti numbers over Z_2 and Z_3 and the Euler characteristic of the simplices the
      // implementation reports before and after the contraction
      std::vector<Mask> impl_after = impl_simplices_by_contains(c, m.N);
      for (int p : {2, 3}) {
        std::vector<int> b0 = betti(impl_before, p), b1 = betti(impl_after, p);
        if (b0 != b1) mm("C17:betti_Z" + std::to_string(p) + ":contract_edge", "before " + vf::join(b0) + " after " + vf::join(b1) + " | before: " + mlist(impl_before) + " after: " + mlist(impl_after));
        if (report && (b0[1] || b0[2] || b0[0] > 1)) vf::stats().add("nv.contract_edge.nontrivial_homology_Z" + std::to_string(p));
      }
      if (euler(impl_before) != euler(impl_after)) mm("C17:euler:contract_edge", "before " + std::to_string(euler(impl_before)) + " after " + std::to_string(euler(impl_after)));
      // self-check of the oracle's link condition (a failure here is an oracle error, not a library defect)
      if (betti(before.simplices(), 2) != betti(m.simplices(), 2)) mm("C17:ORACLE-SELFCHECK:model_contraction_changed_betti", before.text() + " -> " + m.text());
    }
    Exec r;
    r.consistent = !g_inconsistent;
    r.recognised = !r.consistent && !fp.empty();
    // a history whose only divergence is the recorded finding continues from the model state: its key is the key of
    // the re-synchronised object, so it merges with the same state reached without the finding
    if (r.recognised) { std::unique_ptr<SB> rc = rebuild(m); r.key = m.key() + "|" + impl_key(*rc); }
    else r.key = m.key() + "|" + impl_key(c);
    if (report) {
      if (r.recognised) vf::stats().add("recorded_finding_histories_continued_from_model_state");
      else if (!r.consistent) vf::stats().add("diverged_histories_not_extended");
      if (r.recognised) vf::stats().distinct("states_reached_through_recorded_finding", m.key(), 4000000);
      if (r.consistent) vf::stats().distinct("consistent_states", m.key(), 4000000);
      if (r.consistent || r.recognised) {
        if (!m.blockers().empty()) vf::stats().distinct("states_with_blockers", m.key(), 4000000);
        if (pc(m.active) >= 3) vf::stats().distinct("nontrivial_states", m.key(), 4000000);
      }
      vf::stats().add("observations");
      vf::stats().maxi("model_simplices_max", (long long)m.simplices().size());
      vf::stats().maxi("model_blockers_max", (long long)m.blockers().size());
    }
    g_report = true;
    return r;
  }

  std::string run(const std::vector<int>& hist) const { return exec(hist, true).key; }

  std::vector<int> enabled(const std::vector<int>& hist) const {
    std::vector<int> r;
    // a history after which implementation and model differ is reported once and not extended (later comparisons
    // would only repeat the same divergence under other names) - except when the divergence is exactly the recorded
    // star-removal finding: then the successors are executed on an object rebuilt from the model state
    if (!hist.empty()) { Exec e = exec(hist, false); if (!e.consistent && !e.recognised) return r; }
    Model m = model_after(hist);
    for (size_t i = 0; i < ops.size(); ++i) if (is_enabled(m, ops[i], hist.empty())) r.push_back((int)i);
    return r;
  }
};

int main(int argc, char** argv) {
  vf::Args a = vf::parse_args(argc, argv);
  vf::install_handlers();
  // add_simplex announces the vertices it creates on std::cerr; keep the log small
  std::cerr.rdbuf(nullptr);
  double t0 = vf::now_s();
  Driver d;
  if (!a.replay.empty()) {
    auto kv = vf::parse_kv(a.replay);
    d.init(atoi(kv["nmax"].c_str()), atoi(kv["nctor"].c_str()), atoi(kv["variants"].c_str()));
    std::vector<int> h = vf::parse_ints(kv["ops"]);
    vf::set_case(d.describe(h));
    d.run(h);
    vf::finish();
    return 0;
  }
  d.init((int)a.geti("nmax", 4), (int)a.geti("nctor", 4), (int)a.geti("variants", 0));
  vf::ExploreCfg cfg;
  cfg.max_depth = (int)a.geti("depth", 1000);
  cfg.workers = (int)a.geti("workers", 2);
  cfg.deadline_s = t0 + (double)a.geti("budget", 240);
  cfg.validate_per_level = (int)a.geti("validate", 0);
  cfg.scratch = "build/scratch";
  vf::ExploreResult r = vf::explore(d, cfg);
  vf::Stats& s = vf::stats();
  std::string cfgname = "nmax" + std::to_string(d.nmax) + ".nctor" + std::to_string(d.nctor) + ".variants" + std::to_string(d.variants);
  s.add("ev.states", r.states);
  s.add("ev.transitions", r.transitions);
  s.add("ev.traces", r.transitions + 1 + r.validated);
  s.add("ev.evaluations", r.transitions + 1 + r.validated);
  s.add("ev.nontrivial", (long long)s.sets["nontrivial_states"].size());
  s.add("consistent_states." + cfgname, (long long)s.sets["consistent_states"].size());
  {  // model states that no history reached without passing through the recorded finding as its last step
    long long only = 0;
    for (auto& k : s.sets["states_reached_through_recorded_finding"]) if (!s.sets["consistent_states"].count(k)) ++only;
    s.add("states_reached_only_through_recorded_finding." + cfgname, only);
  }
  bool complete = r.closed || (a.geti("depth", 1000) < 1000 && r.completed_depth >= a.geti("depth", 1000) && !r.deadline_hit && !r.failed);
  if (!complete) s.add("ev.incomplete", 1);
  s.add("closed." + cfgname, r.closed ? 1 : 0);
  s.maxi("depth." + cfgname, r.completed_depth);
  s.add("alphabet_size." + cfgname, (long long)d.ops.size());
  vf::finish();
  return r.failed ? 3 : 0;
}
