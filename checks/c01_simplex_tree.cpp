// C01 - Simplex tree equals the abstract complex defined by its operation history.
// E1 explicit-state exploration of the real Simplex_tree (one option set per binary, -DVF_OPT=k).
#include "st_common.hpp"
#include "explorer.hpp"

#include <boost/graph/adjacency_list.hpp>

using namespace stc;
using ST = Gudhi::Simplex_tree<Opt>;
constexpr bool HAS_FILT = Opt::store_filtration;
constexpr bool CONTIG = Opt::contiguous_vertices;
static const double INF = std::numeric_limits<double>::infinity();

enum Kind { INS, INSF, BATCH, GRAPH, REMOVE, PRUNE_F, PRUNE_D, CLEAR, INITF, CLEARF, DIMQ, NSBD };
static const char* kind_name[] = {"insert_simplex", "insert_simplex_and_subfaces", "insert_batch_vertices", "insert_graph",
                                  "remove_maximal_simplex", "prune_above_filtration", "prune_above_dimension", "clear",
                                  "initialize_filtration", "clear_filtration", "dimension()", "num_simplices_by_dimension"};

struct GraphSpec {
  std::vector<double> vf;                                // value of vertex i (labels 0..k-1)
  std::vector<std::tuple<int, int, double>> edges;       // (u,v,value), u<v
};
struct Op {
  Kind k;
  Simplex s;
  double f = 0;
  int d = 0;
  int g = -1;
  bool dup = false;  // BATCH only: the range passed to the library repeats its first label (still a range of vertices)
};

struct Driver {
  std::vector<int> labels;
  std::vector<double> F;
  std::vector<Simplex> universe;
  std::vector<Op> ops;
  std::vector<GraphSpec> graphs;
  bool labels_are_iota = true;
  bool use_cache_ops = true;

  void init(const std::vector<int>& L, const std::vector<double>& Fv, bool graphs_on) {
    labels = L;
    F = Fv;
    universe = universe_of(labels);
    for (size_t i = 0; i < labels.size(); ++i) if (labels[i] != (int)i) labels_are_iota = false;
    // alphabet, simplest first
    for (auto& s : universe) for (double f : F) ops.push_back({INS, s, f});
    for (auto& s : universe) if (s.size() >= 2) for (double f : F) ops.push_back({INSF, s, f});
    for (auto& s : universe) if (s.size() >= 1) for (double f : F) ops.push_back({BATCH, s, f});
    // the same batches with a repeated label (sorted, non-decreasing): the documentation asks for "a range of
    // Vertex_handle", duplicates are not excluded
    for (auto& s : universe) if (s.size() >= 1) { Op o{BATCH, s, F[0]}; o.dup = true; ops.push_back(o); }
    for (auto& s : universe) ops.push_back({REMOVE, s});
    if (HAS_FILT) { for (double f : F) ops.push_back({PRUNE_F, {}, f}); ops.push_back({PRUNE_F, {}, INF}); }
    for (int d : {-2, -1, 0, 1, 2, 3}) { Op o{PRUNE_D, {}}; o.d = d; ops.push_back(o); }
    ops.push_back({CLEAR, {}});
    ops.push_back({DIMQ, {}});
    ops.push_back({NSBD, {}});
    ops.push_back({INITF, {}});
    ops.push_back({CLEARF, {}});
    if (graphs_on && labels_are_iota) build_graphs();
  }

  void build_graphs() {
    int n = (int)labels.size();
    for (int k = 1; k <= n; ++k) {
      std::vector<double> Fv = F;
      std::vector<double> Fe = F;
      if (k >= 4) { Fv = {F[0]}; Fe = {F[0]}; if (F.size() > 1) Fe.push_back(F[1]); }
      std::vector<std::pair<int, int>> pairs;
      for (int u = 0; u < k; ++u) for (int v = u + 1; v < k; ++v) pairs.push_back({u, v});
      // vertex assignments
      std::vector<size_t> vi(k, 0);
      for (;;) {
        std::vector<double> vf(k);
        for (int i = 0; i < k; ++i) vf[i] = Fv[vi[i]];
        // edge choices: index 0 = absent, j>0 = value Fe[j-1] (must be >= endpoints)
        std::vector<size_t> ei(pairs.size(), 0);
        for (;;) {
          GraphSpec g;
          g.vf = vf;
          bool ok = true;
          for (size_t e = 0; e < pairs.size(); ++e) {
            if (ei[e] == 0) continue;
            double val = Fe[ei[e] - 1];
            if (val < vf[pairs[e].first] || val < vf[pairs[e].second]) { ok = false; break; }
            g.edges.push_back({pairs[e].first, pairs[e].second, val});
          }
          if (ok) {
            graphs.push_back(g);
            Op o{GRAPH, {}};
            o.g = (int)graphs.size() - 1;
            ops.push_back(o);
          }
          size_t e = 0;
          while (e < ei.size() && ++ei[e] > Fe.size()) { ei[e] = 0; ++e; }
          if (e == ei.size()) break;
        }
        int i = 0;
        while (i < k && ++vi[i] >= Fv.size()) { vi[i] = 0; ++i; }
        if (i == k) break;
      }
    }
  }

  // ---- model ----
  static bool contiguous(const ref::Complex& m) {
    auto v = m.vertices();
    for (size_t i = 0; i < v.size(); ++i) if (v[i] != (int)i) return false;
    return true;
  }
  void apply_model(ref::Complex& m, const Op& o) const {
    switch (o.k) {
      case INS: m.insert_one(o.s, o.f); break;
      case INSF: m.insert_with_faces(o.s, o.f); break;
      case BATCH: for (int v : o.s) if (!m.has({v})) m.s[{v}] = o.f; break;
      case GRAPH: {
        const GraphSpec& g = graphs[o.g];
        for (size_t i = 0; i < g.vf.size(); ++i) m.s[{(int)i}] = g.vf[i];
        for (auto& e : g.edges) m.s[{std::get<0>(e), std::get<1>(e)}] = std::get<2>(e);
        break;
      }
      case REMOVE: m.s.erase(o.s); break;
      case PRUNE_F: m.prune_above_filtration(o.f); break;
      case PRUNE_D: m.prune_above_dimension(o.d); break;
      case CLEAR: m.s.clear(); break;
      default: break;
    }
  }
  bool is_enabled(const ref::Complex& m, const Op& o) const {
    bool ok = true;
    switch (o.k) {
      case INS:
        if (!m.facets_present(o.s)) return false;
        if (o.s.size() > 1 && o.f < m.max_facet_filt(o.s)) return false;
        break;
      case REMOVE: if (!m.has(o.s) || !m.is_maximal(o.s)) return false; break;
      case GRAPH: if (!m.empty()) return false; break;
      default: break;
    }
    if (CONTIG && (o.k == INS || o.k == INSF || o.k == BATCH || o.k == REMOVE || o.k == PRUNE_F)) {
      ref::Complex c = m;
      apply_model(c, o);
      ok = contiguous(c);
    }
    return ok;
  }
  ref::Complex model_after(const std::vector<int>& hist) const {
    ref::Complex m;
    for (int c : hist) apply_model(m, ops[c]);
    return m;
  }
  std::vector<int> enabled(const std::vector<int>& hist) const {
    ref::Complex m = model_after(hist);
    std::vector<int> r;
    for (size_t i = 0; i < ops.size(); ++i) if (is_enabled(m, ops[i])) r.push_back((int)i);
    return r;
  }

  std::string op_text(const Op& o) const {
    std::ostringstream t;
    t << kind_name[o.k];
    if (!o.s.empty()) t << ref::str(o.s);
    if (o.k == INS || o.k == INSF || o.k == BATCH || o.k == PRUNE_F) t << "@" << o.f;
    if (o.dup) t << "(first label repeated)";
    if (o.k == PRUNE_D) t << "(" << o.d << ")";
    if (o.k == GRAPH) {
      const GraphSpec& g = graphs[o.g];
      t << "{v:" << vf::join(g.vf);
      for (auto& e : g.edges) t << " " << std::get<0>(e) << "-" << std::get<1>(e) << "@" << std::get<2>(e);
      t << "}";
    }
    return t.str();
  }
  std::string describe(const std::vector<int>& hist) const {
    std::ostringstream o;
    o << "opt=" << opt_name << ";labels=" << vf::join(labels) << ";F=" << vf::join(F) << ";ops=" << vf::join(hist)
      << ";text=";
    for (int c : hist) o << op_text(ops[c]) << " ";
    return o.str();
  }

  // ---- implementation ----
  void apply_impl(ST& st, const Op& o, bool check, const ref::Complex& before, const ref::Complex& after) const {
    using FV = typename ST::Filtration_value;
    auto bad = [&](const std::string& what, const std::string& d) {
      vf::mismatch("C01:return:" + what, std::string(opt_name) + " " + op_text(o) + " " + d + " before=" + before.key());
    };
    switch (o.k) {
      case INS:
      case INSF: {
        auto vh = to_vh<ST>(o.s);
        std::pair<typename ST::Simplex_handle, bool> r;
        if constexpr (HAS_FILT) r = (o.k == INS) ? st.insert_simplex(vh, (FV)o.f) : st.insert_simplex_and_subfaces(vh, (FV)o.f);
        else r = (o.k == INS) ? st.insert_simplex(vh) : st.insert_simplex_and_subfaces(vh);
        if (check) {
          bool was = before.has(o.s);
          if (r.second != !was) bad(kind_name[o.k], "bool=" + std::to_string(r.second));
          bool lowered = was && HAS_FILT && before.filt(o.s) > o.f;
          bool want_handle = !was || lowered;
          bool got_handle = r.first != st.null_simplex();
          if (got_handle != want_handle) bad(kind_name[o.k], "handle non-null=" + std::to_string(got_handle));
          else if (got_handle && simplex_of(st, r.first) != o.s) bad(kind_name[o.k], "handle designates another simplex");
        }
        break;
      }
      case BATCH: {
        auto vh = to_vh<ST>(o.s);
        if (o.dup) vh.insert(vh.begin(), vh.front());
        if constexpr (HAS_FILT) st.insert_batch_vertices(vh, (FV)o.f);
        else st.insert_batch_vertices(vh);
        break;
      }
      case GRAPH: {
        using G = boost::adjacency_list<boost::vecS, boost::vecS, boost::directedS,
                                        boost::property<Gudhi::vertex_filtration_t, FV>,
                                        boost::property<Gudhi::edge_filtration_t, FV>>;
        const GraphSpec& gs = graphs[o.g];
        G g(gs.vf.size());
        for (size_t i = 0; i < gs.vf.size(); ++i) boost::put(Gudhi::vertex_filtration_t(), g, i, HAS_FILT ? (FV)gs.vf[i] : FV());
        for (auto& e : gs.edges) {
          // alternate edge orientation: the graph concept does not promise one
          int u = std::get<0>(e), v = std::get<1>(e);
          if ((u + v) % 2) std::swap(u, v);
          boost::add_edge(u, v, HAS_FILT ? (FV)std::get<2>(e) : FV(), g);
        }
        st.insert_graph(g);
        break;
      }
      case REMOVE: st.remove_maximal_simplex(st.find(to_vh<ST>(o.s))); break;
      case PRUNE_F: {
        bool r = st.prune_above_filtration((FV)o.f);
        if (check && r != (before.s.size() != after.s.size())) bad("prune_above_filtration", "returned " + std::to_string(r));
        break;
      }
      case PRUNE_D: {
        bool r = st.prune_above_dimension(o.d);
        if (check && r != (before.s.size() != after.s.size())) bad("prune_above_dimension", "returned " + std::to_string(r));
        break;
      }
      case CLEAR: st.clear(); break;
      case INITF: st.initialize_filtration(); break;
      case CLEARF: st.clear_filtration(); break;
      case DIMQ: {
        int d = st.dimension();
        if (check && d != before.dimension())
          vf::mismatch("C01:dimension()", std::string(opt_name) + " got " + std::to_string(d) + " want " +
                                              std::to_string(before.dimension()) + " model=" + before.key());
        break;
      }
      case NSBD: {
        std::vector<size_t> got = st.num_simplices_by_dimension();
        if (check) {
          std::vector<size_t> want(before.dimension() + 1, 0);
          for (auto& kv : before.s) want[kv.first.size() - 1]++;
          if (got != want)
            vf::mismatch("C01:num_simplices_by_dimension", std::string(opt_name) + " got " + vf::join(got) + " want " +
                                                               vf::join(want) + " model=" + before.key());
        }
        break;
      }
    }
  }

  std::string run(const std::vector<int>& hist) const {
    ST st;
    ref::Complex m, before;
    for (size_t i = 0; i < hist.size(); ++i) {
      const Op& o = ops[hist[i]];
      bool last = i + 1 == hist.size();
      if (last) before = m;
      apply_model(m, o);
      apply_impl(st, o, last, before, m);
    }
    std::ostringstream key;
    key << m.key() << "|d" << st.dimension_ << "|l" << (int)st.dimension_to_be_lowered_ << "|c"
        << (int)!st.filtration_vect_.empty();
    observe(st, m, universe, "C01");
    observe_equality(st, m, "C01");
    observe_mutating(st, m, "C01", true);
    vf::stats().add("observations");
    if (!hist.empty()) vf::stats().add(std::string("op.") + kind_name[ops[hist.back()].k]);
    vf::stats().maxi("model_simplices_max", (long long)m.s.size());
    return key.str();
  }
};

int main(int argc, char** argv) {
  vf::Args a = vf::parse_args(argc, argv);
  vf::install_handlers();
  double t0 = vf::now_s();
  std::vector<int> labels = vf::parse_ints(a.get("labels", "0,1,2"));
  std::vector<double> F;
  auto parse_F = [](const std::string& str) {
    std::vector<double> r;
    size_t i = 0;
    while (i <= str.size()) {
      size_t j = str.find(',', i);
      if (j == std::string::npos) j = str.size();
      std::string t = str.substr(i, j - i);
      if (!t.empty()) r.push_back(t == "inf" ? INF : atof(t.c_str()));
      i = j + 1;
    }
    return r;
  };
  F = parse_F(a.get("F", HAS_FILT ? "0,1,2" : "0"));
  if (!HAS_FILT) F = {0};
  Driver d;
  if (!a.replay.empty()) {
    auto kv = vf::parse_kv(a.replay);
    labels = vf::parse_ints(kv["labels"]);
    F = parse_F(kv["F"]);
    d.init(labels, F, a.geti("graphs", 1));
    std::vector<int> h = vf::parse_ints(kv["ops"]);
    // every prefix, so that a replay shows the first step that goes wrong
    for (size_t n = 0; n <= h.size(); ++n) {
      std::vector<int> p(h.begin(), h.begin() + n);
      vf::set_case(d.describe(p));
      d.run(p);
    }
    vf::finish();
    return 0;
  }
  d.init(labels, F, a.geti("graphs", 1));
  vf::ExploreCfg cfg;
  cfg.max_depth = (int)a.geti("depth", 1000);
  cfg.workers = (int)a.geti("workers", 4);
  cfg.deadline_s = t0 + (double)a.geti("budget", 240);
  cfg.validate_per_level = (int)a.geti("validate", 0);
  cfg.scratch = "build/scratch";
  vf::ExploreResult r = vf::explore(d, cfg);
  vf::Stats& s = vf::stats();
  s.add("ev.states", r.states);
  s.add("ev.transitions", r.transitions);
  s.add("ev.traces", r.transitions + 1 + r.validated);
  s.add("ev.evaluations", r.transitions + 1 + r.validated);
  s.add("ev.nontrivial", r.states);
  if (!r.closed) s.add("ev.incomplete", 1);
  s.add(std::string("closed.") + opt_name + ".labels" + vf::join(labels, "_") + ".F" + std::to_string(F.size()), r.closed ? 1 : 0);
  s.maxi(std::string("depth.") + opt_name, r.completed_depth);
  s.add("alphabet_size", (long long)d.ops.size());
  vf::finish();
  return r.failed ? 3 : 0;
}
