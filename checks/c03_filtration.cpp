// C03 - Filtration order and filtration-value maintenance are valid and deterministic.
// E2 enumeration of filtered complexes / value assignments; oracle = definitions on ref::Complex.
#include "st_common.hpp"

#include <functional>
#ifdef GUDHI_USE_TBB
#include <tbb/global_control.h>
#endif

using namespace stc;
using ST = Gudhi::Simplex_tree<Opt>;
using FV = typename ST::Filtration_value;
static const double INF = std::numeric_limits<double>::infinity();

static void bad(const std::string& obs, const std::string& d) { vf::mismatch("C03:" + obs, std::string(opt_name) + " " + d); }

static std::string model_case(const std::string& part, const ref::Complex& m) {
  return std::string("opt=") + opt_name + ";part=" + part + ";model=" + m.key();
}
static ref::Complex parse_model(const std::string& key) {
  ref::Complex m;
  size_t i = 0;
  while (i < key.size()) {
    size_t j = key.find(';', i);
    if (j == std::string::npos) break;
    std::string item = key.substr(i, j - i);
    size_t c = item.find(':');
    Simplex s;
    std::string vs = item.substr(0, c);
    size_t a = 0;
    while (a < vs.size()) {
      size_t b = vs.find('.', a);
      if (b == std::string::npos) break;
      s.push_back(atoi(vs.substr(a, b - a).c_str()));
      a = b + 1;
    }
    std::string v = item.substr(c + 1);
    m.s[s] = (v == "inf") ? INF : atof(v.c_str());
    i = j + 1;
  }
  return m;
}

// all complexes on `nverts` vertices with values; monotone=true: only monotone assignments
static void enumerate(int nverts, const std::vector<double>& F, bool monotone, bool contiguous_only,
                      const std::function<void(const ref::Complex&)>& cb) {
  std::vector<int> labels;
  for (int i = 0; i < nverts; ++i) labels.push_back(i);
  std::vector<Simplex> uni = ref::nonempty_subsets(labels);
  std::sort(uni.begin(), uni.end(), [](const Simplex& a, const Simplex& b) {
    return a.size() != b.size() ? a.size() < b.size() : a < b;
  });
  ref::Complex m;
  std::function<void(size_t)> rec = [&](size_t i) {
    if (i == uni.size()) {
      if (contiguous_only) {
        auto v = m.vertices();
        for (size_t k = 0; k < v.size(); ++k) if (v[k] != (int)k) return;
      }
      cb(m);
      return;
    }
    rec(i + 1);
    const Simplex& s = uni[i];
    if (!m.facets_present(s)) return;
    double lo = (monotone && s.size() > 1) ? m.max_facet_filt(s) : -INF;
    for (double f : F) {
      if (f < lo) continue;
      m.s[s] = f;
      rec(i + 1);
    }
    m.s.erase(s);
  };
  rec(0);
}

// two construction histories of the same filtered complex
static void build_A(ST& st, const ref::Complex& m) { build_from_model(st, m); }
static void build_B(ST& st, const ref::Complex& m) {
  // maximal simplices with all faces at a large value, in decreasing lexicographic order, then every value assigned
  std::vector<Simplex> all;
  for (auto& kv : m.s) all.push_back(kv.first);
  for (auto it = all.rbegin(); it != all.rend(); ++it)
    if (m.is_maximal(*it)) st.insert_simplex_and_subfaces(to_vh<ST>(*it), (FV)1000);
  for (auto it = all.rbegin(); it != all.rend(); ++it) st.assign_filtration(st.find(to_vh<ST>(*it)), (FV)m.filt(*it));
  st.clear_filtration();
}

static std::vector<Simplex> exposed(ST& st) {
  std::vector<Simplex> r;
  for (auto sh : st.filtration_simplex_range()) r.push_back(simplex_of(st, sh));
  return r;
}

static void check_order(const ref::Complex& m) {
  ST a, b;
  build_A(a, m);
  build_B(b, m);
  a.initialize_filtration();
  std::vector<Simplex> sa = exposed(a), sb = exposed(b);
  std::vector<Simplex> want = m.filtration_order();
  // (i) permutation, non-decreasing, faces first - stated on the output itself
  {
    std::set<Simplex> seen;
    double last = -INF;
    bool perm = sa.size() == m.s.size(), mono = true, faces = true;
    for (auto& s : sa) {
      if (!m.has(s) || !seen.insert(s).second) { perm = false; continue; }
      if (m.filt(s) < last) mono = false;
      last = m.filt(s);
      for (auto& f : ref::facets_of(s)) if (!seen.count(f)) faces = false;
    }
    if (!perm) bad("filtration_simplex_range:not-a-permutation", "model=" + m.key() + " got " + strset(sa));
    if (!mono) bad("filtration_simplex_range:decreasing-value", "model=" + m.key() + " got " + strset(sa));
    if (!faces) bad("filtration_simplex_range:coface-before-face", "model=" + m.key() + " got " + strset(sa));
  }
  // (ii) a function of the filtered complex alone: both histories give the same sequence, equal to the documented
  //      order (value, then reverse lexicographic) which is the same for every option set and every build
  if (sa != sb) bad("filtration_simplex_range:history-dependent", "model=" + m.key() + " A " + strset(sa) + " B " + strset(sb));
  if (sa != want) bad("filtration_simplex_range:differs-from-documented-order", "model=" + m.key() + " got " + strset(sa) + " want " + strset(want));
  // (iii) the comparator is a strict total order compatible with values and faces
  {
    typename ST::is_before_in_totally_ordered_filtration less(&a);
    std::vector<typename ST::Simplex_handle> hs;
    for (auto sh : a.complex_simplex_range()) hs.push_back(sh);
    size_t n = hs.size();
    std::vector<std::vector<char>> L(n, std::vector<char>(n, 0));
    for (size_t i = 0; i < n; ++i) for (size_t j = 0; j < n; ++j) L[i][j] = less(hs[i], hs[j]);
    for (size_t i = 0; i < n; ++i) {
      if (L[i][i]) bad("comparator:reflexive", "model=" + m.key());
      for (size_t j = 0; j < n; ++j) {
        if (i == j) continue;
        if (L[i][j] == L[j][i]) bad("comparator:not-total-or-not-antisymmetric", "model=" + m.key());
        Simplex si = simplex_of(a, hs[i]), sj = simplex_of(a, hs[j]);
        if (m.filt(si) < m.filt(sj) && !L[i][j]) bad("comparator:against-values", "model=" + m.key());
        if (si.size() < sj.size() && ref::subset(si, sj) && !L[i][j]) bad("comparator:coface-before-face", "model=" + m.key());
        for (size_t k = 0; k < n; ++k) if (L[i][j] && L[j][k] && !L[i][k]) bad("comparator:not-transitive", "model=" + m.key());
      }
    }
    vf::stats().add("ev.transitions", (long long)(n * n));
  }
  // (iv) ignoring infinite values
  {
    a.initialize_filtration(true);
    std::vector<Simplex> got = exposed(a), w2;
    for (auto& s : want) if (m.filt(s) != INF) w2.push_back(s);
    bool any_inf = w2.size() != want.size();
    if (w2.empty()) {
      // an empty cache is re-initialised by filtration_simplex_range() itself (documented: "if not initialized yet")
    } else if (got != w2) {
      bad("initialize_filtration(ignore_infinite)", "model=" + m.key() + " got " + strset(got));
    }
    if (any_inf) vf::stats().add("nv.has_infinite_values");
  }
  // (v) pruning with a live filtration cache that ignores the infinite simplices (a legitimate state: the cache is a
  //     user-chosen view, prune_above_filtration is about the complex): result must still be the sublevel complex
  {
    std::set<double> fin;
    for (auto& kv : m.s) if (kv.second != INF) fin.insert(kv.second);
    // prune b at the largest finite value (only the infinite simplices go), a at the smallest finite value
    if (!fin.empty() && !Opt::contiguous_vertices) {
      for (int which = 0; which < 2; ++which) {
        ST& tr = which == 0 ? b : a;
        double t = which == 0 ? *fin.rbegin() : *fin.begin();
        tr.initialize_filtration(true);
        ref::Complex w = m;
        bool wm = w.prune_above_filtration(t);
        bool gm = tr.prune_above_filtration((FV)t);
        if (gm != wm) bad("prune_above_filtration(with cache ignoring infinite values):return", "model=" + m.key() + " t=" + std::to_string(t));
        std::vector<Simplex> got;
        for (auto sh : tr.complex_simplex_range()) got.push_back(simplex_of(tr, sh));
        std::sort(got.begin(), got.end());
        std::vector<Simplex> ws;
        for (auto& kv : w.s) ws.push_back(kv.first);
        if (got != ws) bad("prune_above_filtration(with cache ignoring infinite values):not-the-sublevel-complex", "model=" + m.key() + " t=" + std::to_string(t) + " got " + strset(got));
        vf::stats().add("ev.transitions");
      }
    }
  }
  {
    bool ties = false;
    std::set<double> vs;
    for (auto& kv : m.s) if (!vs.insert(kv.second).second) ties = true;
    if (ties) vf::stats().add("nv.has_ties");
  }
}

// make_filtration_non_decreasing + prune_above_filtration on an arbitrary (possibly non monotone) assignment
static void check_mfnd(const ref::Complex& m) {
  ST st;
  // insert the complex, then assign the arbitrary values
  for (auto& kv : m.s) if (m.is_maximal(kv.first)) st.insert_simplex_and_subfaces(to_vh<ST>(kv.first), (FV)0);
  for (auto& kv : m.s) st.assign_filtration(st.find(to_vh<ST>(kv.first)), (FV)kv.second);
  ref::Complex want;
  bool changed = false;
  for (auto& kv : m.s) {
    double v = -INF;
    for (auto& f : ref::nonempty_subsets(kv.first)) v = std::max(v, m.filt(f));
    want.s[kv.first] = v;
    if (v != kv.second) changed = true;
  }
  if (changed) vf::stats().add("nv.mfnd_changes_something");
  bool r = st.make_filtration_non_decreasing();
  if (r != changed) bad("make_filtration_non_decreasing:return", "model=" + m.key() + " returned " + std::to_string(r));
  for (auto& kv : want.s) {
    double got = (double)st.filtration(st.find(to_vh<ST>(kv.first)));
    if (got != kv.second) bad("make_filtration_non_decreasing:value", "model=" + m.key() + " simplex " + ref::str(kv.first) + " got " + std::to_string(got) + " want " + std::to_string(kv.second));
  }
  if (st.num_simplices() != m.s.size()) bad("make_filtration_non_decreasing:simplices-changed", "model=" + m.key());
  if (st.make_filtration_non_decreasing()) bad("make_filtration_non_decreasing:second-call-true", "model=" + m.key());
  vf::stats().add("ev.transitions", 2);
  // pruning at every value keeps exactly the sublevel complex
  std::set<double> ts;
  for (auto& kv : want.s) ts.insert(kv.second);
  ts.insert(-1);
  for (double t : ts) {
    ref::Complex w = want;
    bool wm = w.prune_above_filtration(t);
    if (Opt::contiguous_vertices) {  // the option's precondition: vertices stay 0..k-1
      auto v = w.vertices();
      bool contig = true;
      for (size_t k = 0; k < v.size(); ++k) if (v[k] != (int)k) contig = false;
      if (!contig) continue;
    }
    ST c(st);
    bool gm = c.prune_above_filtration((FV)t);
    if (gm != wm) bad("prune_above_filtration:return", "model=" + want.key() + " t=" + std::to_string(t));
    std::vector<Simplex> got;
    for (auto sh : c.complex_simplex_range()) got.push_back(simplex_of(c, sh));
    std::sort(got.begin(), got.end());
    std::vector<Simplex> ws;
    for (auto& kv : w.s) ws.push_back(kv.first);
    if (got != ws) bad("prune_above_filtration:not-the-sublevel-complex", "model=" + want.key() + " t=" + std::to_string(t) + " got " + strset(got));
    for (auto& kv : w.s) {
      auto sh = c.find(to_vh<ST>(kv.first));
      if (sh != c.null_simplex() && (double)c.filtration(sh) != kv.second) bad("prune_above_filtration:value-changed", "model=" + want.key());
    }
    if (c.dimension() != w.dimension()) bad("prune_above_filtration:dimension", "model=" + want.key() + " t=" + std::to_string(t) + " got " + std::to_string(c.dimension()));
    vf::stats().add("ev.transitions");
  }
}

// extended filtration of the vertex function stored on the vertices of m (values of other simplices are irrelevant)
static void check_extend(const ref::Complex& m) {
  if (m.empty()) return;
  ST st;
  build_from_model(st, m);
  std::map<int, double> g;
  double mn = INF, mx = -INF;
  for (auto& kv : m.s) if (kv.first.size() == 1) { g[kv.first[0]] = kv.second; mn = std::min(mn, kv.second); mx = std::max(mx, kv.second); }
  int cone = m.vertices().back() + 1;
  auto efd = st.extend_filtration();
  vf::stats().add("ev.transitions");
  if ((double)efd.minval != mn || (double)efd.maxval != mx) bad("extend_filtration:minmax", "model=" + m.key());
  double range = mx - mn;
  // expected complex: K, cone point, cones on K
  std::map<Simplex, std::pair<double, int>> want;  // simplex -> (decoded value, type 0 UP / 1 DOWN / 2 EXTRA)
  std::map<Simplex, double> raw;
  for (auto& kv : m.s) {
    double hi = -INF, lo = INF;
    for (int v : kv.first) { hi = std::max(hi, g[v]); lo = std::min(lo, g[v]); }
    want[kv.first] = {hi, 0};
    raw[kv.first] = -2 + (range ? (hi - mn) / range : 0);
    Simplex c = kv.first;
    c.push_back(cone);
    want[c] = {lo, 1};
    raw[c] = 2 - (range ? (lo - mn) / range : 0);
  }
  want[{cone}] = {0, 2};
  raw[{cone}] = -3;
  std::vector<Simplex> got;
  for (auto sh : st.complex_simplex_range()) got.push_back(simplex_of(st, sh));
  std::sort(got.begin(), got.end());
  std::vector<Simplex> ws;
  for (auto& kv : want) ws.push_back(kv.first);
  if (got != ws) { bad("extend_filtration:simplices", "model=" + m.key() + " got " + strset(got)); return; }
  for (auto& kv : want) {
    auto sh = st.find(to_vh<ST>(kv.first));
    double f = (double)st.filtration(sh);
    if (std::fabs(f - raw[kv.first]) > 1e-6) bad("extend_filtration:value", "model=" + m.key() + " simplex " + ref::str(kv.first) + " got " + std::to_string(f) + " want " + std::to_string(raw[kv.first]));
    auto dec = st.decode_extended_filtration(st.filtration(sh), efd);
    int type = dec.second == Gudhi::Extended_simplex_type::UP ? 0 : dec.second == Gudhi::Extended_simplex_type::DOWN ? 1 : 2;
    if (type != kv.second.second) bad("decode_extended_filtration:type", "model=" + m.key() + " simplex " + ref::str(kv.first));
    else if (type != 2 && std::fabs((double)dec.first - kv.second.first) > 1e-5)
      bad("decode_extended_filtration:value", "model=" + m.key() + " simplex " + ref::str(kv.first) + " got " + std::to_string((double)dec.first) + " want " + std::to_string(kv.second.first));
  }
  // the result is a valid filtration (monotone), ascending part strictly before the descending part
  for (auto& kv : want)
    for (auto& f : ref::facets_of(kv.first))
      if ((double)st.filtration(st.find(to_vh<ST>(f))) > (double)st.filtration(st.find(to_vh<ST>(kv.first))) + 1e-12)
        bad("extend_filtration:not-monotone", "model=" + m.key());
  if (st.dimension() != m.dimension() + 1) bad("extend_filtration:dimension", "model=" + m.key());
}

#ifdef GUDHI_USE_TBB
// large complex, massive ties: the parallel sort must give the one sequence the strict total order defines
static void check_tbb(int npts, int reps) {
  ST st;
  ref::Complex m;
  std::vector<int> verts;
  std::set<std::pair<int, int>> edges;
  for (int i = 0; i < npts; ++i) { verts.push_back(i); }
  for (int i = 0; i < npts; ++i) for (int j = i + 1; j < npts; ++j) if ((i * 7 + j * 3) % 5 != 0) edges.insert({i, j});
  for (auto& c : ref::cliques(verts, edges, 4)) {
    double v = 0;
    for (size_t x = 0; x < c.size(); ++x) for (size_t y = x + 1; y < c.size(); ++y) v = std::max(v, (double)((c[x] + 2 * c[y]) % 2));
    m.s[c] = v;
  }
  build_from_model(st, m);
  std::vector<Simplex> want = m.filtration_order();
  vf::stats().maxi("tbb.simplices", (long long)want.size());
  for (int threads : {1, 2, 4, 8, 16}) {
    tbb::global_control gc(tbb::global_control::max_allowed_parallelism, threads);
    for (int r = 0; r < reps; ++r) {
      vf::set_case(std::string("opt=") + opt_name + ";part=tbb;npts=" + std::to_string(npts) + ";threads=" + std::to_string(threads));
      st.initialize_filtration();
      std::vector<Simplex> got = exposed(st);
      if (got != want) bad("tbb:parallel-sort-sequence", "threads=" + std::to_string(threads) + " rep=" + std::to_string(r));
      vf::stats().add("tbb.sorts(sampled schedules)");
      vf::end_case();
    }
  }
}
#endif

int main(int argc, char** argv) {
  vf::Args a = vf::parse_args(argc, argv);
  vf::install_handlers();
  std::string part = a.get("part", "order");
  bool th = a.thorough();
  long idx = 0, n = 0;
  auto mine = [&]() { return (idx++ % a.nshards) == a.shard; };
  auto dispatch = [&](const std::string& p, const ref::Complex& m) {
    if (p == "order") check_order(m);
    else if (p == "mfnd") check_mfnd(m);
    else if (p == "extend") check_extend(m);
  };
  if (!a.replay.empty()) {
    auto kv = vf::parse_kv(a.replay);
    vf::set_case(a.replay);
#ifdef GUDHI_USE_TBB
    if (kv["part"] == "tbb") { check_tbb(atoi(kv["npts"].c_str()), 3); vf::finish(); return 0; }
#endif
    dispatch(kv["part"], parse_model(a.replay.substr(a.replay.find("model=") + 6)));
    vf::finish();
    return 0;
  }
  int nv = (int)a.geti("nverts", 3);
  long maxsimp = a.geti("maxsimp", 1000);  // bound on the number of simplices of the enumerated complexes
  std::vector<double> F;
  {
    std::string fs = a.get("F", "0,1,2");
    size_t i = 0;
    while (i <= fs.size()) {
      size_t j = fs.find(',', i);
      if (j == std::string::npos) j = fs.size();
      std::string t = fs.substr(i, j - i);
      if (!t.empty()) F.push_back(t == "inf" ? INF : atof(t.c_str()));
      i = j + 1;
    }
  }
  if (part == "tbb") {
#ifdef GUDHI_USE_TBB
    check_tbb((int)a.geti("npts", 12), (int)a.geti("reps", th ? 20 : 4));
    vf::stats().add("ev.states", 1);
    vf::stats().add("ev.traces", vf::stats().c["tbb.sorts(sampled schedules)"]);
    vf::stats().add("ev.nontrivial", 1);
    vf::stats().add("ev.transitions", vf::stats().c["tbb.sorts(sampled schedules)"]);
#endif
  } else {
    bool monotone = part != "mfnd";
    enumerate(nv, F, monotone, Opt::contiguous_vertices, [&](const ref::Complex& m) {
      if (part == "extend") {
        // only the vertex function matters: keep one representative (higher simplices at the max of their vertices)
        for (auto& kv : m.s) {
          if (kv.first.size() == 1) continue;
          double v = -INF;
          for (int x : kv.first) v = std::max(v, m.filt({x}));
          if (kv.second != v) return;
        }
      }
      if ((long)m.s.size() > maxsimp) return;
      if (!mine()) return;
      vf::set_case(model_case(part, m));
      dispatch(part, m);
      vf::end_case();
      n++;
      vf::stats().add("ev.traces");
      if (m.dimension() >= 1) vf::stats().add("ev.nontrivial");
      if (n % 7919 == 1) vf::stats().sample(model_case(part, m));
    });
    vf::stats().add("ev.states", n);
  }
  vf::stats().add("ev.evaluations", vf::stats().c["ev.traces"]);
  vf::finish();
  return 0;
}
