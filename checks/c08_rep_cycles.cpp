// C08 - representative cycles really represent their bars.
// E2/E1: every history over {insert_boundary(cell), remove_last, update+read} of the C05 universes (insert-only histories
// are the filtrations; in the uK plan items update_representative_cycles is an operation placed anywhere in the history) is executed on a fresh real Matrix<Options> for each option set of this unit (-DVF_C08 -DVF_CFG=k: RU and
// chain flavours with can_retrieve_representative_cycles), then update_representative_cycles / get_representative_cycles /
// get_representative_cycle(bar) are compared with a pure linear-algebra oracle over Z_p that never looks at R, U or the
// chain basis: dimension, zero boundary, birth cell, alive (not a combination of older classes and boundaries) at every
// index in [birth, death), dead at death, and "the representatives alive at i are a basis of H(K_i)" for every i.
#define VF_C08 1
#include "pm_common.hpp"
#include "pm_configs.hpp"

using namespace pmc;

extern "C" const char* __asan_default_options() { return "symbolize=0:fast_unwind_on_fatal=1"; }
extern "C" const char* __ubsan_default_options() { return "symbolize=0"; }

static std::string g_cls_suffix;
static bool g_early_update = true;  // also call update/get_representative_cycles before the last operation of every history
                                    // (plan items without explicit update operations only)

// update_representative_cycles (followed by the reads get_representative_cycles / get_representative_cycle(bar)) as an
// operation of the history alphabet: every placement of at most K updates between the operations of a history
constexpr int OP_UPDATE = -2;

static std::vector<int> strip_updates(const std::vector<int>& ops) {
  std::vector<int> r;
  for (int c : ops) if (c != OP_UPDATE) r.push_back(c);
  return r;
}
static bool has_update(const std::vector<int>& ops) {
  for (int c : ops) if (c == OP_UPDATE) return true;
  return false;
}
// all placements of at most max_upd updates in the gaps before the operations of h (none after the last one: the
// observation at the end of every case is itself update + reads); two updates never follow each other
static void expand_updates(const std::vector<int>& h, int max_upd, std::vector<std::vector<int>>& out) {
  size_t L = h.size();
  std::vector<size_t> gaps;
  std::function<void(size_t)> rec = [&](size_t from) {
    std::vector<int> x;
    size_t g = 0;
    for (size_t i = 0; i < L; ++i) {
      if (g < gaps.size() && gaps[g] == i) { x.push_back(OP_UPDATE); ++g; }
      x.push_back(h[i]);
    }
    out.push_back(x);
    if ((int)gaps.size() >= max_upd) return;
    for (size_t i = from; i < L; ++i) { gaps.push_back(i); rec(i + 1); gaps.pop_back(); }
  };
  rec(0);
}
// case string: as pmc::case_string plus eu=<early update flag>; the text names the updates
static std::string c08_case(const std::string& cfg, const Universe& U, int p, int idm, int ctor, const std::vector<int>& ops,
                            bool early) {
  std::ostringstream o;
  o << "cfg=" << cfg << ";u=" << U.name << ";p=" << p << ";idm=" << idm << ";ctor=" << ctor << ";eu=" << (early ? 1 : 0)
    << ";ops=" << vf::join(ops) << ";text=";
  for (int c : ops) {
    if (c == OP_UPDATE) o << "update+read ";
    else if (c == OP_REMOVE) o << "remove_last ";
    else o << "ins " << U.cells[c].name << " ";
  }
  return o.str();
}

enum Counter {
  EV_TRACES, EV_TRANSITIONS, EV_EVALUATIONS, EV_NONTRIVIAL, MISMATCHES, NV_CYCLES, NV_FINITE, NV_ESSENTIAL, NV_MULTI, NV_REMHIST,
  NV_ALIVE_TESTS, NV_BASIS_TESTS, NV_EMPTYREM, NV_NONUNIT, NV_EXPLICIT_UPD, NV_UPD_THEN_REMOVE_INSERT, CASES_FIRST  // + (flavour-1) * 2 + (zp ? 1 : 0)
};
static const char* counter_names[] = {
  "ev.traces", "ev.transitions", "ev.evaluations", "ev.nontrivial", "mismatches_total", "nv.cycles_checked", "nv.bars_finite",
  "nv.bars_essential", "nv.cycles_with_several_cells", "nv.histories_with_remove_last", "nv.alive_tests", "nv.basis_tests",
  "nv.histories_with_remove_last_on_empty_matrix", "nv.zp_non_unit_coefficient", "nv.histories_with_explicit_update",
  "nv.histories_update_then_remove_and_insert_without_update",
  "cases.ru.z2", "cases.ru.zp", "cases.chain.z2", "cases.chain.zp"};

template <class O>
struct Check {
  using E = Exec<O>;
  using Index = unsigned int;
  static constexpr Index NUL = (Index)-1;
  std::string cfg = opt_name<O>();
  std::string fl = fl_name(O::flavour);
  long long comparisons = 0;

  void bad(const std::string& cls, const std::string& detail) {
    std::string full = with_suffix("C08:" + cls, g_cls_suffix);
    cnt(MISMATCHES)++;
    if (class_should_print(full)) vf::mismatch(full, cfg + " " + detail);
  }
  std::string crash_class(const std::string& ph, const std::string& kind) {
    return "crash:" + fl + ":" + idx_name(O::column_indexation_type) + ":" + ph + ":" + kind;
  }

  // restriction of a chain to positions >= from
  static Vec tail_of(const Vec& v, int from) { return Vec(v.begin() + from, v.end()); }

  // c in B_dim(K_i) + Z_dim(K_{b-1})  <=>  the part of c on positions >= b is a combination of the parts on positions >= b of the
  // boundaries of the cells at positions <= i (c and those boundaries being cycles, the difference is a cycle of K_{b-1})
  static bool dead_at(const Model& md, const std::vector<Vec>& B, const Vec& c, int b, int i) {
    std::vector<Vec> gens;
    for (int j = 0; j <= i && j < md.n(); ++j) if (!is_zero(B[j])) gens.push_back(tail_of(B[j], b));
    return in_span(gens, tail_of(c, b), md.p);
  }
  static bool is_boundary_in(const Model& md, const std::vector<Vec>& B, const Vec& c, int i) {
    std::vector<Vec> gens;
    for (int j = 0; j <= i && j < md.n(); ++j) if (!is_zero(B[j])) gens.push_back(B[j]);
    return in_span(gens, c, md.p);
  }

  size_t prev_count = 0;
  // an earlier update on the same object (the documentation asks for a new update after every modification)
  void early_update(E& ex) {
    phase("update_representative_cycles");
    ex.m->update_representative_cycles();
    phase("get_representative_cycles");
    prev_count = ex.m->get_representative_cycles().size();
    ex.calls += 2;
    if constexpr (O::has_column_pairings) {
      // read every cycle through its bar as well (nothing is compared here: every prefix ending with an update is
      // the end of another case, where the whole observation is made)
      phase("get_current_barcode");
      const auto& bc = ex.m->get_current_barcode();
      std::vector<typename Matrix<O>::Bar> bars(bc.begin(), bc.end());
      phase("get_representative_cycle");
      size_t total = 0;
      for (const auto& bar : bars) { total += ex.m->get_representative_cycle(bar).size(); ++ex.calls; }
      (void)total;
    }
  }

  void observe(E& ex) {
    Model& md = ex.mod;
    int n = md.n(), p = md.p;
    phase("update_representative_cycles");
    ex.m->update_representative_cycles();
    ++ex.calls;
    phase("get_representative_cycles");
    const auto& cycles = ex.m->get_representative_cycles();
    ++ex.calls;
    auto bars = ref::persistence(md.ref_cells(), p);
    auto B = md.boundary_matrix();
    ++comparisons;
    if (cycles.size() != bars.size()) {
      bool kept = prev_count > 0 && cycles.size() == prev_count + bars.size();
      bad(fl + (kept ? ":cycles_of_previous_update_kept" : ":cycle_count"),
          "got " + std::to_string(cycles.size()) + " cycles for " + std::to_string(bars.size()) + " bars (" +
              std::to_string(prev_count) + " cycles at the update before the last operation)");
      return;
    }
    // cells of each cycle: documented as row indices, i.e. cell IDs.  A list is turned into a chain by position;
    // interpretation 0 reads the entries as IDs, interpretation 1 as positions (only tried when IDs fail and differ).
    std::set<int> births;
    for (auto& q : bars) births.insert(q.birth);
    std::string why_k;
    auto build = [&](bool as_pos, std::vector<Vec>& chains, bool& dup, std::string& why) {
      chains.clear();
      dup = false;
      std::set<int> lows;
      for (size_t k = 0; k < cycles.size(); ++k) {
        Vec v(n, 0);
        for (auto x : cycles[k]) {
          int pos = as_pos ? ((int)x < n ? (int)x : -1) : md.pos_of_id(x);
          if (pos < 0) { why = ":cycle_lists_unknown_cells"; why_k = vf::join(cycles[k]); return false; }
          if (v[pos]) dup = true;
          v[pos] = O::is_z2 ? (v[pos] ^ 1) : 1;  // a cell listed twice cancels over Z_2
        }
        int l = low_of(v);
        if (l < 0 || !lows.insert(l).second) { why = ":youngest_cells_not_distinct"; why_k = vf::join(cycles[k]); return false; }
        chains.push_back(v);
      }
      if (lows != births) { why = ":youngest_cells_are_not_the_birth_cells"; why_k = ""; return false; }
      return true;
    };
    std::vector<Vec> chains;
    bool dup = false;
    std::string why;
    ++comparisons;
    if (!build(false, chains, dup, why)) {
      bool ids_are_positions = true;
      for (int i = 0; i < n; ++i) if (md.ids[i] != (unsigned)i) ids_are_positions = false;
      std::string why2;
      std::string first_k = why_k;
      if (!ids_are_positions && build(true, chains, dup, why2)) {
        bad(fl + ":cycle_lists_positions_instead_of_ids",
            "the cycles only make sense as lists of positions, e.g. {" + vf::join(cycles.back()) + "} with current ids {" +
                vf::join(md.ids) + "}");
        // continue with the position reading so that other properties are still examined
      } else {
        bad(fl + why, "cycle {" + first_k + "} with current ids {" + vf::join(md.ids) + "}, births of the bars {" + vf::join(births) + "}");
        return;
      }
    }
    if (dup) {
      ++comparisons;
      size_t k = 0;
      for (; k < cycles.size(); ++k) {
        std::set<unsigned> u(cycles[k].begin(), cycles[k].end());
        if (u.size() != cycles[k].size()) break;
      }
      bad(fl + ":cycle_lists_a_cell_twice", "cycle {" + vf::join(cycles[std::min(k, cycles.size() - 1)]) + "}");
    }
    std::map<int, int> by_birth;
    for (size_t k = 0; k < chains.size(); ++k) by_birth[low_of(chains[k])] = (int)k;
    std::vector<Vec> rep(n);  // representative by birth position
    for (auto& q : bars) {
      auto it = by_birth.find(q.birth);
      ++comparisons;
      if (it == by_birth.end()) {
        bad(fl + ":no_cycle_born_at_birth_cell", "bar (" + std::to_string(q.dim) + "," + std::to_string(q.birth) + "," +
                                                      std::to_string(q.death) + ") has no cycle whose youngest cell is its birth cell");
        return;
      }
      Vec c = chains[it->second];
      if constexpr (!O::is_z2) {
        // the API returns the support only; coefficients are read from the stored column the support came from
        ColRead r;
        if constexpr (O::flavour == F_RU) r = ex.read_by_pos(ex.under().mirrorMatrixU_.get_column((Index)q.birth));
        else r = ex.read_by_id(ex.m->get_column(ex.index_of(q.birth)));
        Vec supp(n, 0);
        for (int i = 0; i < n; ++i) supp[i] = r.v[i] ? 1 : 0;
        ++comparisons;
        if (!r.ok || supp != c) {
          bad(fl + ":zp_support_differs_from_stored_column", "cycle {" + vf::join(cycles[it->second]) + "} stored column " + vstr(r.v));
          return;
        }
        c = r.v;
        for (int x : c) if (x > 1 && x < p - 1) cnt(NV_NONUNIT)++;
      }
      rep[q.birth] = c;
      cnt(NV_CYCLES)++;
      cnt(q.death < 0 ? NV_ESSENTIAL : NV_FINITE)++;
      int nz = 0;
      for (int x : c) if (x) ++nz;
      if (nz > 1) cnt(NV_MULTI)++;
      std::string what = "bar (" + std::to_string(q.dim) + "," + std::to_string(q.birth) + "," + std::to_string(q.death) +
                         ") representative " + vstr(c);
      ++comparisons;
      bool dimok = true;
      for (int i = 0; i < n; ++i) if (c[i] && md.dim(i) != q.dim) dimok = false;
      if (!dimok) { bad(fl + ":cycle_dimension", what); continue; }
      ++comparisons;
      if (!is_zero(md.boundary_of(c))) { bad(fl + ":not_a_cycle", what + " has boundary " + vstr(md.boundary_of(c))); continue; }
      int end = q.death < 0 ? n : q.death;
      bool alive_ok = true;
      for (int i = q.birth; i < end; ++i) {
        ++comparisons;
        cnt(NV_ALIVE_TESTS)++;
        if (dead_at(md, B, c, q.birth, i)) {
          bad(fl + ":dead_before_death", what + " is already a combination of older classes and boundaries at index " + std::to_string(i));
          alive_ok = false;
          break;
        }
      }
      if (!alive_ok) continue;
      if (q.death >= 0) {
        ++comparisons;
        bool dies = O::flavour == F_CHAIN ? is_boundary_in(md, B, c, q.death) : dead_at(md, B, c, q.birth, q.death);
        if (!dies) bad(fl + ":alive_at_death", what + (O::flavour == F_CHAIN ? " is not a boundary at its death index"
                                                                              : " is not a combination of older classes and boundaries at its death index"));
      }
      // lookup by bar
      if constexpr (O::has_column_pairings) {
        phase("get_current_barcode");
        const auto& bc = ex.m->get_current_barcode();
        for (const auto& bar : bc) {
          if ((int)bar.birth != q.birth) continue;
          phase("get_representative_cycle");
          const auto& one = ex.m->get_representative_cycle(bar);
          ++ex.calls;
          ++comparisons;
          if (!(one == cycles[it->second]))
            bad(fl + ":get_representative_cycle_differs_from_list", what + " lookup gives {" + vf::join(one) + "}");
        }
      }
    }
    // basis of H(K_i) at every index
    for (int i = 0; i < n; ++i) {
      std::vector<Vec> gens;
      for (int j = 0; j <= i; ++j) if (!is_zero(B[j])) gens.push_back(B[j]);
      int r0 = gens.empty() ? 0 : ref::rank_mod_p(gens, p);
      int alive = 0;
      bool all = true;
      for (auto& q : bars) {
        if (q.birth <= i && (q.death < 0 || q.death > i)) {
          if (rep[q.birth].empty()) { all = false; break; }
          gens.push_back(rep[q.birth]);
          ++alive;
        }
      }
      if (!all) continue;
      ++comparisons;
      cnt(NV_BASIS_TESTS)++;
      int r1 = gens.empty() ? 0 : ref::rank_mod_p(gens, p);
      if (r1 != r0 + alive) {
        bad(fl + ":alive_representatives_not_a_basis", "at index " + std::to_string(i) + " the " + std::to_string(alive) +
                                                           " alive representatives span only " + std::to_string(r1 - r0) +
                                                           " classes modulo boundaries");
        break;
      }
    }
  }

  void run_case(const Universe& U, int p, int idm, int ctor, const std::vector<int>& ops, bool early) {
    vf::set_case(c08_case(cfg, U, p, idm, ctor, ops, early));
    HistInfo hi = hist_info(strip_updates(ops));
    g_cls_suffix = hi.empty_remove ? ":history_with_remove_last_on_empty_matrix" : "";
    long long c0 = comparisons;
    long long calls = 0;
    try {
      E ex(U, p, idm, ctor);
      prev_count = 0;
      for (size_t i = 0; i < ops.size(); ++i) {
        if (i + 1 == ops.size() && early) early_update(ex);
        if (ops[i] == OP_UPDATE) early_update(ex);
        else ex.apply(ops[i]);
      }
      observe(ex);
      calls = ex.calls;
      phase("destructor");
    } catch (const std::out_of_range& e) {
      bad(crash_class(g_phase, "exception_out_of_range"), std::string("exception thrown: ") + e.what());
    } catch (const std::exception& e) {
      bad(crash_class(g_phase, "exception"), std::string("exception thrown: ") + e.what());
    }
    phase("between_cases");
    vf::end_case();
    cnt(EV_TRACES)++;
    cnt(EV_TRANSITIONS) += calls;
    cnt(EV_EVALUATIONS) += comparisons - c0;
    if (hi.inserts - hi.removes >= 3) cnt(EV_NONTRIVIAL)++;
    if (hi.removes > 0) cnt(NV_REMHIST)++;
    if (hi.empty_remove) cnt(NV_EMPTYREM)++;
    if (has_update(ops)) cnt(NV_EXPLICIT_UPD)++;
    {  // an update, later a remove_last and after it an insertion with no update in between (a stale cache would show)
      int stage = 0;
      for (int c : ops) {
        if (c == OP_UPDATE) stage = 1;
        else if (c == OP_REMOVE) { if (stage >= 1) stage = 2; }
        else if (stage == 2) stage = 3;
      }
      if (stage == 3) cnt(NV_UPD_THEN_REMOVE_INSERT)++;
    }
    cnt(CASES_FIRST + (O::flavour - 1) * 2 + (O::is_z2 ? 0 : 1))++;
  }
};

template <class T>
struct Tag { using type = T; };
template <class F, class... Os>
void for_each_config(List<Os...>, F&& f) { (f(Tag<Os>{}), ...); }

struct PlanItem { std::string u; int max_ins, max_rem; std::vector<int> primes; bool empty_remove = false; int max_upd = 0; };

int main(int argc, char** argv) {
  vf::Args a = vf::parse_args(argc, argv);
  vf::install_handlers();
  vf::g_case_timeout = 6;
  shared_init();
  bool thorough = a.thorough();
  double t0 = vf::now_s();
  double budget = (double)a.geti("budget", thorough ? 2000 : 400);
  g_early_update = a.geti("early", 1) != 0;
  const bool dry = a.geti("dry", 0) != 0;  // only enumerate and count

  auto finish = [&]() {
    auto& st = vf::stats();
    for (int i = 0; i < CASES_FIRST + 4; ++i) st.add(counter_names[i], cnt(i));
    st.add("ev.states", cnt(EV_TRACES));
    st.add("ev.incomplete", g_sh->incomplete ? 1 : 0);
    st.mismatches = cnt(MISMATCHES);
    vf::finish();
  };

  if (!a.replay.empty()) {
    auto kv = vf::parse_kv(a.replay);
    Universe U = make_universe(kv["u"]);
    int p = atoi(kv["p"].c_str()), idm = atoi(kv["idm"].c_str()), ctor = atoi(kv["ctor"].c_str());
    std::vector<int> ops = vf::parse_ints(kv["ops"]);
    bool found = false;
    for_each_config(Group{}, [&](auto tag) {
      using O = typename decltype(tag)::type;
      if (opt_name<O>() != kv["cfg"]) return;
      found = true;
      Check<O> c;
      bool early = atoi(kv["eu"].c_str()) != 0;
      HistInfo hi = hist_info(strip_updates(ops));
      std::string suffix = hi.empty_remove ? ":history_with_remove_last_on_empty_matrix" : "";
      run_isolated(
          1, [&](size_t) { c.run_case(U, p, idm, ctor, ops, early); return true; },
          [&](size_t) { return c08_case(c.cfg, U, p, idm, ctor, ops, early); },
          [&](const std::string& ph, const std::string& kind) { return with_suffix("C08:" + c.crash_class(ph, kind), suffix); }, EV_TRACES);
    });
    if (!found) fprintf(stderr, "configuration %s is not in this unit\n", kv["cfg"].c_str());
    finish();
    return found ? 0 : 2;
  }

  std::vector<PlanItem> plan;
  {
    std::string s = a.get("plan", thorough ? "tet:8:1:2+3,tet:7:2:2+3+5,tri:7:3:2+3,square:9:1:2+3,strip:7:1:2+3,cw:7:2:2+3+5"
                                      : "tet:7:1:2,tet:6:1:3,square:6:1:2+3,cw:6:1:2+3+5,tri:5:2:2:u2,tri:4:2:3:u2,tet:6:1:2:u1"), cur;
    for (char ch : s + ",") {
      if (ch != ',') { cur += ch; continue; }
      if (cur.empty()) continue;
      PlanItem it;
      size_t c1 = cur.find(':'), c2 = cur.find(':', c1 + 1), c3 = cur.find(':', c2 + 1);
      it.u = cur.substr(0, c1);
      it.max_ins = atoi(cur.substr(c1 + 1, c2 - c1 - 1).c_str());
      it.max_rem = atoi(cur.substr(c2 + 1, c3 == std::string::npos ? std::string::npos : c3 - c2 - 1).c_str());
      if (c3 != std::string::npos) {  // optional: primes of this item, then ":e" = also remove_last on an empty matrix
        size_t c4 = cur.find(':', c3 + 1);
        it.primes = vf::parse_ints(cur.substr(c3 + 1, c4 == std::string::npos ? std::string::npos : c4 - c3 - 1), '+');
        if (c4 != std::string::npos) {  // flags: e = remove_last also on the empty matrix, uK = at most K explicit updates
          std::string fl = cur.substr(c4 + 1);
          it.empty_remove = fl.find('e') != std::string::npos;
          size_t u = fl.find('u');
          if (u != std::string::npos) it.max_upd = atoi(fl.c_str() + u + 1);
        }
      }
      plan.push_back(it);
      cur.clear();
    }
  }
  std::vector<int> primes = vf::parse_ints(a.get("primes", thorough ? "2,3,5" : "2,3"));
  std::vector<int> modes = vf::parse_ints(a.get("modes", thorough ? "00,11,20,31,41" : "00,11,20,41"));

  for (auto& item : plan) {
    Universe U = make_universe(item.u);
    HistoryBounds hb;
    hb.max_ins = item.max_ins;
    hb.max_rem = item.max_rem;
    hb.empty_remove = item.empty_remove;
    for (int p : item.primes.empty() ? primes : item.primes) {
      long long raw = 0;
      auto H0 = enumerate_histories(U, hb, p, &raw);
      vf::stats().add("histories_enumerated_raw", raw);
      vf::stats().add("histories_distinct_call_sequences", (long long)H0.size());
      std::vector<std::vector<int>> H;
      if (item.max_upd > 0) { for (auto& h : H0) expand_updates(h, item.max_upd, H); }
      else H = H0;
      const bool early = g_early_update && item.max_upd == 0;
      vf::stats().add("histories_with_update_placements", (long long)H.size());
      vf::stats().maxi("max_history_length", (long long)(hb.max_ins + hb.max_rem + item.max_upd));
      if (H.size() > 3) vf::stats().sample(c08_case("(every configuration of the unit)", U, p, 0, 0, H[H.size() / 2], early), 8);
      std::vector<HistInfo> info;
      for (auto& h : H) info.push_back(hist_info(strip_updates(h)));
      if (dry) continue;
      for_each_config(Group{}, [&](auto tag) {
        using O = typename decltype(tag)::type;
        if (O::is_z2 && p != 2) return;
        Check<O> c;
        vf::stats().distinct("configs", c.cfg);
        for (int mc : modes) {
          int idm = mc / 10, ctor = mc % 10;
          std::vector<size_t> sel;
          for (size_t i = 0; i < H.size(); ++i) {
            if ((int)(i % (size_t)a.nshards) != a.shard) continue;
            if (info[i].removes > 0 && !Exec<O>::CAN_REMOVE) continue;
            if (idm == 0 && info[i].insert_after_remove) continue;  // ambiguous default identifiers, see C05
            sel.push_back(i);
          }
          std::stable_partition(sel.begin(), sel.end(), [&](size_t i) { return !info[i].empty_remove; });
          size_t left = run_isolated(
              sel.size(),
              [&](size_t k) {
                if (vf::now_s() - t0 > budget) return false;
                c.run_case(U, p, idm, ctor, H[sel[k]], early);
                return true;
              },
              [&](size_t k) { return c08_case(c.cfg, U, p, idm, ctor, H[sel[k]], early); },
              [&](const std::string& ph, const std::string& kind) {
                return with_suffix("C08:" + c.crash_class(ph, kind),
                                   info[sel[g_sh->cur]].empty_remove ? ":history_with_remove_last_on_empty_matrix" : "");
              },
              EV_TRACES);
          if (left) {
            vf::stats().add("cases_not_executed_after_repeated_deaths", (long long)left);
            vf::stats().add("blocks_abandoned_after_repeated_deaths");
            g_sh->incomplete = 1;
          }
        }
      });
    }
  }
  finish();
  return 0;
}
