// C12 - Edge collapse preserves the persistent homology of the flag filtration.
// E2: bounded-exhaustive enumeration of weighted graphs (every labelled graph of a small scope, every weak order of
// the edges for <= 4 vertices) on the real Gudhi::collapse::flag_complex_collapse_edges, plus every order of tied
// edges (the unstable sort is an environment choice) by calling Flag_complex_edge_collapser::process_edges directly.
// Oracle (no GUDHI code): (1) the output is a duplicate-free sub-list of the input edges, values not smaller;
// (2) the flag filtrations of input and output on the input's vertices have the same persistence diagram in every
// dimension over Z_2 and Z_3 (cliques by brute force over vertex subsets, column reduction of the boundary matrix).
// One binary per build configuration ({sparse, GUDHI_COLLAPSE_USE_DENSE_ARRAY} x {no TBB, GUDHI_USE_TBB}).
#include "harness.hpp"
#include "ref_complex.hpp"

#include <gudhi/Flag_complex_edge_collapser.h>

#ifdef GUDHI_USE_TBB
#include <tbb/global_control.h>
#endif

#include <array>
#include <cstdint>
#include <limits>
#include <tuple>

namespace {

const double INF = std::numeric_limits<double>::infinity();
constexpr int MAXC = 6;  // largest connected component the oracle accepts (2^6-1 = 63 cells fit one machine word)

using IEdge = std::array<int, 3>;  // u, v, integer weight
struct Case {
  char api = 'C';   // 'C' = flag_complex_collapse_edges (documented entry), 'P' = process_edges with this exact order
  char type = 'd';  // 'd' = <int,double>, 'f' = <short,float> (the types of the repository's unit test)
  std::vector<IEdge> edges;  // exactly the range that is passed, in this order and orientation
  std::string label;         // set for generated long inputs: the case text is the generator call, not the edge list
};

std::string case_str(const Case& c) {
  if (!c.label.empty()) return c.label;
  std::string s = "api=";
  s += c.api;
  s += ";t=";
  s += c.type;
  s += ";E=";
  char b[48];
  for (size_t i = 0; i < c.edges.size(); ++i) {
    snprintf(b, sizeof b, "%s%d-%d@%d", i ? "," : "", c.edges[i][0], c.edges[i][1], c.edges[i][2]);
    s += b;
  }
  return s;
}
Case parse_case(const std::string& s) {
  Case c;
  auto kv = vf::parse_kv(s);
  if (!kv["api"].empty()) c.api = kv["api"][0];
  if (!kv["t"].empty()) c.type = kv["t"][0];
  std::string es = kv["E"];
  size_t i = 0;
  while (i < es.size()) {
    size_t j = es.find(',', i);
    if (j == std::string::npos) j = es.size();
    int u, v, w;
    if (sscanf(es.substr(i, j - i).c_str(), "%d-%d@%d", &u, &v, &w) == 3) c.edges.push_back({u, v, w});
    i = j + 1;
  }
  return c;
}

// --------------------------------------------------------------------------------------------------------------------
// the real code
// --------------------------------------------------------------------------------------------------------------------
struct OEdge { int u, v; double f; };

template <class V, class F>
std::vector<OEdge> run_real_t(const Case& c) {
  using FE = std::tuple<V, V, F>;
  std::vector<FE> in;
  for (auto& e : c.edges) in.emplace_back((V)e[0], (V)e[1], (F)e[2]);
  std::vector<FE> out;
  if (c.api == 'C') {
    out = Gudhi::collapse::flag_complex_collapse_edges(in);
  } else {
    Gudhi::collapse::Flag_complex_edge_collapser<V, F> ec;
    ec.process_edges(in, [](auto const& d) { return d; });
    out = ec.output();
  }
  std::vector<OEdge> r;
  for (auto& e : out) r.push_back({(int)std::get<0>(e), (int)std::get<1>(e), (double)std::get<2>(e)});
  return r;
}
std::vector<OEdge> run_real(const Case& c) {
  return c.type == 'f' ? run_real_t<short, float>(c) : run_real_t<int, double>(c);
}

// --------------------------------------------------------------------------------------------------------------------
// oracle
// --------------------------------------------------------------------------------------------------------------------
using Diagram = std::vector<std::tuple<int, double, double>>;  // (dimension, birth, death), death = +inf if essential

struct WGraph {  // one connected component, vertices renamed 0..n-1
  int n = 0;
  double w[MAXC][MAXC];
  double vval = 0;  // value of every vertex (strictly below every edge value: "vertex values are irrelevant")
  WGraph() { for (auto& r : w) for (auto& x : r) x = INF; }
};

struct CellRec { double val; int dim; unsigned mask; };

// The three hot oracle routines work on fixed 64-entry stack/global arrays indexed by values < 64 by construction;
// they are not the code under test, so they are left uninstrumented (5x faster); everything else keeps ASan/UBSan.
#define VF_ORACLE_HOT __attribute__((no_sanitize("address", "undefined")))

VF_ORACLE_HOT int list_cells(const WGraph& g, CellRec* cells, int* idx) {
  int nc = 0;
  for (unsigned m = 1; m < (1u << g.n); ++m) {
    double val = g.vval;
    bool ok = true;
    for (int i = 0; i < g.n && ok; ++i) {
      if (!(m >> i & 1)) continue;
      for (int j = i + 1; j < g.n; ++j) {
        if (!(m >> j & 1)) continue;
        if (g.w[i][j] == INF) { ok = false; break; }
        if (g.w[i][j] > val) val = g.w[i][j];
      }
    }
    if (ok) cells[nc++] = {val, __builtin_popcount(m) - 1, m};
  }
  std::sort(cells, cells + nc, [](const CellRec& a, const CellRec& b) {
    if (a.val != b.val) return a.val < b.val;
    if (a.dim != b.dim) return a.dim < b.dim;
    return a.mask < b.mask;
  });
  for (int i = 0; i < nc; ++i) idx[cells[i].mask] = i;
  return nc;
}

void pairs_to_diagram(const CellRec* cells, int nc, const int* low, const int* owner, Diagram& out) {
  for (int j = 0; j < nc; ++j) {
    if (low[j] >= 0) {
      const CellRec& b = cells[low[j]];
      if (b.val < cells[j].val) out.emplace_back(b.dim, b.val, cells[j].val);
    } else if (owner[j] < 0) {
      out.emplace_back(cells[j].dim, cells[j].val, INF);
    }
  }
}

// Z_2: columns are bit sets
VF_ORACLE_HOT void diagram_z2(const WGraph& g, const CellRec* cells, const int* idx, int nc, Diagram& out) {
  uint64_t col[64];
  int low[64], owner[64];
  for (int j = 0; j < nc; ++j) { low[j] = -1; owner[j] = -1; }
  for (int j = 0; j < nc; ++j) {
    uint64_t c = 0;
    unsigned m = cells[j].mask;
    if (cells[j].dim > 0)
      for (int i = 0; i < g.n; ++i) if (m >> i & 1) c ^= uint64_t(1) << idx[m ^ (1u << i)];
    while (c) {
      int l = 63 - __builtin_clzll(c);
      if (owner[l] < 0) { owner[l] = j; low[j] = l; break; }
      c ^= col[owner[l]];
    }
    col[j] = c;
  }
  pairs_to_diagram(cells, nc, low, owner, out);
}

// Z_p, p an odd prime (or 2): dense small columns with signed boundary coefficients
VF_ORACLE_HOT void diagram_zp(const WGraph& g, const CellRec* cells, const int* idx, int nc, int p, Diagram& out) {
  static int col[64][64];
  int low[64], owner[64];
  int inv[8] = {0};
  for (int a = 1; a < p; ++a) for (int b = 1; b < p; ++b) if (a * b % p == 1) inv[a] = b;
  for (int j = 0; j < nc; ++j) { low[j] = -1; owner[j] = -1; }
  for (int j = 0; j < nc; ++j) {
    int* c = col[j];
    for (int i = 0; i < nc; ++i) c[i] = 0;
    unsigned m = cells[j].mask;
    if (cells[j].dim > 0) {
      int k = 0;
      for (int i = 0; i < g.n; ++i)
        if (m >> i & 1) { c[idx[m ^ (1u << i)]] = (k % 2 == 0) ? 1 : p - 1; ++k; }
    }
    for (;;) {
      int l = -1;
      for (int i = j - 1; i >= 0; --i) if (c[i]) { l = i; break; }
      if (l < 0) break;
      int o = owner[l];
      if (o < 0) { owner[l] = j; low[j] = l; break; }
      int coef = c[l] * inv[col[o][l]] % p;
      for (int i = 0; i <= l; ++i) c[i] = ((c[i] - coef * col[o][i]) % p + p) % p;
    }
  }
  pairs_to_diagram(cells, nc, low, owner, out);
}

// slow cross-check of the two functions above with the shared reference (ref::cliques + ref::persistence)
void diagram_ref(const WGraph& g, int p, Diagram& out) {
  std::vector<int> verts;
  std::set<std::pair<int, int>> es;
  for (int i = 0; i < g.n; ++i) verts.push_back(i);
  for (int i = 0; i < g.n; ++i) for (int j = i + 1; j < g.n; ++j) if (g.w[i][j] != INF) es.insert({i, j});
  std::vector<std::pair<double, ref::Simplex>> cs;
  for (auto& s : ref::cliques(verts, es, 64)) {
    double v = g.vval;
    for (size_t i = 0; i < s.size(); ++i) for (size_t j = i + 1; j < s.size(); ++j) v = std::max(v, g.w[s[i]][s[j]]);
    cs.push_back({v, s});
  }
  std::sort(cs.begin(), cs.end(), [](auto& a, auto& b) {
    if (a.first != b.first) return a.first < b.first;
    if (a.second.size() != b.second.size()) return a.second.size() < b.second.size();
    return a.second < b.second;
  });
  std::vector<ref::Simplex> order;
  for (auto& c : cs) order.push_back(c.second);
  for (auto& pr : ref::persistence(ref::cells_of(order), p)) {
    double b = cs[pr.birth].first, d = pr.death < 0 ? INF : cs[pr.death].first;
    if (b < d) out.emplace_back(pr.dim, b, d);
  }
}

std::string diag_str(const Diagram& d) {
  std::ostringstream o;
  for (auto& t : d) o << "(" << std::get<0>(t) << ":" << std::get<1>(t) << "," << std::get<2>(t) << ")";
  return o.str();
}

// a weighted graph on arbitrary labels, split into the connected components of `comp_of` (taken from the input graph)
struct Split {
  std::vector<int> labels;            // sorted distinct labels of the input
  std::vector<int> comp, local;       // per label index: component id, index inside the component
  std::vector<int> comp_size;
  bool ok = true;                     // every component has <= MAXC vertices
  int idx_of(int label) const {
    auto it = std::lower_bound(labels.begin(), labels.end(), label);
    return (it != labels.end() && *it == label) ? int(it - labels.begin()) : -1;
  }
};
Split split_components(const std::vector<IEdge>& in) {
  Split s;
  for (auto& e : in) { s.labels.push_back(e[0]); s.labels.push_back(e[1]); }
  std::sort(s.labels.begin(), s.labels.end());
  s.labels.erase(std::unique(s.labels.begin(), s.labels.end()), s.labels.end());
  int n = (int)s.labels.size();
  std::vector<int> par(n);
  for (int i = 0; i < n; ++i) par[i] = i;
  auto find = [&](int x) { while (par[x] != x) x = par[x] = par[par[x]]; return x; };
  for (auto& e : in) { int a = find(s.idx_of(e[0])), b = find(s.idx_of(e[1])); if (a != b) par[std::max(a, b)] = std::min(a, b); }
  s.comp.assign(n, -1);
  s.local.assign(n, -1);
  std::vector<int> root_comp(n, -1);
  for (int i = 0; i < n; ++i) {
    int r = find(i);
    if (root_comp[r] < 0) { root_comp[r] = (int)s.comp_size.size(); s.comp_size.push_back(0); }
    s.comp[i] = root_comp[r];
    s.local[i] = s.comp_size[s.comp[i]]++;
    if (s.comp_size[s.comp[i]] > MAXC) s.ok = false;
  }
  return s;
}

struct Counters {
  long long selfcheck_every = 0, ncase = 0;
  // long inputs sorted by tbb::parallel_sort: the order of tied edges may depend on work stealing, so the counters
  // that depend on the outcome are not recorded for them (the evidence stays identical from run to run)
  bool outcome_counters = true;
  bool want_canon = false;  // the ties part compares the outputs of the different orders of one graph
} g_cnt;

#define CNT(name) (*[] { static long long* p_ = &vf::stats().c[name]; return p_; }())

// diagrams over Z_2 and Z_3 of the flag filtration of a vertex-disjoint union of small graphs
void diagrams_of(const std::vector<WGraph>& comps, Diagram& d2, Diagram& d3, bool selfcheck) {
  for (auto& g : comps) {
    CellRec cells[64];
    int idx[64];
    int nc = list_cells(g, cells, idx);
    diagram_z2(g, cells, idx, nc, d2);
    diagram_zp(g, cells, idx, nc, 3, d3);
  }
  std::sort(d2.begin(), d2.end());
  std::sort(d3.begin(), d3.end());
  if (selfcheck) {
    Diagram r2, r3, q2;
    for (auto& g : comps) {
      diagram_ref(g, 2, r2);
      diagram_ref(g, 3, r3);
      CellRec cells[64];
      int idx[64];
      int nc = list_cells(g, cells, idx);
      diagram_zp(g, cells, idx, nc, 2, q2);
    }
    std::sort(r2.begin(), r2.end());
    std::sort(r3.begin(), r3.end());
    std::sort(q2.begin(), q2.end());
    CNT("oracle.selfchecks") += 1;
    if (r2 != d2 || q2 != d2 || r3 != d3)
      vf::mismatch("C12:oracle_selfcheck", "fast Z2 " + diag_str(d2) + " generic Z2 " + diag_str(q2) + " reference Z2 " + diag_str(r2) +
                                               " fast Z3 " + diag_str(d3) + " reference Z3 " + diag_str(r3));
  }
}

std::string out_str(const std::vector<OEdge>& out) {
  std::ostringstream o;
  for (size_t i = 0; i < out.size(); ++i) o << (i ? "," : "") << out[i].u << "-" << out[i].v << "@" << out[i].f;
  return o.str();
}

// returns a canonical text of the output (sorted), used to see whether tie orders change the result
std::string check_case(const Case& c, const std::vector<OEdge>& out) {
  vf::Stats& S = vf::stats();
  CNT("ev.transitions") += 1;
  std::string tag = c.api == 'C' ? "collapse" : "process_edges";
  std::map<std::pair<int, int>, double> in, got;
  int minw = 0;
  for (auto& e : c.edges) {
    in[{std::min(e[0], e[1]), std::max(e[0], e[1])}] = e[2];
    minw = std::min(minw, e[2]);
  }
  bool structural_ok = true;
  long long removed = 0, delayed = 0, kept = 0;
  for (auto& e : out) {
    std::pair<int, int> k{std::min(e.u, e.v), std::max(e.u, e.v)};
    auto it = in.find(k);
    if (it == in.end()) {
      vf::mismatch("C12:output_edges:not_an_input_edge:" + tag, "output edge " + std::to_string(e.u) + "-" + std::to_string(e.v) + " out=" + out_str(out));
      structural_ok = false;
      continue;
    }
    if (got.count(k)) {
      vf::mismatch("C12:output_edges:edge_returned_twice:" + tag, "output edge " + std::to_string(e.u) + "-" + std::to_string(e.v) + " out=" + out_str(out));
      structural_ok = false;
      continue;
    }
    got[k] = e.f;
    if (!(e.f >= it->second)) {
      vf::mismatch("C12:output_edges:value_below_input_value:" + tag, "edge " + std::to_string(e.u) + "-" + std::to_string(e.v) + " in=" + std::to_string(it->second) + " out=" + out_str(out));
      structural_ok = false;
    } else if (e.f > it->second) ++delayed;
    else ++kept;
  }
  CNT("ev.evaluations") += 1;
  removed = (long long)in.size() - (long long)got.size();
  std::string canon;
  if (g_cnt.want_canon) {
    char b[64];
    for (auto& kv : got) { snprintf(b, sizeof b, "%d-%d@%g,", kv.first.first, kv.first.second, kv.second); canon += b; }
  }
  if (!structural_ok) return canon;
  if (g_cnt.outcome_counters) {
    CNT("out.edges_removed") += removed;
    CNT("out.edges_delayed") += delayed;
    CNT("out.edges_unchanged") += kept;
    if (removed) CNT("cases.with_removed_edge") += 1;
    if (delayed) CNT("cases.with_delayed_edge") += 1;
    if (removed && delayed) CNT("cases.with_removed_and_delayed") += 1;
  }
  // identical output: the two filtrations are the same object, nothing to compare
  if (!removed && !delayed) { CNT("cases.output_equals_input") += 1; return canon; }
  CNT("ev.nontrivial") += 1;

  // persistence diagrams of the two flag filtrations on the input's vertices
  Split sp = split_components(c.edges);
  if (!sp.ok) { S.add("ev.incomplete"); S.add("oracle.component_too_large"); return canon; }
  std::vector<WGraph> gin(sp.comp_size.size()), gout(sp.comp_size.size());
  for (size_t k = 0; k < gin.size(); ++k) { gin[k].n = gout[k].n = sp.comp_size[k]; gin[k].vval = gout[k].vval = minw - 1; }
  for (auto& kv : in) {
    int a = sp.idx_of(kv.first.first), b = sp.idx_of(kv.first.second);
    WGraph& g = gin[sp.comp[a]];
    g.w[sp.local[a]][sp.local[b]] = g.w[sp.local[b]][sp.local[a]] = kv.second;
  }
  for (auto& kv : got) {
    int a = sp.idx_of(kv.first.first), b = sp.idx_of(kv.first.second);
    WGraph& g = gout[sp.comp[a]];
    g.w[sp.local[a]][sp.local[b]] = g.w[sp.local[b]][sp.local[a]] = kv.second;
  }
  bool self = g_cnt.selfcheck_every > 0 && (g_cnt.ncase % g_cnt.selfcheck_every) == 0;
  Diagram in2, in3, out2, out3;
  for (Diagram* d : {&in2, &in3, &out2, &out3}) d->reserve(32);
  diagrams_of(gin, in2, in3, self);
  diagrams_of(gout, out2, out3, self);
  CNT("ev.evaluations") += 2;
  {
    int maxdim = -1;
    long long fin = 0;
    bool ess1 = false;
    for (auto& t : in2) {
      if (std::get<2>(t) != INF) { ++fin; maxdim = std::max(maxdim, std::get<0>(t)); }
      else if (std::get<0>(t) >= 1) ess1 = true;
    }
    CNT("diag.finite_intervals_of_collapsed_inputs") += fin;
    if (maxdim >= 1) CNT("cases.collapsed_with_finite_interval_dim>=1") += 1;
    if (maxdim >= 2) CNT("cases.collapsed_with_finite_interval_dim>=2") += 1;
    if (ess1) CNT("cases.collapsed_with_essential_class_dim>=1") += 1;
    if (in2 != in3) CNT("cases.collapsed_with_Z2_Z3_diagrams_different") += 1;
  }
  if (in2 != out2)
    vf::mismatch("C12:persistence_diagram_changed:Z2:" + tag,
                 "input diagram " + diag_str(in2) + " output diagram " + diag_str(out2) + " output edges " + out_str(out));
  else if (in3 != out3)
    vf::mismatch("C12:persistence_diagram_changed:Z3_only:" + tag,
                 "input diagram " + diag_str(in3) + " output diagram " + diag_str(out3) + " output edges " + out_str(out));
  return canon;
}

std::string exec_case(const Case& c) {
  std::string cs = case_str(c);
  vf::set_case(cs);
  std::vector<OEdge> out = run_real(c);
  vf::end_case();
  CNT("ev.traces") += 1;
  CNT("ev.states") += 1;
  if (c.api == 'C') CNT("api.flag_complex_collapse_edges") += 1; else CNT("api.process_edges") += 1;
  vf::stats().maxi("max.edges", (long long)c.edges.size());
  if (g_cnt.ncase % 1000003 == 0 || (c.edges.size() >= 5 && vf::stats().samples.size() < 3)) vf::stats().sample(cs);
  // the breadcrumb stays set during the comparison so that mismatches carry the case
  std::string canon = check_case(c, out);
  ++g_cnt.ncase;
  return canon;
}

// --------------------------------------------------------------------------------------------------------------------
// input construction
// --------------------------------------------------------------------------------------------------------------------
const int GAP_LABELS[12] = {1, 3, 4, 7, 8, 12, 13, 15, 20, 21, 25, 26};

// `edges`: identity labels, u < v, in the order they are to be passed.  Variant 1: <short,float>, labels with gaps
// (no vertex 0), reversed orientation, weights shifted by -2 (negative and zero values); for the documented entry
// point the list is also reversed.
Case make_case(char api, int variant, const std::vector<IEdge>& edges) {
  Case c;
  c.api = api;
  if (variant == 0) { c.type = 'd'; c.edges = edges; return c; }
  c.type = 'f';
  for (auto& e : edges) c.edges.push_back({GAP_LABELS[e[1]], GAP_LABELS[e[0]], e[2] - 2});
  if (api == 'C') std::reverse(c.edges.begin(), c.edges.end());
  return c;
}

std::vector<std::pair<int, int>> all_pairs(int n) {
  std::vector<std::pair<int, int>> p;
  for (int u = 0; u < n; ++u) for (int v = u + 1; v < n; ++v) p.push_back({u, v});
  return p;
}

// every order of the edges that is non-increasing in weight (all permutations inside each tie class)
template <class Fn>
void for_each_tie_order(std::vector<IEdge> edges, Fn&& fn) {
  std::sort(edges.begin(), edges.end(), [](const IEdge& a, const IEdge& b) {
    if (a[2] != b[2]) return a[2] > b[2];
    return std::make_pair(a[0], a[1]) < std::make_pair(b[0], b[1]);
  });
  std::vector<std::pair<size_t, size_t>> cls;
  for (size_t i = 0; i < edges.size();) {
    size_t j = i;
    while (j < edges.size() && edges[j][2] == edges[i][2]) ++j;
    cls.push_back({i, j});
    i = j;
  }
  for (;;) {
    fn(edges);
    bool advanced = false;
    for (size_t k = cls.size(); k-- > 0;) {
      if (std::next_permutation(edges.begin() + cls[k].first, edges.begin() + cls[k].second)) { advanced = true; break; }
    }
    if (!advanced) break;
  }
}
double tie_orders(const std::vector<IEdge>& edges) {
  std::map<int, int> m;
  for (auto& e : edges) m[e[2]]++;
  double r = 1;
  for (auto& kv : m) for (int i = 2; i <= kv.second; ++i) r *= i;
  return r;
}

// vertex-disjoint union of the graphs number b*block .. (b+1)*block-1 of the (n, W) enumeration (graph i of the block
// on labels i*n .. i*n+n-1), edge lists interleaved; odd b: <short,float> and reversed orientation
Case build_union(int n, const std::vector<int>& W, int block, unsigned long long b) {
  auto pairs = all_pairs(n);
  size_t E = pairs.size();
  unsigned long long total = 1;
  for (size_t i = 0; i < E; ++i) total *= (W.size() + 1);
  std::vector<std::vector<IEdge>> parts;
  size_t longest = 0;
  for (unsigned long long code = b * block; code < std::min<unsigned long long>(total, (b + 1) * block); ++code) {
    std::vector<IEdge> edges;
    unsigned long long x = code;
    int base = (int)(code - b * block) * n;
    for (size_t i = 0; i < E; ++i) {
      int d = (int)(x % (W.size() + 1));
      x /= (W.size() + 1);
      if (d) edges.push_back({base + pairs[i].first, base + pairs[i].second, W[d - 1]});
    }
    longest = std::max(longest, edges.size());
    parts.push_back(edges);
  }
  Case c;
  c.api = 'C';
  c.type = (b % 2) ? 'f' : 'd';
  for (size_t i = 0; i < longest; ++i)
    for (auto& p : parts) if (i < p.size()) c.edges.push_back((b % 2) ? IEdge{p[i][1], p[i][0], p[i][2]} : p[i]);
  c.label = "api=U;n=" + std::to_string(n) + ";W=" + vf::join(W, ".") + ";block=" + std::to_string(block) + ";b=" + std::to_string(b);
  return c;
}

}  // namespace

int main(int argc, char** argv) {
  vf::Args a = vf::parse_args(argc, argv);
  vf::install_handlers();
  vf::g_case_timeout = 60;
#ifdef GUDHI_USE_TBB
  tbb::global_control gc(tbb::global_control::max_allowed_parallelism, (size_t)a.geti("threads", 4));
#endif
  vf::Stats& S = vf::stats();
  S.add("ev.incomplete", 0);
  S.add("cases.collapsed_with_Z2_Z3_diagrams_different", 0);
  g_cnt.selfcheck_every = a.geti("selfcheck", 1000);

  if (!a.replay.empty()) {
    g_cnt.selfcheck_every = 1;
    auto kv = vf::parse_kv(a.replay);
    if (kv["api"] == "U")
      exec_case(build_union(atoi(kv["n"].c_str()), vf::parse_ints(kv["W"], '.'), atoi(kv["block"].c_str()), strtoull(kv["b"].c_str(), nullptr, 10)));
    else
      exec_case(parse_case(a.replay));
    vf::finish();
    return 0;
  }

  std::string part = a.get("part", "graphs");
  std::vector<int> variants = vf::parse_ints(a.get("variants", "0,1"));
  int n = (int)a.geti("n", 4);
  std::vector<int> W = vf::parse_ints(a.get("W", "1,2"));
  auto pairs = all_pairs(n);
  size_t E = pairs.size();

  if (part == "graphs" || part == "ties") {
    // every labelled weighted graph: each pair absent or with a weight of W
    // --complete 1: only complete graphs (every pair carries a weight of W), the Rips / distance-matrix situation
    double cap = (double)a.geti("cap", 720);
    bool complete = a.geti("complete", 0) != 0;
    size_t base = W.size() + (complete ? 0 : 1);
    unsigned long long total = 1;
    for (size_t i = 0; i < E; ++i) total *= base;
    for (unsigned long long code = a.shard; code < total; code += a.nshards) {
      std::vector<IEdge> edges;
      unsigned long long x = code;
      for (size_t i = 0; i < E; ++i) {
        int d = (int)(x % base) + (complete ? 1 : 0);
        x /= base;
        if (d) edges.push_back({pairs[i].first, pairs[i].second, W[d - 1]});
      }
      S.add("enum.graphs");
      if (part == "graphs") {
        for (int v : variants) {
          Case c = make_case('C', v, edges);
          exec_case(c);
          if (edges.empty()) S.add("cases.empty_input");
        }
      } else {
        if (edges.empty()) continue;
        g_cnt.want_canon = true;
        double t = tie_orders(edges);
        if (t > cap) { S.add("enum.graphs_outside_scope_more_tie_orders_than_cap"); continue; }
        S.add("enum.graphs_in_tie_scope");
        if (t > 1) S.add("enum.graphs_with_ties");
        for (int v : variants) {
          std::set<std::string> outs;
          for_each_tie_order(edges, [&](const std::vector<IEdge>& ord) { outs.insert(exec_case(make_case('P', v, ord))); });
          if (outs.size() > 1) S.add("cases.graphs_whose_output_depends_on_tie_order");
          S.maxi("max.distinct_outputs_over_tie_orders", (long long)outs.size());
        }
        S.maxi("max.tie_orders_of_one_graph", (long long)t);
      }
    }
  } else if (part == "weak") {
    // every weak order of every edge subset with every order of the tied edges: a sequence of k distinct edges cut
    // into consecutive blocks (2^(k-1) ways); block j of B gets weight B-j
    unsigned long long counter = 0;
    for (unsigned sub = 1; sub < (1u << E); ++sub) {
      std::vector<int> ids;
      for (size_t i = 0; i < E; ++i) if (sub >> i & 1) ids.push_back((int)i);
      size_t k = ids.size();
      do {
        if ((long long)(counter++ % a.nshards) != a.shard) continue;
        for (unsigned cut = 0; cut < (1u << (k - 1)); ++cut) {
          int B = __builtin_popcount(cut) + 1;
          std::vector<IEdge> seq;
          int block = 0;
          for (size_t i = 0; i < k; ++i) {
            if (i > 0 && (cut >> (i - 1) & 1)) ++block;
            seq.push_back({pairs[ids[i]].first, pairs[ids[i]].second, B - block});
          }
          S.add("enum.weak_order_sequences");
          for (int v : variants) exec_case(make_case('P', v, seq));
        }
      } while (std::next_permutation(ids.begin(), ids.end()));
    }
  } else if (part == "union") {
    // long inputs (> 500 edges: tbb::parallel_sort really runs in parallel, std::sort goes through its introsort
    // partitioning): vertex-disjoint unions of `block` consecutive graphs of the (n, W) enumeration
    int block = (int)a.geti("block", 150);
    g_cnt.outcome_counters = false;
    unsigned long long total = 1;
    for (size_t i = 0; i < E; ++i) total *= (W.size() + 1);
    unsigned long long nblocks = (total + block - 1) / block;
    for (unsigned long long b = a.shard; b < nblocks; b += a.nshards) {
      Case c = build_union(n, W, block, b);
      if (c.edges.empty()) continue;
      if (c.edges.size() >= 500) S.add("cases.input_with_500+_edges");
      S.add("enum.unions");
      exec_case(c);
    }
  } else {
    fprintf(stderr, "unknown part %s\n", part.c_str());
    return 2;
  }
  vf::finish();
  return 0;
}
