// C15 (Simplex_tree part) - copies, moves, swaps and serialisation round-trip to equal, independent objects.
// E1-style: every source state x target state x copy/move kind x one-step continuation, all on the real code under
// ASan/UBSan; serialisation with every byte-length perturbation (each probe in a forked child so that an out-of-bounds
// read becomes an observation with a precise class, not a crash of the harness).
#include "st_common.hpp"

#include <functional>
#include <memory>
#include <sstream>

using namespace stc;
using ST = Gudhi::Simplex_tree<Opt>;
using FV = typename ST::Filtration_value;
constexpr bool HAS_FILT = Opt::store_filtration;
constexpr bool CONTIG = Opt::contiguous_vertices;

static std::vector<int> g_labels;
static std::vector<Simplex> g_universe;

static void bad(const std::string& obs, const std::string& d) { vf::mismatch("C15:" + obs, std::string(opt_name) + " " + d); }

// A state = model + a construction variant (internal flags differ: stale upper bound, pending recomputation, cache)
struct State {
  ref::Complex m;
  int variant;  // 0 canonical, 1 built bigger then a maximal simplex removed (dimension_to_be_lowered_), 2 with cache
};
static std::string state_str(const State& s) { return "v" + std::to_string(s.variant) + "{" + s.m.key() + "}"; }

static bool contiguous(const ref::Complex& m) {
  auto v = m.vertices();
  for (size_t i = 0; i < v.size(); ++i) if (v[i] != (int)i) return false;
  return true;
}

// returns false if the variant does not exist for this model
static bool build(ST& st, const State& s) {
  if (s.variant == 0) { build_from_model(st, s.m); return true; }
  if (s.variant == 2) {
    if (s.m.empty()) return false;
    build_from_model(st, s.m);
    st.initialize_filtration();
    return true;
  }
  if (s.variant == 3) {
    // filtration cache built, THEN the complex grows (the cache is stale and smaller: the caller's business as far as
    // the filtration range goes, but serialisation is about the complex)
    if (s.m.empty()) return false;
    ref::Complex less = s.m;
    Simplex last = s.m.filtration_order().back();
    less.s.erase(last);
    if (CONTIG && !contiguous(less)) return false;
    build_from_model(st, less);
    st.initialize_filtration();
    if constexpr (HAS_FILT) st.insert_simplex(to_vh<ST>(last), (FV)s.m.filt(last)); else st.insert_simplex(to_vh<ST>(last));
    return true;
  }
  // variants 1 and 4: add the first absent simplex whose facets are present (largest dimension first), then remove it
  // again; variant 4 builds the filtration cache in between (stale and larger afterwards)
  std::vector<Simplex> cand = g_universe;
  std::sort(cand.begin(), cand.end(), [](const Simplex& a, const Simplex& b) { return a.size() != b.size() ? a.size() > b.size() : a < b; });
  for (auto& c : cand) {
    if (s.m.has(c) || !s.m.facets_present(c)) continue;
    if (CONTIG && c.size() == 1 && c[0] != (int)s.m.vertices().size()) continue;
    build_from_model(st, s.m);
    double f = c.size() > 1 ? s.m.max_facet_filt(c) : 0;
    if constexpr (HAS_FILT) st.insert_simplex(to_vh<ST>(c), (FV)f); else st.insert_simplex(to_vh<ST>(c));
    if (s.variant == 4) st.initialize_filtration();
    st.remove_maximal_simplex(st.find(to_vh<ST>(c)));
    return true;
  }
  return false;
}

static void full_observe(ST& st, const ref::Complex& m, const std::string& what) {
  size_t before = vf::stats().mismatches;
  observe(st, m, g_universe, "C15:" + what);
  observe_equality(st, m, "C15:" + what);
  observe_mutating(st, m, "C15:" + what, true);
  vf::stats().add("ev.transitions");
  (void)before;
}

// The filtration order read WITHOUT touching the cache first: directly after a copy / move nobody has modified the
// complex, so whatever cache the object holds must be valid (a moved-from tree must expose an empty range).
static void observe_cache(ST& st, const ref::Complex& m, const std::string& what) {
  if constexpr (Opt::store_key) {
    std::vector<Simplex> got;
    for (auto h : st.filtration_simplex_range()) got.push_back(simplex_of(st, h));
    if (got != m.filtration_order())
      vf::mismatch("C15:" + what + ":filtration_simplex_range(cache as left by the operation)", std::string(opt_name) + " got " + strset(got) + " model=" + m.key());
    vf::stats().add("ev.transitions");
  }
}

// one-step continuations (model effect + implementation call)
struct Cont { std::string name; std::function<bool(const ref::Complex&)> enabled; std::function<void(ref::Complex&)> on_model; std::function<void(ST&)> on_impl; };
static std::vector<Cont> g_conts;
static void init_conts() {
  Simplex all = g_labels;
  g_conts.push_back({"insert_simplex_and_subfaces(all)", [](const ref::Complex&) { return true; },
                     [all](ref::Complex& m) { m.insert_with_faces(all, HAS_FILT ? 3 : 0); },
                     [all](ST& st) { if constexpr (HAS_FILT) st.insert_simplex_and_subfaces(to_vh<ST>(all), (FV)3); else st.insert_simplex_and_subfaces(to_vh<ST>(all)); }});
  g_conts.push_back({"insert_vertex(next)", [](const ref::Complex& m) { return (int)m.vertices().size() < (int)g_labels.size() + 1; },
                     [](ref::Complex& m) { int v = CONTIG ? (int)m.vertices().size() : 7; m.insert_one({v}, 0); },
                     [](ST& st) { int v = CONTIG ? (int)st.num_vertices() : 7; st.insert_simplex(to_vh<ST>({v})); }});
  g_conts.push_back({"remove_maximal_simplex(last)", [](const ref::Complex& m) {
                       if (m.empty()) return false;
                       if (!CONTIG) return true;
                       ref::Complex c = m; c.s.erase(m.filtration_order().back()); return contiguous(c); },
                     [](ref::Complex& m) { m.s.erase(m.filtration_order().back()); },
                     [](ST& st) {
                       // the last simplex of the filtration order is maximal
                       st.clear_filtration();
                       auto sh = st.filtration_simplex_range().back();
                       st.clear_filtration();
                       st.remove_maximal_simplex(sh); }});
  if (HAS_FILT)
    g_conts.push_back({"prune_above_filtration(0)", [](const ref::Complex& m) { if (!CONTIG) return true; ref::Complex c = m; c.prune_above_filtration(0); return contiguous(c); },
                       [](ref::Complex& m) { m.prune_above_filtration(0); }, [](ST& st) { st.prune_above_filtration((FV)0); }});
  g_conts.push_back({"prune_above_dimension(0)", [](const ref::Complex&) { return true; },
                     [](ref::Complex& m) { m.prune_above_dimension(0); }, [](ST& st) { st.prune_above_dimension(0); }});
  g_conts.push_back({"clear", [](const ref::Complex&) { return true; }, [](ref::Complex& m) { m.s.clear(); }, [](ST& st) { st.clear(); }});
}

enum Kind { COPY_CTOR, COPY_ASSIGN, MOVE_CTOR, MOVE_ASSIGN, SWAP, SELF_COPY, SELF_MOVE, NKINDS };
static const char* kind_name[] = {"copy-construct", "copy-assign", "move-construct", "move-assign", "swap", "self-copy-assign", "self-move-assign"};

// Performs `kind` from a fresh A (and fresh B where a target exists); returns the objects
struct Pair { std::unique_ptr<ST> src, dst; ref::Complex msrc, mdst; };
static bool make(Pair& p, const State& A, const State& B, Kind k) {
  p.src.reset(new ST());
  if (!build(*p.src, A)) return false;
  p.msrc = A.m;
  switch (k) {
    case COPY_CTOR: p.dst.reset(new ST(*p.src)); p.mdst = A.m; break;
    case MOVE_CTOR: p.dst.reset(new ST(std::move(*p.src))); p.mdst = A.m; p.msrc = ref::Complex(); break;
    case COPY_ASSIGN: p.dst.reset(new ST()); if (!build(*p.dst, B)) return false; *p.dst = *p.src; p.mdst = A.m; break;
    case MOVE_ASSIGN: p.dst.reset(new ST()); if (!build(*p.dst, B)) return false; *p.dst = std::move(*p.src); p.mdst = A.m; p.msrc = ref::Complex(); break;
    case SWAP: p.dst.reset(new ST()); if (!build(*p.dst, B)) return false; std::swap(*p.src, *p.dst); p.mdst = A.m; p.msrc = B.m; break;
    case SELF_COPY: { ST& r = *p.src; *p.src = r; p.dst.reset(); break; }
    case SELF_MOVE: { ST& r = *p.src; *p.src = std::move(r); p.dst.reset(); break; }
    default: break;
  }
  return true;
}

static void check_pair(const State& A, const State& B, Kind k) {
  std::string tag = kind_name[k];
  {
    Pair p;
    if (!make(p, A, B, k)) return;
    // (i) both objects observationally equal to their models
    if (p.dst) observe_cache(*p.dst, p.mdst, tag + ":target");
    observe_cache(*p.src, p.msrc, tag + ":source");
    if (p.dst) full_observe(*p.dst, p.mdst, tag + ":target");
    full_observe(*p.src, p.msrc, tag + ":source");
    vf::stats().add(std::string("kind.") + tag);
  }
  if (k == SELF_COPY || k == SELF_MOVE) return;
  // (ii) independence: mutate one, the other must not change; then destroy the mutated one first
  for (int side = 0; side < 2; ++side) {
    for (auto& c : g_conts) {
      Pair p;
      if (!make(p, A, B, k)) return;
      ST& mut = side == 0 ? *p.dst : *p.src;
      ref::Complex& mm = side == 0 ? p.mdst : p.msrc;
      if (!c.enabled(mm)) continue;
      c.on_impl(mut);
      c.on_model(mm);
      full_observe(*p.dst, p.mdst, tag + ":after-" + (side == 0 ? "target" : "source") + "-mutation:target");
      full_observe(*p.src, p.msrc, tag + ":after-" + (side == 0 ? "target" : "source") + "-mutation:source");
      if (side == 0) { p.dst.reset(); full_observe(*p.src, p.msrc, tag + ":after-target-destroyed:source"); }
      else { p.src.reset(); full_observe(*p.dst, p.mdst, tag + ":after-source-destroyed:target"); }
    }
  }
}

// ---- serialisation ------------------------------------------------------------------------------------------------
static void check_serialization(const State& A) {
  ST st;
  if (!build(st, A)) return;
  size_t size = st.get_serialization_size();
  // expected size: documented format
  {
    size_t vh = sizeof(typename ST::Vertex_handle), fv = HAS_FILT ? sizeof(FV) : 0;
    size_t want = vh + A.m.s.size() * (2 * vh + fv);
    if (size != want) bad("get_serialization_size", state_str(A) + " got " + std::to_string(size) + " want " + std::to_string(want));
  }
  std::unique_ptr<char[]> buf(new char[size]);  // tight: ASan red zones right after
  st.serialize(buf.get(), size);
  vf::stats().add("ev.transitions");
  {  // wrong announced size must throw (buffer itself is large enough)
    std::unique_ptr<char[]> big(new char[size + 8]);
    for (long delta : {-1L, 1L, 8L}) {
      if ((long)size + delta < 0) continue;
      bool thrown = false;
      try { st.serialize(big.get(), size + delta); } catch (const std::exception&) { thrown = true; }
      if (!thrown) bad("serialize:wrong-size-accepted", state_str(A) + " delta=" + std::to_string(delta));
    }
  }
  {  // round trip
    ST back;
    back.deserialize(buf.get(), size);
    full_observe(back, A.m, "deserialize");
    if (!(back == st)) bad("deserialize:not-equal-to-original", state_str(A));
    ST back2;
    back2.deserialize(buf.get(), size, [](FV& f, const char* ptr) { return Gudhi::simplex_tree::deserialize_trivial(f, ptr); });
    if (!(back2 == st)) bad("deserialize(custom):not-equal-to-original", state_str(A));
  }
  {  // text round trip (operator<< walks the filtration order: a stale cache must be dropped by the caller first)
    if (A.variant >= 3) st.clear_filtration();
    std::stringstream ss;
    ss << st;
    ST back;
    ss >> back;
    if constexpr (HAS_FILT) {
      full_observe(back, A.m, "text-roundtrip");
      if (!(back == st)) bad("operator>>:not-equal-to-original", state_str(A));
    } else {
      observe(back, A.m, g_universe, "C15:text-roundtrip");
    }
  }
  // every byte-length perturbation: a buffer of exactly L bytes (prefix of the true one, zero padded)
  std::string res = vf::probe_range(0, size + 17, [&](size_t L) -> char {
    if (L == size) return 'S';
    std::unique_ptr<char[]> b(new char[L ? L : 1]);
    for (size_t i = 0; i < L; ++i) b[i] = i < size ? buf[i] : 0;
    ST t;
    try { t.deserialize(b.get(), L); } catch (const std::exception&) { return 'T'; }
    return 'A';  // accepted
  });
  for (size_t L = 0; L < res.size(); ++L) {
    if (L == size) continue;
    vf::stats().add("ev.transitions");
    vf::stats().add("serialization.length_probes");
    if (res[L] == 'A') bad(L < size ? "deserialize:short-buffer-accepted" : "deserialize:long-buffer-accepted", state_str(A) + " L=" + std::to_string(L) + " size=" + std::to_string(size));
    else if (res[L] != 'T')
      bad(L < size ? "deserialize:short-buffer-read-past-end-or-crash" : "deserialize:long-buffer-crash",
          state_str(A) + " L=" + std::to_string(L) + " size=" + std::to_string(size) + " child outcome " + std::string(1, res[L]));
  }
}

static void enumerate_models(const std::vector<double>& F, const std::function<void(const ref::Complex&)>& cb) {
  std::vector<Simplex> uni = g_universe;
  std::sort(uni.begin(), uni.end(), [](const Simplex& a, const Simplex& b) { return a.size() != b.size() ? a.size() < b.size() : a < b; });
  ref::Complex m;
  std::function<void(size_t)> rec = [&](size_t i) {
    if (i == uni.size()) { if (!CONTIG || contiguous(m)) cb(m); return; }
    rec(i + 1);
    const Simplex& s = uni[i];
    if (!m.facets_present(s)) return;
    double lo = s.size() > 1 ? m.max_facet_filt(s) : -1e300;
    for (double f : F) { if (f < lo) continue; m.s[s] = f; rec(i + 1); }
    m.s.erase(s);
  };
  rec(0);
}

static ref::Complex parse_model(const std::string& key) {
  ref::Complex m;
  size_t i = 0;
  while (i < key.size()) {
    size_t j = key.find(';', i);
    if (j == std::string::npos) break;
    std::string item = key.substr(i, j - i);
    size_t c = item.find(':');
    Simplex s;
    std::string vs = item.substr(0, c);
    size_t a = 0;
    while (a < vs.size()) { size_t b = vs.find('.', a); if (b == std::string::npos) break; s.push_back(atoi(vs.substr(a, b - a).c_str())); a = b + 1; }
    m.s[s] = atof(item.substr(c + 1).c_str());
    i = j + 1;
  }
  return m;
}

int main(int argc, char** argv) {
  vf::Args a = vf::parse_args(argc, argv);
  vf::install_handlers();
  vf::g_case_timeout = 120;
  g_labels = vf::parse_ints(a.get("labels", "0,1,2"));
  g_universe = universe_of(g_labels);
  init_conts();
  std::vector<double> F;
  for (int x : vf::parse_ints(a.get("F", HAS_FILT ? "0,1" : "0"))) F.push_back(x);
  if (!HAS_FILT) F = {0};
  std::string part = a.get("part", "copy");

  if (!a.replay.empty()) {
    // case: part=..;kind=K;A=v<variant>{model};B=v<variant>{model}
    std::string r = a.replay;
    auto grab = [&](const std::string& key) -> State {
      State s;
      size_t p = r.find(key + "=v");
      s.variant = r[p + key.size() + 2] - '0';
      size_t b = r.find('{', p), e = r.find('}', b);
      s.m = parse_model(r.substr(b + 1, e - b - 1));
      return s;
    };
    vf::set_case(r);
    if (r.find("part=serial") != std::string::npos) check_serialization(grab("A"));
    else {
      int k = atoi(r.substr(r.find("kind=") + 5).c_str());
      check_pair(grab("A"), grab("B"), (Kind)k);
    }
    vf::finish();
    return 0;
  }

  std::vector<State> states;
  // variants 3 and 4 (stale filtration cache) are only used as serialisation sources
  enumerate_models(F, [&](const ref::Complex& m) { for (int v = 0; v < (part == "copy" ? 3 : 5); ++v) states.push_back({m, v}); });
  // target states for assignments / swap: a fixed small family (empty, one vertex, an edge, the full simplex, each variant)
  std::vector<State> targets;
  {
    ref::Complex e, v1, ed, full;
    v1.s[{g_labels[0]}] = 0;
    ed.insert_with_faces({g_labels[0], g_labels[1]}, HAS_FILT ? 1 : 0);
    full.insert_with_faces(g_labels, HAS_FILT ? 1 : 0);
    for (auto& m : {e, v1, ed, full}) for (int v = 0; v < 3; ++v) targets.push_back({m, v});
    if (a.get("targets", "all") == "small") {
      // quick tier: empty/canonical, edge/pending-recomputation, full/cache, full/canonical
      std::vector<State> t2 = {targets[0], targets[7], targets[11], targets[9]};
      targets.swap(t2);
    }
  }
  long idx = 0, n = 0;
  for (auto& A : states) {
    if ((idx++ % a.nshards) != a.shard) continue;
    {
      ST probe_build;
      if (!build(probe_build, A)) continue;
    }
    n++;
    if (part == "copy") {
      for (int k = 0; k < NKINDS; ++k) {
        bool needs_target = (k == COPY_ASSIGN || k == MOVE_ASSIGN || k == SWAP);
        if (!needs_target) {
          vf::set_case("part=copy;kind=" + std::to_string(k) + ";A=" + state_str(A) + ";B=v0{}");
          check_pair(A, State{ref::Complex(), 0}, (Kind)k);
          vf::end_case();
        } else {
          for (auto& B : targets) {
            vf::set_case("part=copy;kind=" + std::to_string(k) + ";A=" + state_str(A) + ";B=" + state_str(B));
            check_pair(A, B, (Kind)k);
            vf::end_case();
          }
        }
      }
    } else {
      vf::set_case("part=serial;A=" + state_str(A));
      check_serialization(A);
      vf::end_case();
    }
    vf::stats().add("ev.traces");
    if (A.m.dimension() >= 1) vf::stats().add("ev.nontrivial");
    if (n % 211 == 1) vf::stats().sample("A=" + state_str(A));
  }
  vf::stats().add("ev.states", n);
  vf::stats().add("ev.evaluations", vf::stats().c["ev.transitions"]);
  vf::finish();
  return 0;
}
