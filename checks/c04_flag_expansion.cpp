// C04 - Flag (clique) expansions build exactly the clique complex, by every route.
// E2: every small weighted graph x max dimension x construction route (x edge insertion orders), oracle = brute-force
// clique enumeration (ref::cliques) with value max over vertices and edges.
#include "st_common.hpp"

#include <gudhi/Rips_complex.h>
#include <gudhi/distance_functions.h>
#include <boost/graph/adjacency_list.hpp>

#include <functional>

using namespace stc;
using ST = Gudhi::Simplex_tree<Opt>;
using FV = typename ST::Filtration_value;
constexpr bool LINK = Opt::link_nodes_by_label;

struct Graph {
  std::vector<int> labels;                          // vertex labels (sorted)
  std::vector<double> vval;                         // vertex values
  std::vector<std::tuple<int, int, double>> edges;  // (label u < label v, weight)
};
static std::string graph_str(const Graph& g) {
  std::ostringstream o;
  o << "L" << vf::join(g.labels, ".") << "|V" << vf::join(g.vval, ".") << "|E";
  for (auto& e : g.edges) o << std::get<0>(e) << "-" << std::get<1>(e) << "@" << std::get<2>(e) << ",";
  return o.str();
}
static Graph parse_graph(const std::string& s) {
  Graph g;
  size_t a = s.find("L"), b = s.find("|V"), c = s.find("|E");
  g.labels = vf::parse_ints(s.substr(a + 1, b - a - 1), '.');
  for (int x : vf::parse_ints(s.substr(b + 2, c - b - 2), '.')) g.vval.push_back(x);
  std::string es = s.substr(c + 2);
  size_t i = 0;
  while (i < es.size()) {
    size_t j = es.find(',', i);
    if (j == std::string::npos) break;
    int u, v;
    double w;
    if (sscanf(es.substr(i, j - i).c_str(), "%d-%d@%lf", &u, &v, &w) == 3) g.edges.push_back({u, v, w});
    i = j + 1;
  }
  return g;
}

// clique complex of g truncated at dimension d (d < 0: no truncation); blocked: simplices whose open star is removed
static ref::Complex clique_model(const Graph& g, int d, const std::vector<Simplex>& blocked = {}) {
  std::set<std::pair<int, int>> es;
  std::map<std::pair<int, int>, double> ew;
  for (auto& e : g.edges) { es.insert({std::get<0>(e), std::get<1>(e)}); ew[{std::get<0>(e), std::get<1>(e)}] = std::get<2>(e); }
  std::map<int, double> vv;
  for (size_t i = 0; i < g.labels.size(); ++i) vv[g.labels[i]] = g.vval[i];
  ref::Complex m;
  for (auto& c : ref::cliques(g.labels, es, d < 0 ? 64 : d + 1)) {
    bool blk = false;
    for (auto& b : blocked) if (ref::subset(b, c)) blk = true;
    if (blk) continue;
    double v = -1e300;
    for (int x : c) v = std::max(v, vv[x]);
    for (size_t i = 0; i < c.size(); ++i) for (size_t j = i + 1; j < c.size(); ++j) v = std::max(v, ew[{c[i], c[j]}]);
    m.s[c] = v;
  }
  return m;
}

static std::string g_ctx;
static void compare(ST& st, const ref::Complex& m, const Graph& g, const std::string& route) {
  size_t before = vf::stats().mismatches;
  observe(st, m, ref::nonempty_subsets(g.labels), "C04:" + route);
  observe_mutating(st, m, "C04:" + route, true);
  vf::stats().add("ev.transitions");
  vf::stats().add("route." + route);
  (void)before;
}

using BGraph = boost::adjacency_list<boost::vecS, boost::vecS, boost::directedS, boost::property<Gudhi::vertex_filtration_t, FV>,
                                     boost::property<Gudhi::edge_filtration_t, FV>>;
static bool iota_labels(const Graph& g) {
  for (size_t i = 0; i < g.labels.size(); ++i) if (g.labels[i] != (int)i) return false;
  return true;
}
static BGraph to_boost(const Graph& g, bool flip) {
  BGraph b(g.labels.size());
  for (size_t i = 0; i < g.labels.size(); ++i) boost::put(Gudhi::vertex_filtration_t(), b, i, (FV)g.vval[i]);
  for (auto& e : g.edges) {
    int u = std::get<0>(e), v = std::get<1>(e);
    if (flip && ((u + v) & 1)) std::swap(u, v);
    boost::add_edge(u, v, (FV)std::get<2>(e), b);
  }
  return b;
}

// incremental route: vertices then edges in the given order through insert_edge_as_flag
template <class T = ST>
static void route_flag(const Graph& g, int d, const std::vector<int>& edge_order, bool vertices_lazily, bool in_order,
                       const std::string& route) {
  if constexpr (T::Options::link_nodes_by_label) {
    T st;
    Graph cur;
    cur.labels = {};
    std::set<int> vin;
    std::map<int, double> vv;
    for (size_t i = 0; i < g.labels.size(); ++i) vv[g.labels[i]] = g.vval[i];
    ref::Complex prev;
    auto add_vertex = [&](int v) {
      if (vin.count(v)) return;
      vin.insert(v);
      cur.labels.assign(vin.begin(), vin.end());
      cur.vval.clear();
      for (int x : cur.labels) cur.vval.push_back(vv[x]);
      std::vector<typename T::Simplex_handle> added;
      st.insert_edge_as_flag(v, v, (FV)vv[v], d, added);
      std::vector<Simplex> got;
      for (auto h : added) got.push_back(simplex_of(st, h));
      if (got != std::vector<Simplex>{{v}}) vf::mismatch("C04:" + route + ":added_simplices(vertex)", g_ctx + " vertex " + std::to_string(v) + " got " + strset(got));
      prev.s[{v}] = vv[v];
    };
    if (!vertices_lazily) for (int v : g.labels) add_vertex(v);
    for (int ei : edge_order) {
      auto e = g.edges[ei];
      add_vertex(std::get<0>(e));
      add_vertex(std::get<1>(e));
      cur.edges.push_back(e);
      std::vector<typename T::Simplex_handle> added;
      // alternate the argument order: the documentation accepts either
      if (ei & 1) st.insert_edge_as_flag(std::get<1>(e), std::get<0>(e), (FV)std::get<2>(e), d, added);
      else st.insert_edge_as_flag(std::get<0>(e), std::get<1>(e), (FV)std::get<2>(e), d, added);
      ref::Complex now = clique_model(cur, d);
      std::vector<Simplex> got, want;
      for (auto h : added) got.push_back(simplex_of(st, h));
      std::sort(got.begin(), got.end());
      for (auto& kv : now.s) if (!prev.has(kv.first)) want.push_back(kv.first);
      std::sort(want.begin(), want.end());
      if (got != want)
        vf::mismatch("C04:" + route + ":added_simplices", g_ctx + " d=" + std::to_string(d) + " after edge " + std::to_string(std::get<0>(e)) + "-" +
                                                              std::to_string(std::get<1>(e)) + " got " + strset(got) + " want " + strset(want));
      for (auto h : added)
        if ((double)st.filtration(h) != std::get<2>(e))
          vf::mismatch("C04:" + route + ":added_simplices.value", g_ctx + " new simplex does not carry the value of the inserted edge");
      prev = now;
      vf::stats().add("ev.transitions");
    }
    if (vertices_lazily) for (int v : g.labels) add_vertex(v);
    if (!in_order) st.make_filtration_non_decreasing();
    compare(st, clique_model(g, d), g, route);
  }
}

static void run_graph(const Graph& g, const std::vector<int>& dims, int order_mode) {
  g_ctx = graph_str(g);
  bool iota = iota_labels(g);
  size_t ne = g.edges.size();
  // edges sorted by weight (stable): the "filtration order"
  std::vector<int> sorted(ne);
  for (size_t i = 0; i < ne; ++i) sorted[i] = (int)i;
  std::stable_sort(sorted.begin(), sorted.end(), [&](int a, int b) { return std::get<2>(g.edges[a]) < std::get<2>(g.edges[b]); });
  for (int d : dims) {
    ref::Complex m = clique_model(g, std::max(d, 1));
    // d = 0 is outside what the one-shot routes define (the tree already holds the 1-skeleton): see DESIGN.md C04
    if (iota && d >= 1) {
      {
        ST st;
        st.insert_graph(to_boost(g, false));
        st.expansion(d);
        compare(st, m, g, "expansion");
      }
      {
        ST st;
        st.insert_graph(to_boost(g, true));
        st.expansion_with_blockers(d, [](typename ST::Simplex_handle) { return false; });
        compare(st, m, g, "expansion_with_blockers(never)");
      }
      // blocking oracles: every set of <= 2 cliques of dimension >= 2
      if (d >= 2) {
        std::vector<Simplex> cand;
        for (auto& kv : m.s) if (kv.first.size() >= 3) cand.push_back(kv.first);
        for (size_t i = 0; i < cand.size(); ++i) for (size_t j = i; j < cand.size(); ++j) {
          std::vector<Simplex> blocked = {cand[i]};
          if (j != i) blocked.push_back(cand[j]);
          ST st;
          st.insert_graph(to_boost(g, false));
          st.expansion_with_blockers(d, [&](typename ST::Simplex_handle sh) {
            Simplex s = simplex_of(st, sh);
            for (auto& b : blocked) if (b == s) return true;
            return false;
          });
          compare(st, clique_model(g, d, blocked), g, "expansion_with_blockers(blocking)");
        }
      }
    }
    if (LINK) {
      int fd = d;
      // tie-respecting orders: every permutation that keeps weights non-decreasing (bounded), then arbitrary orders
      route_flag(g, fd, sorted, false, true, "insert_edge_as_flag(filtration order)");
      route_flag(g, fd, sorted, true, false, "insert_edge_as_flag(vertices lazily)+mfnd");
      if (order_mode >= 1 && ne >= 2) {
        std::vector<int> perm(ne);
        for (size_t i = 0; i < ne; ++i) perm[i] = (int)i;
        bool all = ne <= (order_mode >= 2 ? 6u : 4u);
        if (all) {
          do { route_flag(g, fd, perm, false, false, "insert_edge_as_flag(any order)+mfnd"); } while (std::next_permutation(perm.begin(), perm.end()));
        } else {
          // stated subset: reverse filtration order and every rotation of the filtration order
          std::vector<int> rev(sorted.rbegin(), sorted.rend());
          route_flag(g, fd, rev, false, false, "insert_edge_as_flag(any order)+mfnd");
          for (size_t r = 1; r < ne; ++r) {
            std::vector<int> rot(sorted);
            std::rotate(rot.begin(), rot.begin() + r, rot.end());
            route_flag(g, fd, rot, false, false, "insert_edge_as_flag(any order)+mfnd");
          }
        }
      }
    }
  }
  if (LINK) {
    route_flag(g, -1, sorted, false, true, "insert_edge_as_flag(unbounded)");
  }
}

// Rips builders: distance matrix / points, every threshold in the distance set
static void run_rips(const std::vector<std::vector<double>>& dist, const std::vector<int>& dims) {
  size_t n = dist.size();
  std::set<double> ths = {0.5, std::numeric_limits<double>::infinity()};
  for (size_t i = 0; i < n; ++i) for (size_t j = 0; j < i; ++j) ths.insert(dist[i][j]);
  for (double t : ths) {
    Graph g;
    for (size_t i = 0; i < n; ++i) { g.labels.push_back((int)i); g.vval.push_back(0); }
    for (size_t i = 0; i < n; ++i) for (size_t j = i + 1; j < n; ++j) if (dist[j][i] <= t) g.edges.push_back({(int)i, (int)j, dist[j][i]});
    g_ctx = "rips t=" + std::to_string(t) + " " + graph_str(g);
    for (int d : dims) {
      Gudhi::rips_complex::Rips_complex<FV> rc(dist, (FV)t);
      ST st;
      rc.create_complex(st, d);
      compare(st, clique_model(g, std::max(d, 1)), g, "Rips_complex(distance matrix)");
    }
  }
}
static void run_rips_points(const std::vector<std::vector<double>>& pts, const std::vector<int>& dims) {
  size_t n = pts.size();
  std::vector<std::vector<double>> dist(n, std::vector<double>(n, 0));
  for (size_t i = 0; i < n; ++i) for (size_t j = 0; j < n; ++j) {
    double s = 0;
    for (size_t k = 0; k < pts[i].size(); ++k) s += (pts[i][k] - pts[j][k]) * (pts[i][k] - pts[j][k]);
    dist[i][j] = std::sqrt(s);
  }
  std::set<double> ths = {0.5, std::numeric_limits<double>::infinity()};
  for (size_t i = 0; i < n; ++i) for (size_t j = 0; j < i; ++j) ths.insert(dist[i][j]);
  for (double t : ths) {
    Graph g;
    for (size_t i = 0; i < n; ++i) { g.labels.push_back((int)i); g.vval.push_back(0); }
    for (size_t i = 0; i < n; ++i) for (size_t j = i + 1; j < n; ++j) if (dist[j][i] <= t) g.edges.push_back({(int)i, (int)j, (double)(FV)dist[j][i]});
    g_ctx = "rips-points t=" + std::to_string(t) + " " + graph_str(g);
    for (int d : dims) {
      Gudhi::rips_complex::Rips_complex<FV> rc(pts, (FV)t, Gudhi::Euclidean_distance());
      ST st;
      rc.create_complex(st, d);
      compare(st, clique_model(g, std::max(d, 1)), g, "Rips_complex(points)");
    }
  }
}

static void enumerate_graphs(const std::vector<int>& labels, const std::vector<double>& vvals, const std::vector<double>& W,
                             const std::function<void(const Graph&)>& cb) {
  int n = (int)labels.size();
  std::vector<std::pair<int, int>> pairs;
  for (int i = 0; i < n; ++i) for (int j = i + 1; j < n; ++j) pairs.push_back({i, j});
  std::vector<size_t> vi(n, 0);
  for (;;) {
    std::vector<size_t> ei(pairs.size(), 0);
    for (;;) {
      Graph g;
      g.labels = labels;
      for (int i = 0; i < n; ++i) g.vval.push_back(vvals[vi[i]]);
      bool ok = true;
      for (size_t e = 0; e < pairs.size(); ++e) {
        if (!ei[e]) continue;
        double w = W[ei[e] - 1];
        if (w < g.vval[pairs[e].first] || w < g.vval[pairs[e].second]) { ok = false; break; }
        g.edges.push_back({labels[pairs[e].first], labels[pairs[e].second], w});
      }
      if (ok) cb(g);
      size_t e = 0;
      while (e < ei.size() && ++ei[e] > W.size()) { ei[e] = 0; ++e; }
      if (e == ei.size()) break;
    }
    int i = 0;
    while (i < n && ++vi[i] >= vvals.size()) { vi[i] = 0; ++i; }
    if (i == n) break;
  }
}

int main(int argc, char** argv) {
  vf::Args a = vf::parse_args(argc, argv);
  vf::install_handlers();
  vf::g_case_timeout = 120;
  std::string part = a.get("part", "graphs");
  std::vector<int> dims = vf::parse_ints(a.get("dims", "0,1,2,3,4"));
  int order_mode = (int)a.geti("orders", 1);
  long idx = 0, n = 0;
  auto mine = [&]() { return (idx++ % a.nshards) == a.shard; };
  if (!a.replay.empty()) {
    auto kv = vf::parse_kv(a.replay);
    vf::set_case(a.replay);
    if (kv.count("graph")) run_graph(parse_graph(kv["graph"]), dims, order_mode);
    else if (kv.count("dist")) {
      std::vector<int> v = vf::parse_ints(kv["dist"], '.');
      int np = atoi(kv["n"].c_str());
      std::vector<std::vector<double>> dist(np, std::vector<double>(np, 0));
      size_t k = 0;
      for (int i = 0; i < np; ++i) for (int j = 0; j < i; ++j) dist[i][j] = dist[j][i] = v[k++];
      run_rips(dist, dims);
    } else if (kv.count("pts")) {
      std::vector<int> v = vf::parse_ints(kv["pts"], '.');
      int dimp = atoi(kv["pdim"].c_str());
      std::vector<std::vector<double>> pts;
      for (size_t i = 0; i + dimp <= v.size(); i += dimp) pts.push_back(std::vector<double>(v.begin() + i, v.begin() + i + dimp));
      run_rips_points(pts, dims);
    }
    vf::finish();
    return 0;
  }
  if (part == "graphs") {
    std::vector<int> labels = vf::parse_ints(a.get("labels", "0,1,2,3"));
    std::vector<double> vv, W;
    for (int x : vf::parse_ints(a.get("vvals", "0"))) vv.push_back(x);
    for (int x : vf::parse_ints(a.get("W", "1,2,3"))) W.push_back(x);
    enumerate_graphs(labels, vv, W, [&](const Graph& g) {
      if (!mine()) return;
      vf::set_case(std::string("opt=") + opt_name + ";graph=" + graph_str(g));
      run_graph(g, dims, order_mode);
      vf::end_case();
      n++;
      vf::stats().add("ev.traces");
      if (g.edges.size() >= 3) vf::stats().add("ev.nontrivial");
      if (n % 997 == 1) vf::stats().sample(graph_str(g));
    });
  } else if (part == "rips") {
    int np = (int)a.geti("n", 4);
    std::vector<int> D = vf::parse_ints(a.get("D", "1,2,3"));
    size_t ne = np * (np - 1) / 2;
    std::vector<size_t> ci(ne, 0);
    for (;;) {
      if (mine()) {
        std::vector<std::vector<double>> dist(np, std::vector<double>(np, 0));
        std::vector<int> flat;
        size_t k = 0;
        for (int i = 0; i < np; ++i) for (int j = 0; j < i; ++j) { dist[i][j] = dist[j][i] = D[ci[k]]; flat.push_back(D[ci[k]]); ++k; }
        vf::set_case(std::string("opt=") + opt_name + ";n=" + std::to_string(np) + ";dist=" + vf::join(flat, "."));
        run_rips(dist, dims);
        vf::end_case();
        n++;
        vf::stats().add("ev.traces");
        vf::stats().add("ev.nontrivial");
        if (n % 97 == 1) vf::stats().sample("dist=" + vf::join(flat, "."));
      }
      size_t e = 0;
      while (e < ne && ++ci[e] >= D.size()) { ci[e] = 0; ++e; }
      if (e == ne) break;
    }
  } else if (part == "rips-points") {
    // every ordered choice of np points of the g x g integer grid (with repetition excluded)
    int np = (int)a.geti("n", 3), gsz = (int)a.geti("grid", 3);
    std::vector<std::vector<double>> grid;
    for (int x = 0; x < gsz; ++x) for (int y = 0; y < gsz; ++y) grid.push_back({(double)x, (double)y});
    std::vector<size_t> ci(np, 0);
    for (;;) {
      bool distinct = true;
      for (int i = 0; i < np; ++i) for (int j = 0; j < i; ++j) if (ci[i] == ci[j]) distinct = false;
      if (distinct && mine()) {
        std::vector<std::vector<double>> pts;
        std::vector<int> flat;
        for (int i = 0; i < np; ++i) { pts.push_back(grid[ci[i]]); flat.push_back((int)grid[ci[i]][0]); flat.push_back((int)grid[ci[i]][1]); }
        vf::set_case(std::string("opt=") + opt_name + ";pdim=2;pts=" + vf::join(flat, "."));
        run_rips_points(pts, dims);
        vf::end_case();
        n++;
        vf::stats().add("ev.traces");
        vf::stats().add("ev.nontrivial");
        if (n % 97 == 1) vf::stats().sample("pts=" + vf::join(flat, "."));
      }
      int i = 0;
      while (i < np && ++ci[i] >= grid.size()) { ci[i] = 0; ++i; }
      if (i == np) break;
    }
  }
  vf::stats().add("ev.states", n);
  vf::stats().add("ev.evaluations", vf::stats().c["ev.transitions"]);
  vf::finish();
  return 0;
}
