// C09 - general (base) matrices behave as dense matrices over their field, whatever the column representation.
// Shared part of the harness: option structs, the dense reference model, the operation alphabet.
// The oracle (struct Model) contains no GUDHI code: a dense std::vector<int> per column, a partition of the column
// indices for the column-compressed variant, and the set of row indices the lazy row-swap maps are entitled to know.
#ifndef C09_COMMON_HPP
#define C09_COMMON_HPP

#include "harness.hpp"
#include "explorer.hpp"

#include <gudhi/Fields/Zp_field_operators.h>
#include <gudhi/Matrix.h>
#include <gudhi/persistence_matrix_options.h>

#include <functional>
#include <map>
#include <set>
#include <sstream>
#include <string>
#include <vector>

namespace c09 {

using Gudhi::persistence_matrix::Column_indexation_types;
using Gudhi::persistence_matrix::Column_types;

// the option sets of the repository's own tests (pm_matrix_tests_options.h: Base_options, Base_options_with_row_access,
// Column_compression_options, Column_compression_options_with_row_access) written as one template
template <bool Z2, Column_types CT, bool RA, bool REMROW, bool INTR, bool MAPC, bool SWAPS, bool COMP>
struct Opt {
  using Field_coeff_operators = Gudhi::persistence_fields::Zp_field_operators<>;
  using Index = unsigned int;
  using Dimension = int;
  static const bool is_z2 = Z2;
  static const Column_types column_type = CT;
  static const Column_indexation_types column_indexation_type = Column_indexation_types::CONTAINER;
  static const bool has_matrix_maximal_dimension_access = false;
  static const bool has_column_pairings = false;
  static const bool has_vine_update = false;
  static const bool can_retrieve_representative_cycles = false;
  static const bool is_of_boundary_type = true;
  static const bool has_column_compression = COMP;
  static const bool has_row_access = RA;
  static const bool has_intrusive_rows = INTR;
  static const bool has_removable_rows = REMROW;
  static const bool has_removable_columns = !COMP;
  static const bool has_map_column_container = MAPC;
  static const bool has_column_and_row_swaps = SWAPS;
};

inline const char* ct_name(Column_types t) {
  switch (t) {
    case Column_types::LIST: return "list";
    case Column_types::SET: return "set";
    case Column_types::HEAP: return "heap";
    case Column_types::VECTOR: return "vector";
    case Column_types::NAIVE_VECTOR: return "naive_vector";
    case Column_types::SMALL_VECTOR: return "small_vector";
    case Column_types::UNORDERED_SET: return "unordered_set";
    case Column_types::INTRUSIVE_LIST: return "intrusive_list";
    case Column_types::INTRUSIVE_SET: return "intrusive_set";
  }
  return "?";
}

// ---------------------------------------------------------------------------------------------------------------
// static description of a configuration, as the model needs it
// ---------------------------------------------------------------------------------------------------------------
struct Shape {
  bool z2 = true, ra = false, remrow = false, intr = false, mapc = false, swaps = false, comp = false;
  std::string name;
};

// ---------------------------------------------------------------------------------------------------------------
// operations
// ---------------------------------------------------------------------------------------------------------------
enum Kind {
  INS, INS_AT, REM_LAST, REM_COL, ADD, ADD_R, MTA, MTA_R, MSA, MSA_R, ZERO_E, ZERO_C, SWAP_R, SWAP_C, ERASE_ROW, TOUCH,
  NKINDS
};
static const char* kind_name[] = {"insert_column", "insert_column_at", "remove_last", "remove_column", "add_to",
                                  "add_to_range", "multiply_target_and_add_to", "multiply_target_and_add_to_range",
                                  "multiply_source_and_add_to", "multiply_source_and_add_to_range", "zero_entry",
                                  "zero_column", "swap_rows", "swap_columns", "erase_empty_row", "get_column"};

struct Op {
  Kind k;
  int a = 0;  // source column / column / first row
  int b = 0;  // target column / row / second row / index
  int c = 0;  // content code (inserted column or entry range)
  int q = 0;  // coefficient as given to the facade (an int)
};

using Dense = std::vector<int>;

struct Universe {
  int R = 3;      // rows 0..R-1
  int C = 2;      // column indices 0..C-1
  int P = 2;      // characteristic
  std::vector<int> coefs;  // coefficients given to multiply_*
  std::vector<Dense> contents;  // every column over {0..P-1}^R, code = index
  void init() {
    contents.clear();
    int n = 1;
    for (int i = 0; i < R; ++i) n *= P;
    for (int code = 0; code < n; ++code) {
      Dense d(R);
      int x = code;
      for (int i = 0; i < R; ++i) { d[i] = x % P; x /= P; }
      contents.push_back(d);
    }
  }
  int mod(long long x) const { return (int)(((x % P) + P) % P); }
};

inline std::string dense_str(const Dense& d) {
  std::string s;
  for (int x : d) s += (char)('0' + x);
  return s;
}

// ---------------------------------------------------------------------------------------------------------------
// the reference model
// ---------------------------------------------------------------------------------------------------------------
struct Model {
  std::map<int, Dense> cols;  // existing columns
  int next = 0;               // next index used by insert_column(c)
  std::map<int, int> cls;     // compressed variant: class id of each column index
  int next_cls = 0;
  std::set<int> known;        // rows the lazy row-swap maps certainly know (lower bound of the implementation's domain)

  bool row_empty(int r) const {
    for (auto& kv : cols) if (kv.second[r]) return false;
    return true;
  }
  bool has_hole() const { return (int)cols.size() != next; }

  std::string key() const {
    std::ostringstream o;
    o << "n" << next << "[";
    for (auto& kv : cols) {
      o << kv.first << "=" << dense_str(kv.second);
      auto it = cls.find(kv.first);
      if (it != cls.end()) o << "c" << it->second;
      o << ",";
    }
    o << "]K";
    for (int r : known) o << r;
    return o.str();
  }
};

// class ids are renumbered by first occurrence so that the key does not depend on the history of merges
inline void normalise_classes(Model& m) {
  std::map<int, int> ren;
  for (auto& kv : m.cls) {
    if (!ren.count(kv.second)) { int id = (int)ren.size(); ren[kv.second] = id; }
    kv.second = ren[kv.second];
  }
  m.next_cls = (int)ren.size();
}

struct Rules {
  Universe U;
  Shape S;
  std::vector<Op> ops;

  bool is_zero(const Dense& d) const { for (int x : d) if (x) return false; return true; }
  bool known_all(const Model& m, const Dense& d) const {
    if (!S.swaps) return true;
    for (int r = 0; r < U.R; ++r) if (d[r] && !m.known.count(r)) return false;
    return true;
  }

  void build_alphabet() {
    ops.clear();
    int NC = (int)U.contents.size();
    auto push = [&](Kind k, int a, int b, int c, int q) { Op o; o.k = k; o.a = a; o.b = b; o.c = c; o.q = q; ops.push_back(o); };
    for (int c = 0; c < NC; ++c) push(INS, 0, 0, c, 0);
    if (!S.comp) push(REM_LAST, 0, 0, 0, 0);
    for (int i = 0; i < U.C; ++i) for (int j = 0; j < U.C; ++j) if (i != j) push(ADD, i, j, 0, 0);
    for (int i = 0; i < U.C; ++i) for (int j = 0; j < U.C; ++j) if (i != j) for (int q : U.coefs) push(MTA, i, j, 0, q);
    for (int i = 0; i < U.C; ++i) for (int j = 0; j < U.C; ++j) if (i != j) for (int q : U.coefs) push(MSA, i, j, 0, q);
    if (!S.comp) {
      for (int i = 0; i < U.C; ++i) for (int r = 0; r < U.R; ++r) push(ZERO_E, i, r, 0, 0);
      for (int i = 0; i < U.C; ++i) push(ZERO_C, i, 0, 0, 0);
    }
    if (S.swaps) {
      for (int r1 = 0; r1 < U.R; ++r1) for (int r2 = r1 + 1; r2 < U.R; ++r2) push(SWAP_R, r1, r2, 0, 0);
      for (int i = 0; i < U.C; ++i) for (int j = i + 1; j < U.C; ++j) push(SWAP_C, i, j, 0, 0);
      for (int i = 0; i < U.C; ++i) push(TOUCH, i, 0, 0, 0);
    }
    if ((S.ra && S.remrow) || (S.swaps && S.mapc)) for (int r = 0; r < U.R; ++r) push(ERASE_ROW, r, 0, 0, 0);
    if (S.mapc && !S.comp) for (int i = 0; i < U.C; ++i) push(REM_COL, i, 0, 0, 0);
    if (!S.ra && !S.comp) for (int c = 0; c < NC; ++c) for (int i = 0; i < U.C; ++i) push(INS_AT, 0, i, c, 0);
    for (int c = 0; c < NC; ++c) for (int j = 0; j < U.C; ++j) push(ADD_R, 0, j, c, 0);
    for (int c = 0; c < NC; ++c) for (int j = 0; j < U.C; ++j) for (int q : U.coefs) push(MTA_R, 0, j, c, q);
    for (int c = 0; c < NC; ++c) for (int j = 0; j < U.C; ++j) for (int q : U.coefs) push(MSA_R, 0, j, c, q);
  }

  // Documented preconditions (and the conventions stated in the registry entry) live here; computed from the model only.
  bool enabled(const Model& m, const Op& o) const {
    auto has = [&](int i) { return m.cols.count(i) > 0; };
    switch (o.k) {
      case INS: return m.next < U.C;
      case INS_AT: return !has(o.b);  // "no other column inserted at that index which was not explicitly removed"
      case REM_LAST: return m.next > 0;
      case REM_COL: return o.a < m.next;  // an existing column or a hole ("considered as an empty column")
      case ADD: case MTA: case MSA: return has(o.a) && has(o.b);
      case ADD_R: case MTA_R: case MSA_R: return has(o.b) && known_all(m, U.contents[o.c]);
      case ZERO_E: return has(o.a) && (!S.swaps || m.known.count(o.b));
      case ZERO_C: return has(o.a);
      case SWAP_R: return true;
      case SWAP_C: return has(o.a) && has(o.b);
      case ERASE_ROW:  // "assumes that the row is empty"
        if (!m.row_empty(o.a)) return false;
        if (S.swaps && !m.known.count(o.a)) return false;  // the row index is looked up in the swap maps
        return true;
      case TOUCH: return has(o.a);
      default: return false;
    }
  }

  // operations the code has no dedicated path for: executed in a forked probe first so that a crash is an observation
  // of that one case instead of the end of the exploration
  std::string risky(const Model& m, const Op& o) const {
    if (S.comp && (o.k == ADD || o.k == MTA || o.k == MSA || o.k == ADD_R || o.k == MTA_R || o.k == MSA_R)) {
      if (is_zero(m.cols.at(o.b))) return "target_class_is_the_empty_column";
      if ((o.k == ADD || o.k == MTA || o.k == MSA) && m.cls.at(o.a) == m.cls.at(o.b)) return "source_and_target_in_same_class";
    }
    if (o.k == SWAP_R && S.swaps) {
      bool k1 = m.known.count(o.a), k2 = m.known.count(o.b);
      if (!k1 || !k2) return S.mapc ? "swap_rows_with_row_unknown_to_the_maps" : "swap_rows_with_row_beyond_the_swap_vectors";
    }
    return "";
  }

  Dense combine(const Dense& target, const Dense& source, int kt, int ks) const {
    Dense r(U.R);
    for (int i = 0; i < U.R; ++i) r[i] = U.mod((long long)kt * target[i] + (long long)ks * source[i]);
    return r;
  }

  void register_rows(Model& m, const Dense& d) const {
    if (!S.swaps) return;
    int piv = -1;
    for (int r = 0; r < U.R; ++r) if (d[r]) piv = r;
    if (S.mapc) { for (int r = 0; r < U.R; ++r) if (d[r]) m.known.insert(r); }
    else { for (int r = 0; r <= piv; ++r) m.known.insert(r); }
  }

  void set_target(Model& m, int j, const Dense& v) const {
    if (!S.comp) { m.cols[j] = v; return; }
    int cj = m.cls.at(j);
    for (auto& kv : m.cols) if (m.cls.at(kv.first) == cj) kv.second = v;
    if (!is_zero(v)) {
      for (auto& kv : m.cols) if (m.cls.at(kv.first) != cj && kv.second == v) {
        int other = m.cls.at(kv.first);
        for (auto& c : m.cls) if (c.second == other) c.second = cj;
        break;
      }
    }
    normalise_classes(m);
  }

  void apply(Model& m, const Op& o) const {
    switch (o.k) {
      case INS:
      case INS_AT: {
        int idx = (o.k == INS) ? m.next : o.b;
        const Dense& d = U.contents[o.c];
        m.cols[idx] = d;
        if (idx >= m.next) m.next = idx + 1;
        register_rows(m, d);
        if (S.comp) {
          int c = -1;
          if (!is_zero(d)) for (auto& kv : m.cols) if (kv.first != idx && kv.second == d) { c = m.cls.at(kv.first); break; }
          m.cls[idx] = (c >= 0) ? c : m.next_cls++;
          normalise_classes(m);
        }
        break;
      }
      case REM_LAST:
        --m.next;
        m.cols.erase(m.next);
        break;
      case REM_COL:
        if (o.a == m.next - 1) --m.next;
        m.cols.erase(o.a);
        break;
      case ADD: set_target(m, o.b, combine(m.cols.at(o.b), m.cols.at(o.a), 1, 1)); break;
      case ADD_R: set_target(m, o.b, combine(m.cols.at(o.b), U.contents[o.c], 1, 1)); break;
      case MTA: set_target(m, o.b, combine(m.cols.at(o.b), m.cols.at(o.a), o.q, 1)); break;
      case MTA_R: set_target(m, o.b, combine(m.cols.at(o.b), U.contents[o.c], o.q, 1)); break;
      case MSA: set_target(m, o.b, combine(m.cols.at(o.b), m.cols.at(o.a), 1, o.q)); break;
      case MSA_R: set_target(m, o.b, combine(m.cols.at(o.b), U.contents[o.c], 1, o.q)); break;
      case ZERO_E: m.cols.at(o.a)[o.b] = 0; break;
      case ZERO_C: m.cols.at(o.a).assign(U.R, 0); break;
      case SWAP_R: {
        for (auto& kv : m.cols) std::swap(kv.second[o.a], kv.second[o.b]);
        bool k1 = m.known.count(o.a), k2 = m.known.count(o.b);
        if (S.mapc) {
          if (k1 && !k2) { m.known.erase(o.a); m.known.insert(o.b); }
          if (k2 && !k1) { m.known.erase(o.b); m.known.insert(o.a); }
        } else {
          for (int r = 0; r <= std::max(o.a, o.b); ++r) m.known.insert(r);
        }
        break;
      }
      case SWAP_C: std::swap(m.cols.at(o.a), m.cols.at(o.b)); break;
      case ERASE_ROW:
        if (S.swaps && S.mapc) m.known.erase(o.a);
        break;
      case TOUCH: break;
      default: break;
    }
  }

  std::string op_text(const Op& o) const {
    std::ostringstream t;
    t << kind_name[o.k] << "(";
    switch (o.k) {
      case INS: t << dense_str(U.contents[o.c]); break;
      case INS_AT: t << dense_str(U.contents[o.c]) << "," << o.b; break;
      case REM_LAST: break;
      case REM_COL: case ZERO_C: case TOUCH: case ERASE_ROW: t << o.a; break;
      case ADD: t << o.a << "," << o.b; break;
      case ADD_R: t << "[" << dense_str(U.contents[o.c]) << "]," << o.b; break;
      case MTA: t << o.a << "," << o.q << "," << o.b; break;
      case MTA_R: t << "[" << dense_str(U.contents[o.c]) << "]," << o.q << "," << o.b; break;
      case MSA: t << o.q << "," << o.a << "," << o.b; break;
      case MSA_R: t << o.q << ",[" << dense_str(U.contents[o.c]) << "]," << o.b; break;
      case ZERO_E: case SWAP_R: case SWAP_C: t << o.a << "," << o.b; break;
      default: break;
    }
    t << ")";
    return t.str();
  }
};

}  // namespace c09

#endif
